# -*- coding: utf-8 -*-
"""C02 - propagated density matrices stay valid states and follow the generator.

Proof: coq/theories/Props/C02.v (trace and Hermiticity of every stored state for every order / refinement / number
of steps / tensor, operator or time-dependent form / pure dephasing; RWA conversion laws; unitarity defect).
Tie: ReducedDensityMatrixPropagator.propagate and StateVectorPropagator.propagate are run on small systems with
integer generators and dyadic time steps; the stored states are compared inside Coq (1e-10 relative to the largest
entry) with Model.C02 run in exact complex-rational arithmetic, and the model's own run is checked to conserve the
trace exactly and stay exactly Hermitian.  RWA conversions are compared with the model on the run's own phases.
Monitors (float, random systems): trace / Hermiticity of every stored state for tensors of every theory; Lindblad:
positive semidefiniteness and distance to scipy's expm of an independently built GKSL superoperator within the
truncation bound; closed systems: norm within the proven unitarity-defect bound, purity, energy; state vector vs
density matrix; RWA frame vs laboratory frame.
"""
import os
import sys
import json
import math
import types
import io
import contextlib
from fractions import Fraction

sys.path.insert(0, os.path.dirname(os.path.abspath(__file__)))
import common as cm

PID = "C02"
work = cm.reexec_isolated(PID)
args = cm.parse_args(sys.argv[1:])

import numpy as np


def reset_manager():
    import quantarhei as qr
    m = qr.Manager()
    m.basis_stack = [0]
    m.basis_transformations = [1]
    m.basis_registered = {}
    m._in_eigenbasis_of_context = False
    m.current_basis_operator = None


def q2(a):
    return cm.clist([cm.clist([cm.gq(x) for x in row]) for row in np.asarray(a)])


def q1(a):
    return cm.clist([cm.gq(x) for x in np.asarray(a)])


def q3(a):
    return cm.clist([q2(x) for x in np.asarray(a)])


def q4(a):
    a = np.asarray(a)
    return cm.clist([cm.clist([q2(a[i, j]) for j in range(a.shape[1])]) for i in range(a.shape[0])])


def q5(a):
    return cm.clist([q4(x) for x in np.asarray(a)])


# ------------------------------------------------------------------ exact cases
def rint(r, lo=-2, hi=2):
    return r.randint(lo, hi)


def gen_exact(r, k):
    kind = ["ham", "tensor", "ops", "td", "tensor_deph", "sv", "rwa", "ops", "tensor"][k % 9]
    n = r.choice([2, 2, 3])
    L = r.choice([2, 4, 4, 6])
    nref = r.choice([1, 1, 2, 3])
    nsteps = r.choice([1, 2, 3])
    while nref * nsteps > 5:
        nsteps -= 1
    return {"kind": kind, "n": n, "L": L, "nref": nref, "nsteps": max(1, nsteps), "dtden": r.choice([8, 16, 32]),
            "seed": r.randrange(2 ** 30), "deph": r.choice(["Lorentzian", "Gaussian"]), "stride": r.choice([1, 2]),
            "nb": r.choice([1, 2]), "cut": r.random() < 0.4, "nrefkw": r.random() < 0.5,
            "decimal": r.choice([None, None, [0.2, 3], [0.1, 3], [0.1, 6], [0.1, 7], [0.3, 2], [0.7, 3]])}


def make_system(c):
    import random
    r = random.Random(c["seed"])
    n, nb = c["n"], c["nb"]
    H = np.array([[float(rint(r, -3, 3)) for _ in range(n)] for _ in range(n)])
    H = H + H.T
    K = np.array([[[float(rint(r, -1, 1)) for _ in range(n)] for _ in range(n)] for _ in range(nb)])
    Lm = np.array([[[complex(rint(r, -1, 1), rint(r, -1, 1)) for _ in range(n)] for _ in range(n)] for _ in range(nb)])
    A = np.array([[complex(rint(r), rint(r)) for _ in range(n)] for _ in range(n)])
    rho0 = A.dot(A.conj().T)
    if np.trace(rho0) == 0:
        rho0[0, 0] = 1.0
    psi0 = np.array([complex(rint(r), rint(r)) for _ in range(n)])
    if not np.any(psi0):
        psi0[0] = 1.0
    gam = np.array([[float(r.choice([0, 1, 2, 3])) for _ in range(n)] for _ in range(n)])
    gam = gam + gam.T
    for i in range(n):
        gam[i, i] = 0.0
    return r, H, K, Lm, rho0, psi0, gam


def int_tensor(K, Lm):
    from quantarhei.qm.liouvillespace.redfieldtensor import _loopit
    n = K.shape[1]
    RR = np.zeros((n, n, n, n), dtype=np.complex128)
    Ld = np.conj(np.transpose(Lm, (0, 2, 1)))
    for m in range(K.shape[0]):
        _loopit(K, K[m].T.copy(), Lm, Ld, n, RR, m)
    return RR


def method_of(L):
    return {2: "short-exp-2", 4: "short-exp-4", 6: "short-exp-6"}[L]


def propagate_dm(prop, rho, L, nref, via_kw):
    """the refinement is requested either on the propagator (setDtRefinement) or per call (propagate(..., Nref=k))"""
    if nref > 1 and via_kw:
        return prop.propagate(rho, method=method_of(L), Nref=nref)
    if nref > 1:
        prop.setDtRefinement(nref)
    return prop.propagate(rho, method=method_of(L))


def run_exact(chk, c, items, meta):
    import quantarhei as qr
    from quantarhei.qm.liouvillespace.relaxationtensor import RelaxationTensor
    reset_manager()
    n, L, nref, nsteps = c["n"], c["L"], c["nref"], c["nsteps"]
    r, H, K, Lm, rho0, psi0, gam = make_system(c)
    dt = Fraction(1, c["dtden"]) * nref            # stored step; refined step = dt/nref is dyadic or a third of one
    if nref == 3:
        dt = Fraction(3, c["dtden"])
    ta = qr.TimeAxis(0.0, nsteps + 1, float(dt))
    dtref = dt / nref
    kind = c["kind"]
    ham = qr.Hamiltonian(data=H.copy())
    out = None
    Rl, Kl, Ll, Ldl, El = "[]", "[]", "[]", "[]", "[]"
    pk, stride, cutoff = "PHam", 1, 1
    with contextlib.redirect_stdout(io.StringIO()):
        if kind == "sv":
            from quantarhei.qm.propagators.svpropagator import StateVectorPropagator
            prop = StateVectorPropagator(ta, ham)
            if nref > 1:
                prop.setDtRefinement(nref)
            ev = prop.propagate(qr.StateVector(data=psi0.copy()), L=L)
            out = np.array(ev.data)
            tol = 1e-10 * float(np.max(np.abs(out)))
            items["sv"].append("(mkCase02sv %d%%nat %s %s %d%%nat %d%%nat %d%%nat %s %s %s)" % (
                n, q2(H), cm.qlit(dtref), L, nref, nsteps, q1(psi0), cm.clist([q1(v) for v in out]), cm.qlit(tol)))
            meta["sv"].append(c)
            nrm = np.sum(np.abs(out) ** 2, axis=1)
            x = float(np.linalg.norm(H, 2)) * float(dtref)
            d = {2: x ** 4 / 4, 4: x ** 6 / 72 + x ** 8 / 576, 6: x ** 8 / 2880 + x ** 10 / 21600 + x ** 12 / 518400}[L]
            for i in range(len(nrm)):
                if abs(nrm[i] / nrm[0] - 1.0) > (1 + d) ** (i * nref) - 1 + 1e-12:
                    chk.violation("sv:norm", "state-vector norm drifts by %g at step %d, beyond the unitarity-defect bound %g (case %s)"
                                  % (nrm[i] / nrm[0] - 1, i, (1 + d) ** (i * nref) - 1, json.dumps(c)), "monitor", c)
                    break
            chk.case(("exact", json.dumps(c, sort_keys=True)), True)
            chk.count("exact:sv L=%d" % L)
            return
        if kind == "rwa":
            E0 = 40.0
            Hr = H.copy()
            for i in range(1, n):
                Hr[i, i] += E0
            Hr[0, 1:] = 0
            Hr[1:, 0] = 0
            ham = qr.Hamiltonian(data=Hr.copy())
            ham.set_rwa([0, 1])
            HH = np.array(ham.get_RWA_data())
            Om = np.array(ham.get_RWA_skeleton())
            prop = qr.ReducedDensityMatrixPropagator(ta, ham)
            ev = propagate_dm(prop, qr.ReducedDensityMatrix(data=rho0.copy()), L, nref, c.get('nrefkw', False))
            out = np.array(ev.data)
            if not ev.is_in_rwa:
                chk.violation("rwa:flag", "propagation with an RWA Hamiltonian does not mark the evolution as being in RWA", "monitor", c)
            H = HH                                    # the model propagates with the RWA Hamiltonian the code used
            rwa_in = out.copy()
            ev.convert_from_RWA(ham)
            rwa_out = np.array(ev.data)
            from quantarhei.qm.propagators.svpropagator import StateVectorPropagator
            sp = StateVectorPropagator(ta, ham)
            if nref > 1:
                sp.setDtRefinement(nref)
            sev = sp.propagate(qr.StateVector(data=psi0.copy()), L=L)
            sv_in = np.array(sev.data)
            sev.convert_from_RWA(ham)
            sv_out = np.array(sev.data)
            for i, t in enumerate(ta.data):
                u = np.exp(-1j * Om * t)
                tol = 1e-11 * max(1.0, float(np.max(np.abs(rwa_in[i]))), float(np.max(np.abs(sv_in[i]))))
                items["rwa"].append("(mkCase02rwa %d%%nat %s %s %s %s %s %s)" % (
                    n, q1(u), q2(rwa_in[i]), q2(rwa_out[i]), q1(sv_in[i]), q1(sv_out[i]), cm.qlit(tol)))
                meta["rwa"].append(dict(c, tindex=i))
                # the property on the implementation: populations untouched, |psi_k| untouched, rho(t) = psi psi^+ preserved
                if np.max(np.abs(np.diag(rwa_out[i]) - np.diag(rwa_in[i]))) > 1e-12 * max(1, np.max(np.abs(rwa_in[i]))):
                    chk.violation("rwa:dm_populations", "convert_from_RWA changes populations of the density matrix (case %s)" % json.dumps(c), "monitor", c)
                if np.max(np.abs(np.abs(sv_out[i]) - np.abs(sv_in[i]))) > 1e-12 * max(1, np.max(np.abs(sv_in[i]))):
                    chk.violation("rwa:sv_moduli", "StateVectorEvolution.convert_from_RWA changes |psi_k| (time index %d, case %s): %s -> %s"
                                  % (i, json.dumps(c), np.abs(sv_in[i]).tolist(), np.abs(sv_out[i]).tolist()), "monitor", c)
            pk = "PHam"
        elif kind == "ham":
            prop = qr.ReducedDensityMatrixPropagator(ta, ham)
            ev = propagate_dm(prop, qr.ReducedDensityMatrix(data=rho0.copy()), L, nref, c.get('nrefkw', False))
            out = np.array(ev.data)
        elif kind in ("tensor", "tensor_deph"):
            RR = int_tensor(K, Lm)
            RT = RelaxationTensor()
            RT.dim = n
            RT.data = RR.copy()
            pd = None
            if kind == "tensor_deph":
                from quantarhei.qm.liouvillespace.puredephasing import PureDephasing
                pd = PureDephasing(drates=gam.copy(), dtype=c["deph"])
            prop = qr.ReducedDensityMatrixPropagator(ta, ham, RTensor=RT, PDeph=pd)
            ev = propagate_dm(prop, qr.ReducedDensityMatrix(data=rho0.copy()), L, nref, c.get('nrefkw', False))
            out = np.array(ev.data)
            pk, Rl = "PTensor", cm.clist([q4(RR)])
            if pd is not None:
                d_ = float(dtref)
                Es = []
                for ii in range(1, nsteps + 1):
                    tNt = ta.data[ii - 1]
                    for jj in range(nref):
                        tt = tNt + jj * d_
                        if c["deph"] == "Lorentzian":
                            Es.append(np.exp(-gam * d_) * np.exp(-0.0 * tt))
                        else:
                            Es.append(np.exp(-gam * (d_ ** 2) / 2.0) * np.exp(-(gam * d_) * tt))
                El = cm.clist([q2(E) for E in Es])
        elif kind == "ops":
            from quantarhei.qm import LindbladForm, SystemBathInteraction, Operator
            sbi = SystemBathInteraction(sys_operators=[Operator(data=K[m].copy()) for m in range(K.shape[0])], rates=[2.0] * K.shape[0])
            LF = LindbladForm(ham, sbi, as_operators=True)
            Ld = np.conj(np.transpose(Lm, (0, 2, 1)))
            LF.Km, LF.Lm, LF.Ld = K.copy(), Lm.copy(), Ld.copy()
            prop = qr.ReducedDensityMatrixPropagator(ta, ham, RTensor=LF)
            ev = propagate_dm(prop, qr.ReducedDensityMatrix(data=rho0.copy()), L, nref, c.get('nrefkw', False))
            out = np.array(ev.data)
            pk, Kl, Ll, Ldl = "POps", q3(K), q3(Lm), q3(Ld)
            # C07 in the small: the tensor form gives the same stored states
            LT = LindbladForm(ham, sbi, as_operators=True)
            LT.Km, LT.Lm, LT.Ld = K.copy(), Lm.copy(), Ld.copy()
            LT.convert_2_tensor()
            prop2 = qr.ReducedDensityMatrixPropagator(ta, ham, RTensor=LT)
            out2 = np.array(propagate_dm(prop2, qr.ReducedDensityMatrix(data=rho0.copy()), L, nref, c.get('nrefkw', False)).data)
            if np.max(np.abs(out2 - out)) > 1e-10 * float(np.max(np.abs(out))):
                chk.violation("forms:dynamics_differ", "operator form and tensor form give different propagated states (%g) for case %s"
                              % (np.max(np.abs(out2 - out)), json.dumps(c)), "monitor", c)
        elif kind == "td":
            from quantarhei.qm.liouvillespace.tdredfieldtensor import TDRedfieldRelaxationTensor
            stride = c["stride"]
            # tensor time axis: step = refined step / stride ; enough points for the whole walk
            sysstep = float(dtref) / stride
            ntens = nsteps * nref * stride + 2
            cutidx = None
            if c.get("decimal"):
                # decimal steps: the ratio propagation step / bath step is not exactly representable (0.6/0.2 = 2.9999999999999996);
                # the code must still find the right number of bath steps per propagation step
                sysstep, m_ = c["decimal"]
                nref = c["nref"] = [d_ for d_ in (1, 2, 3, 6) if m_ % d_ == 0 and d_ <= 3][r.randrange(len([d_ for d_ in (1, 2, 3, 6) if m_ % d_ == 0 and d_ <= 3]))]
                stride = m_ // nref
                nsteps = c["nsteps"] = min(nsteps, max(1, 4 // nref))
                ta = qr.TimeAxis(0.0, nsteps + 1, round(m_ * sysstep, 10))
                dtref = cm.frac(sysstep * stride)          # the float the code computes: dt = sysstep*stride
                ntens = nsteps * nref * stride + 2
            elif c.get("cut") and nref == 1 and nsteps >= 2:
                # a tensor with a cut-off time holds values up to the cut-off only; the propagation goes on with the last one
                stride, sysstep = 1, float(dtref)
                cutidx = r.choice([2, nsteps]) if nsteps > 2 else 2
                ntens = cutidx
            tens = []
            for tt in range(ntens):
                Lt = Lm * (tt % 3) + (tt // 3) * np.conj(Lm)
                tens.append(int_tensor(K, Lt))
            tens = np.array(tens)
            RT = TDRedfieldRelaxationTensor.__new__(TDRedfieldRelaxationTensor)
            RT._initialize_basis()
            RT.dim, RT.as_operators, RT._has_cutoff_time, RT.has_Iterm = n, False, False, False
            if cutidx is not None:
                RT._has_cutoff_time, RT.cutoff_time = True, float(ta.data[cutidx])
                if ta.nearest(RT.cutoff_time) != cutidx:
                    raise AssertionError("cut-off index")
            RT.Nt = ntens
            RT.SystemBathInteraction = types.SimpleNamespace(TimeAxis=qr.TimeAxis(0.0, ntens, sysstep))
            RT.data = tens.copy()
            RT._data_initialized = True
            prop = qr.ReducedDensityMatrixPropagator(ta, ham, RTensor=RT)
            ev = propagate_dm(prop, qr.ReducedDensityMatrix(data=rho0.copy()), L, nref, c.get('nrefkw', False))
            out = np.array(ev.data)
            pk, Rl, cutoff = "PTdTensor", q5(tens), ntens
            # the same relaxation held as operator families per time index (as_operators=True): it must walk through the stored values
            # exactly as the tensor form does (stride, refinement, cut-off), i.e. give the states compared with the model below
            RTo = TDRedfieldRelaxationTensor.__new__(TDRedfieldRelaxationTensor)
            RTo._initialize_basis()
            RTo.dim, RTo.as_operators, RTo._has_cutoff_time, RTo.has_Iterm = n, True, RT._has_cutoff_time, False
            if RT._has_cutoff_time:
                RTo.cutoff_time = RT.cutoff_time
            RTo.Nt = ntens
            RTo.SystemBathInteraction = types.SimpleNamespace(TimeAxis=qr.TimeAxis(0.0, ntens, sysstep))
            Lts = np.array([Lm * (tt % 3) + (tt // 3) * np.conj(Lm) for tt in range(ntens)])
            RTo.Km = K.copy()
            RTo.Lm = Lts.copy()
            RTo.Ld = np.conj(np.transpose(Lts, (0, 1, 3, 2))).copy()
            RTo._is_initialized = True
            propo = qr.ReducedDensityMatrixPropagator(ta, qr.Hamiltonian(data=H.copy()), RTensor=RTo)
            evo = propagate_dm(propo, qr.ReducedDensityMatrix(data=rho0.copy()), L, nref, c.get('nrefkw', False))
            outo = np.array(evo.data)
            if np.max(np.abs(outo - out)) > 1e-10 * max(1.0, float(np.max(np.abs(out)))):
                chk.violation("td:forms_differ", "time-dependent relaxation held as operator families and as tensors gives different propagated states (%g): "
                              "propagation step of %d bath steps, Nref=%d, %s (case %s)" % (float(np.max(np.abs(outo - out))), stride * nref, nref,
                              "cut-off at index %s" % cutidx if cutidx is not None else "no cut-off", json.dumps(c)), "monitor", c)
            chk.count("exact:td %s" % ("with cut-off" if cutidx is not None else "no cut-off"))
    # monitors on the implementation's stored states: the property's exact clauses
    tr0 = np.trace(out[0])
    scale = float(np.max(np.abs(out)))
    for i in range(out.shape[0]):
        if abs(np.trace(out[i]) - tr0) > 1e-11 * scale:
            chk.violation("exact:trace:" + kind, "trace of stored state %d is %r, initial %r (case %s)" % (i, np.trace(out[i]), tr0, json.dumps(c)), "monitor", c)
            break
        if np.max(np.abs(out[i] - out[i].conj().T)) > 1e-11 * scale:
            chk.violation("exact:hermiticity:" + kind, "stored state %d is not Hermitian (%g) (case %s)" % (i, np.max(np.abs(out[i] - out[i].conj().T)), json.dumps(c)), "monitor", c)
            break
    tol = 1e-10 * scale
    items["dm"].append("(mkCase02 %s %d%%nat %d%%nat %s %s %s %s %s %s %s %d%%nat %d%%nat %d%%nat %d%%nat %d%%nat %s %s %s)" % (
        pk, n, K.shape[0], q2(H), Rl, Kl, Ll, Ldl, El, cm.qlit(dtref), L, nref, nsteps, stride, cutoff, q2(rho0),
        cm.clist([q2(m_) for m_ in out]), cm.qlit(tol)))
    meta["dm"].append(c)
    chk.count("exact:%s L=%d nref=%d" % (kind, L, nref))
    chk.case(("exact", json.dumps(c, sort_keys=True)), True, sample=c if len(chk.samples) < 3 else None)
    reset_manager()


# ------------------------------------------------------------------ float monitors
def liouvillian(H, Rt):
    n = H.shape[0]
    G = np.zeros((n * n, n * n), dtype=complex)
    I = np.eye(n)
    for a in range(n):
        for b in range(n):
            for c_ in range(n):
                for d in range(n):
                    G[a * n + b, c_ * n + d] = -1j * (H[a, c_] * I[b, d] - I[a, c_] * H[d, b]) + (Rt[a, b, c_, d] if Rt is not None else 0)
    return G


def gksl_tensor(Ks, rates):
    n = Ks[0].shape[0]
    Rt = np.zeros((n, n, n, n), dtype=complex)
    I = np.eye(n)
    for K, g in zip(Ks, rates):
        KK = K.T.dot(K)
        for a in range(n):
            for b in range(n):
                for c_ in range(n):
                    for d in range(n):
                        Rt[a, b, c_, d] += g * (K[a, c_] * K[b, d] - 0.5 * KK[a, c_] * I[b, d] - 0.5 * I[a, c_] * KK[d, b])
    return Rt


def bound(G, dtref, L, nrefsteps, rhonorm):
    import scipy.linalg
    x = float(np.linalg.norm(G, 2)) * dtref
    C = max(float(np.linalg.norm(scipy.linalg.expm(G * dtref * k), 2)) for k in range(0, nrefsteps + 1))
    C = max(C, 1.0)
    local = x ** (L + 1) / math.factorial(L + 1) * math.exp(x)
    # rounding: every refined step applies L+1 matrix products of dimension G.shape[0] in double precision, and the reference
    # (scipy.linalg.expm) has an error of the same kind; for order 6 the truncation term alone is of the size of the rounding errors
    rounding = (1e-12 + 4.5e-16 * nrefsteps * (L + 1) * G.shape[0] * C) * rhonorm
    return 2.0 * nrefsteps * C * local * rhonorm * (1 + local) ** nrefsteps + rounding


def float_monitors(chk, tier):
    import quantarhei as qr
    import scipy.linalg
    from quantarhei.qm import LindbladForm, SystemBathInteraction, Operator
    r = cm.rng(PID + "float")
    ncases = 36 if tier == "quick" else 360
    for k in range(ncases):
        reset_manager()
        rs = np.random.RandomState(r.randrange(2 ** 31))
        n = int(rs.choice([2, 3, 4]))
        L = int(rs.choice([2, 4, 6]))
        nref = int(rs.choice([1, 2, 5]))
        kind = ["lindblad_ops", "lindblad_tensor", "closed", "rwa", "reuse", "deph_exact"][k % 6]
        c = {"kind": "float:" + kind, "n": n, "L": L, "nref": nref, "k": k, "nref_via_keyword": k % 8 < 4}
        try:
            with contextlib.redirect_stdout(io.StringIO()):
                Hm = rs.randn(n, n) * 0.05
                Hm = Hm + Hm.T
                if kind in ("lindblad_ops", "lindblad_tensor", "closed") and (k // 6) % 2 == 1:
                    # a complex Hermitian Hamiltonian (couplings with a phase); these kinds enter no basis context
                    Bm = rs.randn(n, n) * 0.03
                    Hm = Hm + 1j * (Bm - Bm.T)
                    chk.count("float:complex_hamiltonian:" + kind)
                ta = qr.TimeAxis(0.0, 30, 1.0)
                A = rs.randn(n, n) + 1j * rs.randn(n, n)
                rho0 = A.dot(A.conj().T)
                rho0 = rho0 / np.trace(rho0)
                dtref = 1.0 / nref
                if kind.startswith("lindblad"):
                    ham = qr.Hamiltonian(data=Hm.copy())
                    Ks, rates = [], []
                    for m in range(int(rs.randint(1, 4))):
                        Kop = np.zeros((n, n))
                        if rs.rand() < 0.5:
                            Kop[rs.randint(n), rs.randint(n)] = 1.0
                        else:
                            Kop = rs.randn(n, n) * 0.7
                        Ks.append(Kop)
                        rates.append(float(rs.rand() * 0.08))
                    sbi = SystemBathInteraction(sys_operators=[Operator(data=K_.copy()) for K_ in Ks], rates=rates)
                    LF = LindbladForm(ham, sbi, as_operators=(kind == "lindblad_ops"))
                    prop = qr.ReducedDensityMatrixPropagator(ta, ham, RTensor=LF)
                    out = np.array(propagate_dm(prop, qr.ReducedDensityMatrix(data=rho0.copy()), L, nref, k % 8 < 4).data)
                    G = liouvillian(Hm, gksl_tensor(Ks, rates))
                    for i in range(out.shape[0]):
                        b = bound(G, dtref, L, i * nref, float(np.linalg.norm(rho0)))
                        ex = scipy.linalg.expm(G * ta.data[i]).dot(rho0.reshape(-1)).reshape(n, n)
                        err = float(np.linalg.norm(out[i] - ex))
                        if err > b:
                            chk.violation("float:gksl_distance:" + kind, "stored state %d differs from exp(GKSL t) rho0 by %g > truncation bound %g (n=%d L=%d Nref=%d)"
                                          % (i, err, b, n, L, nref), "monitor", c)
                            break
                        ev_min = float(np.min(np.linalg.eigvalsh((out[i] + out[i].conj().T) / 2)))
                        if ev_min < -b:
                            chk.violation("float:positivity:" + kind, "stored state %d has eigenvalue %g below -bound %g" % (i, ev_min, b), "monitor", c)
                            break
                        if abs(np.trace(out[i]) - 1) > 1e-11 or np.max(np.abs(out[i] - out[i].conj().T)) > 1e-11:
                            chk.violation("float:trace_herm:" + kind, "stored state %d: trace %r, Hermiticity deviation %g"
                                          % (i, np.trace(out[i]), np.max(np.abs(out[i] - out[i].conj().T))), "monitor", c)
                            break
                elif kind == "reuse":
                    # one propagator (Lindblad generator + pure dephasing) used repeatedly with different per-call settings: every
                    # call must give what a fresh propagator with the same settings gives (and hence follow the same generator)
                    from quantarhei.qm.liouvillespace.puredephasing import PureDephasing
                    ham = qr.Hamiltonian(data=Hm.copy())
                    Ks = [np.zeros((n, n))]
                    Ks[0][rs.randint(n), rs.randint(n)] = 1.0
                    rates = [float(rs.rand() * 0.05)]
                    g = np.abs(rs.randn(n, n)) * 0.03
                    g = g + g.T
                    np.fill_diagonal(g, 0.0)
                    form_ops = bool(rs.rand() < 0.5)

                    def fresh():
                        sbi = SystemBathInteraction(sys_operators=[Operator(data=K_.copy()) for K_ in Ks], rates=rates)
                        LF = LindbladForm(qr.Hamiltonian(data=Hm.copy()), sbi, as_operators=form_ops)
                        return qr.ReducedDensityMatrixPropagator(ta, qr.Hamiltonian(data=Hm.copy()), RTensor=LF,
                                                                 PDeph=PureDephasing(drates=g.copy(), dtype=str(rs2.choice(["Lorentzian", "Gaussian"]))))
                    rs2 = np.random.RandomState(k)
                    shared = fresh()
                    calls = [dict(Nref=int(rs.choice([1, 1, 2, 5, 10])), method=method_of(int(rs.choice([2, 4, 6])))) for _ in range(4)]
                    for ci, kw in enumerate(calls):
                        rs2 = np.random.RandomState(k)
                        ref = np.array(fresh().propagate(qr.ReducedDensityMatrix(data=rho0.copy()), **kw).data)
                        got = np.array(shared.propagate(qr.ReducedDensityMatrix(data=rho0.copy()), **kw).data)
                        dev = float(np.max(np.abs(got - ref)))
                        if dev > 1e-12:
                            chk.violation("float:reuse:propagator", "call %d %r on a propagator with pure dephasing used before with %r differs from a fresh "
                                          "propagator by %g (n=%d, %s form)" % (ci, kw, calls[:ci], dev, n, "operator" if form_ops else "tensor"), "monitor",
                                          dict(c, calls=calls))
                            break
                elif kind == "deph_exact":
                    # diagonal Hamiltonian, one projector as Lindblad operator, pure dephasing: everything commutes, so the exact solution
                    # is known in closed form and the only error is the truncation of the short-time expansion - for EVERY refinement
                    # (the dephasing accumulated over a step must not depend on Nref), both forms, both dephasing types
                    from quantarhei.qm.liouvillespace.puredephasing import PureDephasing
                    E = rs.randn(n) * 0.05
                    Hd = np.diag(E)
                    p = int(rs.randint(n))
                    Kp = np.zeros((n, n))
                    Kp[p, p] = 1.0
                    rate = float(rs.rand() * 0.05)
                    g = np.abs(rs.randn(n, n)) * 0.03
                    g = g + g.T
                    np.fill_diagonal(g, 0.0)
                    dtype = str(rs.choice(["Lorentzian", "Gaussian"]))
                    form_ops = bool(rs.rand() < 0.5)
                    ham = qr.Hamiltonian(data=Hd.copy())
                    sbi = SystemBathInteraction(sys_operators=[Operator(data=Kp.copy())], rates=[rate])
                    LF = LindbladForm(ham, sbi, as_operators=form_ops)
                    prop = qr.ReducedDensityMatrixPropagator(ta, ham, RTensor=LF, PDeph=PureDephasing(drates=g.copy(), dtype=dtype))
                    out = np.array(propagate_dm(prop, qr.ReducedDensityMatrix(data=rho0.copy()), L, nref, k % 8 < 4).data)
                    G = liouvillian(Hd, gksl_tensor([Kp], [rate]))
                    for i in range(out.shape[0]):
                        t = ta.data[i]
                        ex = np.zeros((n, n), dtype=complex)
                        for a in range(n):
                            for b_ in range(n):
                                lind = 0.0 if a == b_ else 0.5 * rate * ((a == p) + (b_ == p))
                                dec = g[a, b_] * t if dtype == "Lorentzian" else g[a, b_] * t * t / 2.0
                                ex[a, b_] = rho0[a, b_] * np.exp(-1j * (E[a] - E[b_]) * t - lind * t - dec)
                        bb = bound(G, dtref, L, i * nref, float(np.linalg.norm(rho0)))
                        err = float(np.linalg.norm(out[i] - ex))
                        if err > bb:
                            chk.violation("float:dephasing_exact:" + dtype, "diagonal Hamiltonian, projector Lindblad operator and %s pure dephasing (%s form): "
                                          "stored state %d differs from the closed-form solution by %g > truncation bound %g (n=%d L=%d Nref=%d)"
                                          % (dtype, "operator" if form_ops else "tensor", i, err, bb, n, L, nref), "monitor", c)
                            break
                elif kind == "closed":
                    ham = qr.Hamiltonian(data=Hm.copy())
                    prop = qr.ReducedDensityMatrixPropagator(ta, ham)
                    psi0 = rs.randn(n) + 1j * rs.randn(n)
                    psi0 = psi0 / np.linalg.norm(psi0)
                    rp = np.outer(psi0, psi0.conj())
                    out = np.array(propagate_dm(prop, qr.ReducedDensityMatrix(data=rp.copy()), L, nref, k % 8 < 4).data)
                    from quantarhei.qm.propagators.svpropagator import StateVectorPropagator
                    sp = StateVectorPropagator(ta, ham)
                    if nref > 1:
                        sp.setDtRefinement(nref)
                    sv = np.array(sp.propagate(qr.StateVector(data=psi0.copy()), L=L).data)
                    G = liouvillian(Hm, None)
                    x = float(np.linalg.norm(Hm, 2)) * dtref
                    d = {2: x ** 4 / 4, 4: x ** 6 / 72 + x ** 8 / 576, 6: x ** 8 / 2880 + x ** 10 / 21600 + x ** 12 / 518400}[L]
                    for i in range(out.shape[0]):
                        b = bound(G, dtref, L, i * nref, 1.0)
                        # the state vector is propagated with -iH, whose norm (largest |E_i|) can exceed that of the Liouvillian
                        # (largest |E_i - E_j|): its own truncation bound
                        bH = bound(-1j * Hm, dtref, L, i * nref, 1.0)
                        nd = (1 + d) ** (i * nref) - 1 + 1e-12
                        checks = [("norm", abs(np.sum(np.abs(sv[i]) ** 2) - 1.0), nd),
                                  ("purity", abs(np.real(np.trace(out[i].dot(out[i]))) - 1.0), 4 * b),
                                  ("energy", abs(np.real(np.trace(Hm.dot(out[i]))) - np.real(np.trace(Hm.dot(rp)))), 2 * b * float(np.linalg.norm(Hm))),
                                  ("sv_vs_dm", float(np.linalg.norm(out[i] - np.outer(sv[i], sv[i].conj()))), 4 * max(b, bH)),
                                  ("exact_unitary", float(np.linalg.norm(sv[i] - scipy.linalg.expm(-1j * Hm * ta.data[i]).dot(psi0))), bH)]
                        bad = [(nm, v, bb) for (nm, v, bb) in checks if v > bb]
                        if bad:
                            nm, v, bb = bad[0]
                            chk.violation("float:closed:" + nm, "closed system, stored state %d: %s deviates by %g > bound %g (n=%d L=%d Nref=%d)"
                                          % (i, nm, v, bb, n, L, nref), "monitor", c)
                            break
                else:
                    E0 = 2.0
                    Hr = Hm.copy()
                    Hr[0, 1:] = 0
                    Hr[1:, 0] = 0
                    Hr[0, 0] = 0.0
                    for i in range(1, n):
                        Hr[i, i] += E0
                    # every second case: a complex Hermitian Hamiltonian (imaginary couplings inside the excited band)
                    cplx = (k % 12) >= 6 and n >= 3
                    if cplx:
                        Hr = Hr.astype(complex)
                        for i in range(1, n):
                            for j in range(i + 1, n):
                                a = 0.3 * (0.5 + ((i * 7 + j * 3 + k) % 5) / 5.0) * (abs(Hr[i, j]) + 0.05)
                                Hr[i, j] += 1j * a
                                Hr[j, i] -= 1j * a
                        chk.count("rwa:complex_hamiltonian")
                    fine = 20                         # the laboratory frame needs a much finer step for the same accuracy
                    ham = qr.Hamiltonian(data=Hr.copy())
                    ham.set_rwa([0, 1])
                    prop = qr.ReducedDensityMatrixPropagator(ta, ham)
                    if nref > 1:
                        prop.setDtRefinement(nref)
                    ev = prop.propagate(qr.ReducedDensityMatrix(data=rho0.copy()), method=method_of(L))
                    ev.convert_from_RWA(ham)
                    out = np.array(ev.data)
                    ham2 = qr.Hamiltonian(data=Hr.copy())
                    prop2 = qr.ReducedDensityMatrixPropagator(ta, ham2)
                    prop2.setDtRefinement(fine * nref)
                    out2 = np.array(prop2.propagate(qr.ReducedDensityMatrix(data=rho0.copy()), method=method_of(L)).data)
                    # the same Hamiltonian object re-used in another representation: the dynamics must not depend on the basis
                    # in which it is computed (the order-L step commutes with an orthogonal change of basis exactly)
                    prop3 = qr.ReducedDensityMatrixPropagator(ta, ham)
                    if nref > 1:
                        prop3.setDtRefinement(nref)
                    rdm = qr.ReducedDensityMatrix(data=rho0.copy())
                    with (qr.eigenbasis_of(ham) if not cplx else contextlib.nullcontext()):   # (complex unitary bases: C04 / C07)
                        ev3 = prop3.propagate(rdm, method=method_of(L))
                        ev3.convert_from_RWA(ham)
                    out3 = np.array(ev3.data)
                    dev3 = float(np.max(np.abs(out3 - out)))
                    if dev3 > 1e-9:
                        chk.violation("float:rwa_basis_dependent", "RWA dynamics computed inside eigenbasis_of(H) with the Hamiltonian object used before in the site basis "
                                      "differs from the site-basis computation by %g (n=%d L=%d Nref=%d)" % (dev3, n, L, nref), "monitor", c)
                    ham_b = qr.Hamiltonian(data=Hr.copy())
                    ham_b.set_rwa([0, 1])
                    with (qr.eigenbasis_of(ham_b) if not cplx else contextlib.nullcontext()):
                        prop4 = qr.ReducedDensityMatrixPropagator(ta, ham_b)
                        if nref > 1:
                            prop4.setDtRefinement(nref)
                        ev4 = prop4.propagate(qr.ReducedDensityMatrix(data=rho0.copy()), method=method_of(L))
                    prop5 = qr.ReducedDensityMatrixPropagator(ta, ham_b)
                    if nref > 1:
                        prop5.setDtRefinement(nref)
                    ev5 = prop5.propagate(qr.ReducedDensityMatrix(data=rho0.copy()), method=method_of(L))
                    ev5.convert_from_RWA(ham_b)
                    dev5 = float(np.max(np.abs(np.array(ev5.data) - out)))
                    if dev5 > 1e-9:
                        chk.violation("float:rwa_basis_dependent", "RWA dynamics computed in the site basis with a Hamiltonian object used before inside eigenbasis_of(H) "
                                      "differs from a fresh computation by %g (n=%d L=%d Nref=%d)" % (dev5, n, L, nref), "monitor", c)
                    G1 = liouvillian(np.array(ham.get_RWA_data()), None)
                    G2 = liouvillian(Hr, None)
                    for i in range(out.shape[0]):
                        b = bound(G1, dtref, L, i * nref, float(np.linalg.norm(rho0))) + bound(G2, dtref / fine, L, i * nref * fine, float(np.linalg.norm(rho0)))
                        err = float(np.linalg.norm(out[i] - out2[i]))
                        if err > b:
                            chk.violation("float:rwa_vs_lab", "RWA-frame dynamics converted back differs from laboratory-frame dynamics by %g > bound %g at step %d"
                                          % (err, b, i), "monitor", c)
                            break
            chk.count(c["kind"])
            chk.case(("float", k, kind, n, L, nref), True)
        except Exception as e:
            import traceback
            chk.violation("float:exception:" + kind, "float monitor %s raised %r %s" % (json.dumps(c), e, traceback.format_exc()[-500:]), "monitor", c)
    reset_manager()


def theories_monitor(chk, tier):
    """trace and Hermiticity of every stored state for tensors of the package's theories (random aggregates)"""
    import quantarhei as qr
    r = cm.rng(PID + "theories")
    combos = [("stR", False, False), ("stR", True, False), ("stR", False, True), ("stR", True, True), ("stF", False, False),
              ("stF", True, False), ("cRF", False, False)]
    reps = 1 if tier == "quick" else 6
    for rep in range(reps):
        for (th, td, ops) in combos:
            reset_manager()
            c = {"kind": "theory", "theory": th, "td": td, "ops": ops, "seed": r.randrange(2 ** 30), "N": r.choice([2, 3])}
            try:
                with contextlib.redirect_stdout(io.StringIO()):
                    rs = np.random.RandomState(c["seed"])
                    ta = qr.TimeAxis(0.0, 120, 2.0)
                    mols = []
                    with qr.energy_units("1/cm"):
                        for k in range(c["N"]):
                            m = qr.Molecule([0.0, 12000.0 + 100 * rs.randn()])
                            cf = qr.CorrelationFunction(ta, dict(ftype="OverdampedBrownian", reorg=20.0 + 20 * rs.rand(), cortime=60.0, T=300.0, matsubara=10))
                            m.set_transition_environment((0, 1), cf)
                            mols.append(m)
                        agg = qr.Aggregate(mols)
                        for i in range(c["N"]):
                            for j in range(i + 1, c["N"]):
                                agg.set_resonance_coupling(i, j, float(80 * rs.randn()))
                    agg.build()
                    kw = dict(relaxation_theory=th, time_dependent=td)
                    if th == "cRF":
                        with qr.energy_units("1/cm"):
                            RT, ham = agg.get_RelaxationTensor(ta, coupling_cutoff=50.0, **kw)
                    elif ops:
                        RT, ham = agg.get_RelaxationTensor(ta, as_operators=True, **kw)
                    else:
                        RT, ham = agg.get_RelaxationTensor(ta, **kw)
                    prop = qr.ReducedDensityMatrixPropagator(ta, ham, RTensor=RT)
                    n = ham.dim
                    A = rs.randn(n, n) + 1j * rs.randn(n, n)
                    rho0 = A.dot(A.conj().T)
                    rho0 = rho0 / np.trace(rho0)
                    if th == "stR":
                        ham.protect_basis()
                        with qr.eigenbasis_of(ham):
                            out = np.array(prop.propagate(qr.ReducedDensityMatrix(data=rho0.copy())).data)
                        ham.unprotect_basis()
                    else:
                        out = np.array(prop.propagate(qr.ReducedDensityMatrix(data=rho0.copy())).data)
                for i in range(out.shape[0]):
                    sc = float(np.max(np.abs(out[:i + 1])))
                    if sc > 1e6:
                        # a laboratory-frame Hamiltonian with optical energies and a 2 fs step is outside the expansion's
                        # radius of usefulness: the run diverges; rounding then dominates and nothing is judged
                        chk.count("theory:diverged:%s" % th)
                        break
                    if abs(np.trace(out[i]) - 1) > 1e-9 * sc or np.max(np.abs(out[i] - out[i].conj().T)) > 1e-9 * sc:
                        chk.violation("theory:trace_herm:%s%s%s" % (th, " td" if td else "", " ops" if ops else ""),
                                      "%s td=%s operators=%s: stored state %d has trace %r and Hermiticity deviation %g"
                                      % (th, td, ops, i, np.trace(out[i]), np.max(np.abs(out[i] - out[i].conj().T))), "monitor", c)
                        break
                chk.count("theory:%s%s%s" % (th, " td" if td else "", " ops" if ops else ""))
                chk.case(("theory", json.dumps(c, sort_keys=True)), True)
            except Exception as e:
                chk.count("theory:unavailable:%s td=%s ops=%s: %s" % (th, td, ops, repr(e)[:70]))
    reset_manager()


IMPORTS = "From QV Require Import Base.Alg Base.Sums Base.Mat Base.Tens Base.Util Model.C01 Model.C02.\n"


def evaluate(chk, items, meta):
    shards, index = [], []
    for k in range(0, len(items["dm"]), 1):
        shards.append(cm.HEADER + IMPORTS + "Definition cs : list case02 := %s.\nEval vm_compute in (bad agrees02 cs).\nEval vm_compute in (bad invariants02 cs).\n"
                      % cm.clist(items["dm"][k:k + 1]))
        index.append(("dm", k, 1))
    for k in range(0, len(items["sv"]), 2):
        shards.append(cm.HEADER + IMPORTS + "Definition cs : list case02sv := %s.\nEval vm_compute in (bad agrees02sv cs).\n" % cm.clist(items["sv"][k:k + 2]))
        index.append(("sv", k, 2))
    for k in range(0, len(items["rwa"]), 40):
        body = cm.clist(items["rwa"][k:k + 40])
        shards.append(cm.HEADER + IMPORTS + "Definition cs : list case02rwa := %s.\nEval vm_compute in (bad (agrees02rwa SvRepaired) cs).\n"
                      "Eval vm_compute in (bad (agrees02rwa SvPinned) cs).\n" % body)
        index.append(("rwa", k, 40))
    for (t, k, ch), (rc, out) in zip(index, cm.coq_eval(PID, shards, timeout=1500)):
        m = meta[t]
        if rc != 0:
            chk.violation("correspondence:coq_error", "coqc failed on %s case %s: %s" % (t, json.dumps(m[k])[:300], out[-500:]), "correspondence", m[k], found_input=False)
            continue
        vals = cm.parse_evals(out)
        badl = cm.parse_natlist(vals[0])
        chk.corr["cases"] += min(ch, len(m) - k)
        chk.corr["disagreements"] += len(badl)
        for i in badl[:2]:
            extra = ""
            if t == "rwa" and i not in cm.parse_natlist(vals[1]):
                extra = " (it agrees with the pinned scalar-product conversion of state vectors)"
            chk.violation("correspondence:" + t + ":" + m[k + i]["kind"], "implementation differs from Model.C02 on case %s%s" % (json.dumps(m[k + i]), extra),
                          "correspondence", m[k + i], found_input=False)
        if t == "dm":
            inv = cm.parse_natlist(vals[1])
            for i in inv[:1]:
                chk.violation("model:invariants", "the model's exact run does not conserve trace/Hermiticity on case %s (a theorem hypothesis is violated by this input)"
                              % json.dumps(m[k + i]), "correspondence", m[k + i], found_input=False)


def main():
    chk = cm.Check(PID, args.tier)
    chk.rule = ("exact-rational cases: n<=3, orders 2/4/6, Nref 1-3, <=5 refined steps, dyadic steps; closed / tensor / operator form / "
                "time-dependent tensor with index stride / Lorentzian and Gaussian pure dephasing / state vectors / RWA conversion; float monitors: "
                "Lindblad (operator and tensor form) vs expm of an independently built GKSL superoperator, closed systems, RWA vs laboratory frame, "
                "tensors of the package's theories on random aggregates. Non-trivial: every case")
    chk.assumptions = ["numpy.exp values used for dephasing multipliers and RWA phases are oracles handed to the model as exact rationals",
                       "truncation bound used by the validated clauses: 2 N C (x^(L+1)/(L+1)!) e^x |rho0| with x = |G|_2 dt_ref, C = max_k |exp(G k dt_ref)|_2, "
                       "scipy.linalg.expm as the reference; the operator-norm remainder estimate behind it is cited, not mechanised",
                       "norm drift of closed systems is checked against the PROVEN unitarity-defect polynomial (1+d)^steps - 1",
                       "exact comparison tolerance 1e-10 relative to the largest stored entry (the model runs in exact rational arithmetic)"]
    chk.prove()
    import translate
    translate.static_tie(cm, chk, PID, cm.REPO)      # second, static tie: propagator kernels regenerated from the current source
    items = {"dm": [], "sv": [], "rwa": []}
    meta = {"dm": [], "sv": [], "rwa": []}
    if args.replay:
        rep = json.load(open(args.replay))
        c = rep.get("input")
        cases = [c] if isinstance(c, dict) and "kind" in c and "seed" in c and not str(c["kind"]).startswith(("float", "theory")) else []
    else:
        r = cm.rng(PID)
        ne = 27 if args.tier == "quick" else 270
        cases = [gen_exact(r, k) for k in range(ne)]
        # corpus: time-dependent tensor with a cut-off time (the pinned index walk ran off the end of the stored tensors)
        corpus = [{"kind": "td", "n": 2, "L": 4, "nref": 1, "nsteps": 4, "dtden": 16, "seed": 11, "deph": "Lorentzian", "stride": 1, "nb": 1, "cut": True},
                  {"kind": "td", "n": 2, "L": 2, "nref": 1, "nsteps": 3, "dtden": 8, "seed": 12, "deph": "Lorentzian", "stride": 1, "nb": 2, "cut": True},
                  {"kind": "rwa", "n": 2, "L": 2, "nref": 1, "nsteps": 1, "dtden": 16, "seed": 219917864, "deph": "Lorentzian", "stride": 2, "nb": 1}]
        corpus += [{"kind": "td", "n": 2, "L": 2, "nref": 1, "nsteps": 2, "dtden": 16, "seed": 13, "deph": "Lorentzian", "stride": 1, "nb": 1, "cut": False, "decimal": [0.2, 3]},
                   {"kind": "td", "n": 2, "L": 4, "nref": 3, "nsteps": 1, "dtden": 16, "seed": 14, "deph": "Lorentzian", "stride": 1, "nb": 1, "cut": False, "decimal": [0.1, 3], "nrefkw": True},
                   {"kind": "td", "n": 2, "L": 2, "nref": 1, "nsteps": 2, "dtden": 16, "seed": 15, "deph": "Lorentzian", "stride": 1, "nb": 2, "cut": False, "decimal": [0.1, 7]}]
        cases = corpus + cases
    for c in cases:
        try:
            run_exact(chk, c, items, meta)
        except Exception as e:
            import traceback
            chk.violation("harness:exception:" + c["kind"], "case %s raised %r\n%s" % (json.dumps(c), e, traceback.format_exc()[-700:]), "monitor", c)
            chk.case(("exc", json.dumps(c, sort_keys=True)), False)
            reset_manager()
    if not args.replay:
        float_monitors(chk, args.tier)
        theories_monitor(chk, args.tier)
    evaluate(chk, items, meta)
    chk.finish()


main()
