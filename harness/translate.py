# -*- coding: utf-8 -*-
"""Fail-closed translator from (a small fragment of) the Python source of quantarhei kernels to Gallina.

Second, STATIC tie between code and model (DESIGN.md section 12): on every run the current source of a kernel in /repo is
parsed with `ast`, translated to a Gallina definition, written to a generated .v file together with a fixed equivalence
lemma `generated = hand-written model`, and compiled with coqc.  If the source changes so that the lemma no longer
proves - or uses anything outside the supported fragment (every unknown AST node raises Untranslatable) - the proof
obligation is broken and the check reports it; the differential correspondence of the same run is then what looks
for a concrete failing input.

Supported fragment: integer/ring expressions (+ - * // % unary -), comparisons (== != < <= > >=), `and`/`or`/`not`,
names, integer constants, subscripts (translated to function application, with a given set of leading "family"
indices dropped), attribute reads from a whitelist; statements: assignment to a name, augmented assignment (+= -=)
to a name or to the accumulated tensor element, `if/else`; the loop skeletons are matched structurally per kernel.
"""
import ast
import inspect
import textwrap


class Untranslatable(Exception):
    pass


def _src_of(module_path, qualname):
    """source text and ast of a function / method given by qualified name inside a file"""
    import warnings
    src = open(module_path).read()
    with warnings.catch_warnings():
        warnings.simplefilter("ignore")
        tree = ast.parse(src)
    parts = qualname.split(".")
    node = tree
    for p in parts:
        found = None
        for ch in ast.iter_child_nodes(node):
            if isinstance(ch, (ast.FunctionDef, ast.ClassDef)) and ch.name == p:
                found = ch
                break
        if found is None:
            raise Untranslatable("%s not found in %s" % (qualname, module_path))
        node = found
    return node


class Expr:
    """expression translator; `mode` is 'Z' (integers, with / and mod) or 'ring' (StarRing operations)"""

    def __init__(self, mode, names, drop_leading=(), attrs=None, bools=False):
        self.mode = mode
        self.names = dict(names)            # python name -> Coq term
        self.drop = set(drop_leading)       # index names dropped from subscripts (bath component m, time index tt)
        self.attrs = attrs or {}            # "config.size" -> "size"

    def name(self, n):
        if n not in self.names:
            raise Untranslatable("unknown name %r" % n)
        return self.names[n]

    def e(self, node):
        if isinstance(node, ast.Name):
            return self.name(node.id)
        if isinstance(node, ast.Constant) and isinstance(node.value, int) and not isinstance(node.value, bool):
            if self.mode == "Z":
                return "(%d)" % node.value
            if node.value == 0:
                return "(r0 R)"
            if node.value == 1:
                return "(r1 R)"
            raise Untranslatable("ring constant %r" % node.value)
        if isinstance(node, ast.Attribute):
            key = ast.unparse(node)
            if key in self.attrs:
                return self.attrs[key]
            raise Untranslatable("attribute %s" % key)
        if isinstance(node, ast.UnaryOp) and isinstance(node.op, ast.USub):
            return "(%s %s)" % ("-" if self.mode == "Z" else "ropp R", self.e(node.operand))
        if isinstance(node, ast.BinOp):
            a, b = self.e(node.left), self.e(node.right)
            if self.mode == "Z":
                op = {ast.Add: "+", ast.Sub: "-", ast.Mult: "*", ast.FloorDiv: "/", ast.Mod: "mod"}.get(type(node.op))
                if op is None:
                    raise Untranslatable("operator %s" % type(node.op).__name__)
                return "(%s %s %s)" % (a, op, b)
            op = {ast.Add: "radd R", ast.Sub: "rsub R", ast.Mult: "rmul R"}.get(type(node.op))
            if op is None:
                raise Untranslatable("operator %s" % type(node.op).__name__)
            return "(%s %s %s)" % (op, a, b)
        if isinstance(node, ast.Subscript):
            base = node.value
            if not isinstance(base, ast.Name):
                raise Untranslatable("subscript base %s" % ast.dump(base))
            idx = node.slice
            idxs = list(idx.elts) if isinstance(idx, ast.Tuple) else [idx]
            keep = []
            for i in idxs:
                if isinstance(i, ast.Name) and i.id in self.drop:
                    continue
                if not isinstance(i, ast.Name):
                    raise Untranslatable("index %s" % ast.dump(i))
                keep.append(self.name(i.id))
            return "(%s %s)" % (self.name(base.id), " ".join(keep))
        raise Untranslatable("expression %s" % ast.dump(node)[:120])

    def b(self, node):
        """boolean expression -> Coq bool"""
        if isinstance(node, ast.Compare) and len(node.ops) == 1:
            a, c = self.e(node.left), self.e(node.comparators[0])
            op = type(node.ops[0])
            if self.mode == "Z":
                tab = {ast.LtE: "(%s <=? %s)", ast.Lt: "(%s <? %s)", ast.Eq: "(%s =? %s)", ast.NotEq: "(negb (%s =? %s))",
                       ast.GtE: "(%s >=? %s)", ast.Gt: "(%s >? %s)"}
            else:       # index comparisons (nat)
                tab = {ast.Eq: "(Nat.eqb %s %s)", ast.NotEq: "(negb (Nat.eqb %s %s))"}
            if op not in tab:
                raise Untranslatable("comparison %s" % op.__name__)
            return tab[op] % (a, c)
        if isinstance(node, ast.BoolOp):
            parts = [self.b(v) for v in node.values]
            op = " && " if isinstance(node.op, ast.And) else " || "
            return "(" + op.join(parts) + ")"
        if isinstance(node, ast.UnaryOp) and isinstance(node.op, ast.Not):
            return "(negb %s)" % self.b(node.operand)
        raise Untranslatable("condition %s" % ast.dump(node)[:120])


def _assigned(stmts):
    out = []
    for s in stmts:
        if isinstance(s, (ast.Assign,)) and len(s.targets) == 1 and isinstance(s.targets[0], ast.Name):
            t = s.targets[0].id
        elif isinstance(s, ast.AugAssign) and isinstance(s.target, ast.Name):
            t = s.target.id
        elif isinstance(s, ast.If):
            for t2 in _assigned(s.body) + _assigned(s.orelse):
                if t2 not in out:
                    out.append(t2)
            continue
        else:
            continue
        if t not in out:
            out.append(t)
    return out


def _block_Z(ex, stmts, live):
    """straight-line integer code with if/else -> nested lets ending in the tuple of the live variables"""
    if not stmts:
        return "(%s)" % ", ".join(ex.name(v) for v in live) if len(live) > 1 else ex.name(live[0])
    s, rest = stmts[0], stmts[1:]
    if isinstance(s, ast.Assign) and len(s.targets) == 1 and isinstance(s.targets[0], ast.Name):
        v = s.targets[0].id
        rhs = ex.e(s.value)
        ex.names[v] = v
        return "let %s := %s in\n  %s" % (v, rhs, _block_Z(ex, rest, live))
    if isinstance(s, ast.AugAssign) and isinstance(s.target, ast.Name) and isinstance(s.op, (ast.Add, ast.Sub)):
        v = s.target.id
        rhs = "(%s %s %s)" % (ex.name(v), "+" if isinstance(s.op, ast.Add) else "-", ex.e(s.value))
        return "let %s := %s in\n  %s" % (v, rhs, _block_Z(ex, rest, live))
    if isinstance(s, ast.If):
        vs = _assigned(s.body) + [v for v in _assigned(s.orelse) if v not in _assigned(s.body)]
        if not vs:
            raise Untranslatable("if without assignments")
        for v in vs:
            ex.name(v)            # must already be defined (no new names escape an if)
        pat = vs[0] if len(vs) == 1 else "'(%s)" % ", ".join(vs)
        thn = _block_Z(Expr(ex.mode, ex.names, ex.drop, ex.attrs), list(s.body), vs)
        els = _block_Z(Expr(ex.mode, ex.names, ex.drop, ex.attrs), list(s.orelse), vs)
        return "let %s := (if %s then %s else %s) in\n  %s" % (pat, ex.b(s.test), thn, els, _block_Z(ex, rest, live))
    raise Untranslatable("statement %s" % ast.dump(s)[:120])


# ----------------------------------------------------------------------------------------------- C20
def calculate_ranges(repo):
    """quantarhei/core/parallel.py:_calculate_ranges  ->  Gallina function of (size, start, stop, rank)"""
    fn = _src_of(repo + "/quantarhei/core/parallel.py", "_calculate_ranges")
    body = [s for s in fn.body if not (isinstance(s, ast.Expr) and isinstance(s.value, ast.Constant))]   # docstring
    ex = Expr("Z", {"start": "start", "stop": "stop"}, attrs={"config.size": "size"})
    pre, loop, post = [], None, []
    for s in body:
        if isinstance(s, ast.For):
            if loop is not None:
                raise Untranslatable("two loops")
            loop = s
        elif loop is None:
            pre.append(s)
        else:
            post.append(s)
    if loop is None or ast.unparse(loop.iter) != "range(config.size)" or not isinstance(loop.target, ast.Name) or loop.orelse:
        raise Untranslatable("loop header")
    # bookkeeping statements that only build the result list (matched exactly)
    ok_pre = {"ranges = [None] * config.size"}
    ok_post = {"config.ranges = ranges", "return ranges[config.rank]"}
    pre_real = []
    for s in pre:
        if ast.unparse(s) in ok_pre:
            continue
        pre_real.append(s)
    for s in post:
        if ast.unparse(s) not in ok_post:
            raise Untranslatable("statement after the loop: %s" % ast.unparse(s))
    rank = loop.target.id
    ex.names[rank] = "rank"
    core, outs = [], []
    listname = None
    for s in loop.body:
        u = ast.unparse(s)
        if isinstance(s, ast.Assign) and u.endswith("= list()") and isinstance(s.targets[0], ast.Name):
            listname = s.targets[0].id
            continue
        if (isinstance(s, ast.Expr) and isinstance(s.value, ast.Call) and isinstance(s.value.func, ast.Attribute)
                and s.value.func.attr == "append" and isinstance(s.value.func.value, ast.Name) and s.value.func.value.id == listname
                and len(s.value.args) == 1):
            outs.append(s.value.args[0])
            continue
        if u == "ranges[%s] = %s" % (rank, listname):
            continue
        if outs:
            raise Untranslatable("computation after the result was appended")
        core.append(s)
    if len(outs) != 2:
        raise Untranslatable("expected two appended bounds, found %d" % len(outs))
    # translate: preamble lets, loop-body lets, then the pair
    text = []
    stmts = pre_real + core

    def tail(exx):
        return "(%s, %s)" % (exx.e(outs[0]), exx.e(outs[1]))
    # reuse _block_Z with a sentinel: build manually to end with the pair
    def build(exx, ss):
        if not ss:
            return tail(exx)
        s, rest = ss[0], ss[1:]
        one = _block_Z(exx, [s], ["__dummy__"]) if False else None
        if isinstance(s, ast.Assign) and len(s.targets) == 1 and isinstance(s.targets[0], ast.Name):
            v = s.targets[0].id
            rhs = exx.e(s.value)
            exx.names[v] = v
            return "let %s := %s in\n  %s" % (v, rhs, build(exx, rest))
        if isinstance(s, ast.AugAssign) and isinstance(s.target, ast.Name) and isinstance(s.op, (ast.Add, ast.Sub)):
            v = s.target.id
            rhs = "(%s %s %s)" % (exx.name(v), "+" if isinstance(s.op, ast.Add) else "-", exx.e(s.value))
            return "let %s := %s in\n  %s" % (v, rhs, build(exx, rest))
        if isinstance(s, ast.If):
            vs = _assigned(s.body) + [v for v in _assigned(s.orelse) if v not in _assigned(s.body)]
            for v in vs:
                exx.name(v)
            pat = vs[0] if len(vs) == 1 else "'(%s)" % ", ".join(vs)
            thn = _block_Z(Expr(exx.mode, exx.names, exx.drop, exx.attrs), list(s.body), vs)
            els = _block_Z(Expr(exx.mode, exx.names, exx.drop, exx.attrs), list(s.orelse), vs)
            return "let %s := (if %s then %s else %s) in\n  %s" % (pat, exx.b(s.test), thn, els, build(exx, rest))
        raise Untranslatable("statement %s" % ast.unparse(s))
    return ("Definition gen_range_of (size start stop rank : Z) : Z * Z :=\n  %s.\n" % build(ex, stmts))


C20_FILE = """(* GENERATED on every run by harness/translate.py from quantarhei/core/parallel.py:_calculate_ranges *)
From Coq Require Import ZArith List Bool Lia.
From QV Require Import Model.C20.
Open Scope Z_scope.
%s
Lemma gen_range_of_is_model : forall size start stop rank, gen_range_of size start stop rank = range_of FromStart size start stop rank.
Proof.
  intros. unfold gen_range_of, range_of.
  destruct (rank <=? (stop - start) mod size); destruct (rank =? 0); cbn [negb]; reflexivity.
Qed.
"""


# ----------------------------------------------------------------------------------------------- C01
def _loop_nest(stmts, depth, bound):
    """matches `for v in range(bound)` nested `depth` times; returns (loop variables, innermost body)"""
    vs = []
    cur = stmts
    for _ in range(depth):
        loops = [s for s in cur if isinstance(s, ast.For)]
        if len(loops) != 1 or len([s for s in cur if not isinstance(s, ast.For)]) != 0:
            raise Untranslatable("loop nest")
        lp = loops[0]
        if ast.unparse(lp.iter) != "range(%s)" % bound or not isinstance(lp.target, ast.Name) or lp.orelse:
            raise Untranslatable("loop header %s" % ast.unparse(lp.iter))
        vs.append(lp.target.id)
        cur = lp.body
    return vs, cur


def _accumulate(ex, body, target_name, lead):
    """body of the loop nest: RR[<lead>,a,b,c,d] (+=|-=) e, possibly under `if i == j:`  ->  ring expression of the element"""
    acc = "(r0 R)"

    def is_target(t):
        if not (isinstance(t, ast.Subscript) and isinstance(t.value, ast.Name) and t.value.id == target_name):
            return False
        idxs = list(t.slice.elts) if isinstance(t.slice, ast.Tuple) else [t.slice]
        names = [i.id for i in idxs if isinstance(i, ast.Name)]
        return names == lead + ["a", "b", "c", "d"] or names == lead + ex.loopvars

    def one(s, cond):
        nonlocal acc
        if isinstance(s, ast.AugAssign) and is_target(s.target) and isinstance(s.op, (ast.Add, ast.Sub)):
            term = ex.e(s.value)
            if cond is not None:
                term = "(if %s then %s else (r0 R))" % (cond, term)
            acc = "(%s %s %s)" % ("radd R" if isinstance(s.op, ast.Add) else "rsub R", acc, term)
            return
        if isinstance(s, ast.If) and not s.orelse and cond is None:
            c = ex.b(s.test)
            for t in s.body:
                one(t, c)
            return
        raise Untranslatable("tensor statement %s" % ast.unparse(s)[:100])
    for s in body:
        one(s, None)
    return acc


def _dots(ex, stmts, fam):
    """`X = numpy.dot(A, B)` with A, B names or family slices  ->  (name, 'mmul n A B')"""
    out = []
    for s in stmts:
        if not (isinstance(s, ast.Assign) and len(s.targets) == 1 and isinstance(s.targets[0], ast.Name)
                and isinstance(s.value, ast.Call) and ast.unparse(s.value.func) == "numpy.dot" and len(s.value.args) == 2):
            raise Untranslatable("preamble statement %s" % ast.unparse(s)[:100])

        def mat(a):
            if isinstance(a, ast.Name):
                return ex.name(a.id)
            if isinstance(a, ast.Subscript) and isinstance(a.value, ast.Name):
                idxs = list(a.slice.elts) if isinstance(a.slice, ast.Tuple) else [a.slice]
                # leading family indices, then two full slices
                lead = idxs[:-2]
                if all(isinstance(i, ast.Name) and i.id in fam for i in lead) and all(ast.unparse(i) == ":" for i in idxs[-2:]):
                    return ex.name(a.value.id)
            raise Untranslatable("matrix argument %s" % ast.unparse(a))
        nm = s.targets[0].id
        term = "(mmul n %s %s)" % (mat(s.value.args[0]), mat(s.value.args[1]))
        out.append((nm, term))
    return out


def loopit(repo):
    """quantarhei/qm/liouvillespace/redfieldtensor.py:_loopit -> element function of (K Kd L Ld) a b c d"""
    fn = _src_of(repo + "/quantarhei/qm/liouvillespace/redfieldtensor.py", "_loopit")
    args = [a.arg for a in fn.args.args]
    if args != ["Km", "Kd", "Lm", "Ld", "Na", "RR", "m"]:
        raise Untranslatable("signature %r" % args)
    body = [s for s in fn.body if not (isinstance(s, ast.Expr) and isinstance(s.value, ast.Constant))]
    pre = [s for s in body if not isinstance(s, ast.For)]
    loops = [s for s in body if isinstance(s, ast.For)]
    ex = Expr("ring", {"Km": "K", "Kd": "Kd", "Lm": "L", "Ld": "Ld"}, drop_leading=("m",))
    lets = _dots(ex, pre, fam=("m",))
    vs, inner = _loop_nest(loops, 4, "Na")
    ex.loopvars = vs
    for v, nm in zip(vs, ["a", "b", "c", "d"]):
        ex.names[v] = nm
    for nm, _ in lets:
        ex.names[nm] = nm
    acc = _accumulate(ex, inner, "RR", [])
    lt = "".join("    let %s := %s in\n" % (nm, term) for nm, term in lets)
    return ("  Definition gen_loopit (n : nat) (K Kd L Ld : @mat R) : @tens R :=\n%s    fun a b c d => %s.\n" % (lt, acc))


def td_convert(repo):
    """tdredfieldtensor.py:TDRedfieldRelaxationTensor._convert_operators_2_tensor, body of `for m: for tt:` -> element function"""
    fn = _src_of(repo + "/quantarhei/qm/liouvillespace/tdredfieldtensor.py", "TDRedfieldRelaxationTensor._convert_operators_2_tensor")
    loops = [s for s in fn.body if isinstance(s, ast.For)]
    if len(loops) != 1 or ast.unparse(loops[0].iter) != "range(Nb)" or loops[0].target.id != "m":
        raise Untranslatable("outer loop over bath components")
    inner_t = [s for s in loops[0].body if isinstance(s, ast.For)]
    if len(inner_t) != 1 or ast.unparse(inner_t[0].iter) != "range(Nt)" or inner_t[0].target.id != "tt":
        raise Untranslatable("loop over time")
    body = inner_t[0].body
    pre = [s for s in body if not isinstance(s, ast.For)]
    nest = [s for s in body if isinstance(s, ast.For)]
    ex = Expr("ring", {"Km": "K", "Lm": "L", "Ld": "Ld"}, drop_leading=("m", "tt"))
    lets = _dots(ex, pre, fam=("m", "tt"))
    vs, inner = _loop_nest(nest, 4, "Na")
    ex.loopvars = vs
    for v, nm in zip(vs, ["a", "b", "c", "d"]):
        ex.names[v] = nm
    for nm, _ in lets:
        ex.names[nm] = nm
    acc = _accumulate(ex, inner, "RR", ["tt"])
    lt = "".join("    let %s := %s in\n" % (nm, term) for nm, term in lets)
    return ("  Definition gen_td_loopit (n : nat) (K L Ld : @mat R) : @tens R :=\n%s    fun a b c d => %s.\n" % (lt, acc))


def secular_condition(repo):
    """relaxationtensor.py:RelaxationTensor.secularize (legacy, 4-index loop): the condition under which an element is zeroed"""
    fn = _src_of(repo + "/quantarhei/qm/liouvillespace/relaxationtensor.py", "RelaxationTensor.secularize")
    conds = []
    for node in ast.walk(fn):
        if isinstance(node, ast.If) and len(node.body) == 1 and isinstance(node.body[0], ast.Assign):
            t = node.body[0].targets[0]
            if isinstance(t, ast.Subscript) and ast.unparse(t.value) == "self.data" and ast.unparse(node.body[0].value) == "0":
                idxs = list(t.slice.elts) if isinstance(t.slice, ast.Tuple) else [t.slice]
                names = [ast.unparse(i) for i in idxs if ast.unparse(i) != ":"]
                ex = Expr("ring", {names[0]: "a", names[1]: "b", names[2]: "c", names[3]: "d"})
                conds.append(ex.b(node.test))
    if len(conds) != 2:
        raise Untranslatable("expected the 4-index and the 5-index zeroing loops, found %d" % len(conds))
    if conds[0] != conds[1]:
        raise Untranslatable("the two branches zero different elements")
    return "  Definition gen_zeroed (a b c d : nat) : bool := %s.\n" % conds[0]


C01_FILE = """(* GENERATED on every run by harness/translate.py from redfieldtensor.py:_loopit,
   tdredfieldtensor.py:_convert_operators_2_tensor and relaxationtensor.py:secularize *)
From Coq Require Import ZArith List Bool Arith.
From QV Require Import Base.Alg Base.Sums Base.Mat Base.Tens Model.C01.
Section Gen.
  Context {R : StarRing}.
  Add Ring Rr : (rth R).
%s
%s
%s
  Lemma gen_loopit_is_model n (K Kd L Ld : @mat R) a b c d : gen_loopit n K Kd L Ld a b c d = loopit_m n K Kd L Ld a b c d.
  Proof. unfold gen_loopit, loopit_m. cbv zeta. destruct (Nat.eqb b d), (Nat.eqb a c); ring. Qed.
  Lemma gen_td_loopit_is_model n (K L Ld : @mat R) a b c d : gen_td_loopit n K L Ld a b c d = td_loopit_m n K L Ld a b c d.
  Proof. unfold gen_td_loopit, td_loopit_m. cbv zeta. destruct (Nat.eqb b d), (Nat.eqb a c); ring. Qed.
  Lemma gen_zeroed_is_model a b c d : gen_zeroed a b c d = negb (secular_keep a b c d).
  Proof. unfold gen_zeroed, secular_keep. destruct (Nat.eqb a b), (Nat.eqb c d), (Nat.eqb a c), (Nat.eqb b d); reflexivity. Qed.
End Gen.
"""


# ----------------------------------------------------------------------------------------------- C02 / C07
class MatExpr:
    """numpy matrix expressions of the propagator kernels -> Mat.v terms.
    numpy.dot(A,B) -> mmul n A B ; numpy.tensordot(R,rho) -> tapply n R rho ; X[mm,:,:] -> (X mm) ; + - between matrices -> madd msub;
    scalar * matrix -> mscale; the scalars are whitelisted by their source text."""

    def __init__(self, mats, fams, scalars):
        self.mats, self.fams, self.scalars = dict(mats), dict(fams), dict(scalars)

    def scalar(self, node):
        key = ast.unparse(node)
        if key in self.scalars:
            return self.scalars[key]
        raise Untranslatable("scalar %s" % key)

    def m(self, node):
        if isinstance(node, ast.Name):
            if node.id in self.mats:
                return self.mats[node.id]
            raise Untranslatable("matrix name %s" % node.id)
        if isinstance(node, ast.Subscript) and isinstance(node.value, ast.Name) and node.value.id in self.fams:
            idxs = list(node.slice.elts) if isinstance(node.slice, ast.Tuple) else [node.slice]
            if len(idxs) == 3 and isinstance(idxs[0], ast.Name) and all(ast.unparse(i) == ":" for i in idxs[1:]):
                return "(%s %s)" % (self.fams[node.value.id], idxs[0].id)
            raise Untranslatable("family subscript %s" % ast.unparse(node))
        if isinstance(node, ast.Call):
            f = ast.unparse(node.func)
            if f == "numpy.dot" and len(node.args) == 2:
                return "(mmul n %s %s)" % (self.m(node.args[0]), self.m(node.args[1]))
            if f == "numpy.tensordot" and len(node.args) == 2 and isinstance(node.args[0], ast.Name):
                return "(tapply n %s %s)" % (self.mats[node.args[0].id], self.m(node.args[1]))
            raise Untranslatable("call %s" % f)
        if isinstance(node, ast.BinOp):
            if isinstance(node.op, ast.Add):
                return "(madd %s %s)" % (self.m(node.left), self.m(node.right))
            if isinstance(node.op, ast.Sub):
                return "(msub %s %s)" % (self.m(node.left), self.m(node.right))
            if isinstance(node.op, ast.Mult):
                return "(mscale %s %s)" % (self.scalar(node.left), self.m(node.right))
        raise Untranslatable("matrix expression %s" % ast.unparse(node)[:100])


def propagator_kernels(repo):
    path = repo + "/quantarhei/qm/propagators/rdmpropagator.py"
    out = []
    # ---- _COM(HH, ll, dt, rho1, has_NonHerm=False): H2 = HH when has_NonHerm is False; ret = (1j*dt/ll)*(dot(HH,rho1) - dot(rho1,H2))
    fn = _src_of(path, "_COM")
    body = [s for s in fn.body if not (isinstance(s, ast.Expr) and isinstance(s.value, ast.Constant))]
    if [a.arg for a in fn.args.args] != ["HH", "ll", "dt", "rho1", "has_NonHerm"]:
        raise Untranslatable("_COM signature")
    if not (len(body) == 3 and isinstance(body[0], ast.If) and ast.unparse(body[0].test) == "has_NonHerm"
            and ast.unparse(body[0].orelse[0]) == "H2 = HH" and len(body[0].orelse) == 1
            and isinstance(body[1], ast.Assign) and ast.unparse(body[1].targets[0]) == "ret" and ast.unparse(body[2]) == "return ret"):
        raise Untranslatable("_COM body shape")
    me = MatExpr({"HH": "HH", "H2": "HH", "rho1": "rho1"}, {}, {"1j * dt / ll": "(rmul R im c)"})
    out.append("  Definition gen_COM (n : nat) (im c : R) (HH rho1 : @mat R) : @mat R := %s.\n" % me.m(body[1].value))
    # ---- _TTI(rhoY, RR, IR, ll, dt, rho1, L=4):  rhoY += (dt/ll)*tensordot(RR,rho1) + dt*IR/numpy.real(L)
    fn = _src_of(path, "_TTI")
    body = [s for s in fn.body if not (isinstance(s, ast.Expr) and isinstance(s.value, ast.Constant))]
    if not (len(body) == 1 and isinstance(body[0], ast.AugAssign) and isinstance(body[0].op, ast.Add) and ast.unparse(body[0].target) == "rhoY"
            and isinstance(body[0].value, ast.BinOp) and isinstance(body[0].value.op, ast.Add)
            and ast.unparse(body[0].value.right) == "dt * IR / numpy.real(L)"):
        raise Untranslatable("_TTI body shape")
    me = MatExpr({"RR": "RR", "rho1": "rho1"}, {}, {"dt / ll": "c"})
    out.append("  (* increment of rhoY without the inhomogeneous term dt*IR/L (IR = 0.0 unless the tensor has an initial term) *)\n"
               "  Definition gen_TTI (n : nat) (c : R) (RR : @tens R) (rho1 : @mat R) : @mat R := %s.\n" % me.m(body[0].value.left))
    # ---- _OTI(rhoY, Km, Kd, Lm, Ld, ll, dt, rho1): for mm in range(Nm): rhoY += (dt/ll)*( ... )
    fn = _src_of(path, "_OTI")
    body = [s for s in fn.body if not (isinstance(s, ast.Expr) and isinstance(s.value, ast.Constant))]
    if not (len(body) == 2 and ast.unparse(body[0]) == "Nm = Km.shape[0]" and isinstance(body[1], ast.For)
            and ast.unparse(body[1].iter) == "range(Nm)" and body[1].target.id == "mm" and len(body[1].body) == 1
            and isinstance(body[1].body[0], ast.AugAssign) and isinstance(body[1].body[0].op, ast.Add)
            and ast.unparse(body[1].body[0].target) == "rhoY"):
        raise Untranslatable("_OTI body shape")
    me = MatExpr({"rho1": "rho1"}, {"Km": "Km", "Kd": "Kd", "Lm": "Lm", "Ld": "Ld"}, {"dt / ll": "c"})
    out.append("  Definition gen_OTI_m (n : nat) (c : R) (Km Kd Lm Ld : nat -> @mat R) (rho1 : @mat R) (mm : nat) : @mat R := %s.\n"
               % me.m(body[1].body[0].value))
    return "".join(out)


C02_FILE = """(* GENERATED on every run by harness/translate.py from rdmpropagator.py:_COM, _TTI, _OTI *)
From Coq Require Import ZArith List Bool Arith.
From QV Require Import Base.Alg Base.Sums Base.Mat Base.Tens Model.C01 Model.C02.
Section Gen.
  Context {R : StarRing}.
  Add Ring Rr : (rth R).
%s
  (* the propagation loops use  rhoY = -_COM(...)  and then add the relaxation part *)
  Lemma gen_COM_is_model n (im c : R) (H rho : @mat R) a b :
    ropp R (gen_COM n im c H rho a b) = mscale c (G_ham im n H rho) a b.
  Proof. unfold gen_COM, G_ham, comm, mscale, msub. ring. Qed.
  Lemma gen_TTI_is_model n (c : R) (Rt : @tens R) (rho : @mat R) a b : gen_TTI n c Rt rho a b = mscale c (tapply n Rt rho) a b.
  Proof. reflexivity. Qed.
  (* with Kd[m] = transpose(Km[m]) as the callers build it, the sum of the increments is c times the operator form *)
  Lemma gen_OTI_is_model n Nb (c : R) (Km Lm Ld : nat -> @mat R) (rho : @mat R) a b :
    sum Nb (fun mm => gen_OTI_m n c Km (fun m => mT (Km m)) Lm Ld rho mm a b) = rmul R c (apply_ops n Nb Km Lm Ld rho a b).
  Proof.
    unfold apply_ops. rewrite <- sum_mul_l. apply sum_ext. intros mm _. unfold gen_OTI_m, mscale, madd, msub. ring.
  Qed.
End Gen.
"""


# ----------------------------------------------------------------------------------------------- C04 (tensor basis change)
def _pass_of(nest, lead):
    """for x in range(dim): for y in range(dim): self._data[<lead>, pattern] = <matrix expression>   ->  ('p1'|'p2', Gallina body)"""
    if not (isinstance(nest, ast.For) and ast.unparse(nest.iter) == "range(dim)" and len(nest.body) == 1 and isinstance(nest.body[0], ast.For)
            and ast.unparse(nest.body[0].iter) == "range(dim)" and len(nest.body[0].body) == 1 and isinstance(nest.body[0].body[0], ast.Assign)):
        raise Untranslatable("transformation loop nest")
    v1, v2 = nest.target.id, nest.body[0].target.id
    asg = nest.body[0].body[0]
    tgt = asg.targets[0]
    if not (isinstance(tgt, ast.Subscript) and ast.unparse(tgt.value) == "self._data"):
        raise Untranslatable("target %s" % ast.unparse(tgt))
    idxs = list(tgt.slice.elts) if isinstance(tgt.slice, ast.Tuple) else [tgt.slice]
    names = [ast.unparse(i) for i in idxs]
    if names[:len(lead)] != lead:
        raise Untranslatable("leading indices %r" % names)
    pat = names[len(lead):]
    if sorted(pat) != sorted([":", ":", v1, v2]) or len(pat) != 4:
        raise Untranslatable("index pattern %r" % pat)
    if pat == [":", ":", v1, v2]:
        kind, canon, slice_fun, rowcol = "p1", {v1: "c", v2: "d"}, "(fun i j => T i j c d)", "a b"
    elif pat == [v1, v2, ":", ":"]:
        kind, canon, slice_fun, rowcol = "p2", {v1: "a", v2: "b"}, "(fun k l => T a b k l)", "c d"
    else:
        raise Untranslatable("index pattern %r" % pat)
    tgt_text = ast.unparse(tgt)

    def m(node):
        if isinstance(node, ast.Name) and node.id in ("SS", "S1"):
            return "S" if node.id == "SS" else "S1"
        if isinstance(node, ast.Attribute) and node.attr == "T" and isinstance(node.value, ast.Name) and node.value.id in ("SS", "S1"):
            return "(mT %s)" % ("S" if node.value.id == "SS" else "S1")
        if isinstance(node, ast.Subscript) and ast.unparse(node) == tgt_text:
            return slice_fun
        if isinstance(node, ast.Call) and ast.unparse(node.func) == "numpy.dot" and len(node.args) == 2:
            return "(mmul n %s %s)" % (m(node.args[0]), m(node.args[1]))
        raise Untranslatable("transformation expression %s" % ast.unparse(node)[:80])
    return kind, "fun a b c d => %s %s" % (m(asg.value), rowcol)


def tensor_transforms(repo):
    specs = [("superoperator", "/quantarhei/qm/liouvillespace/superoperator.py", "SuperOperator.transform"),
             ("relaxationtensor", "/quantarhei/qm/liouvillespace/relaxationtensor.py", "RelaxationTensor.transform"),
             ("tdredfield", "/quantarhei/qm/liouvillespace/tdredfieldtensor.py", "TDRedfieldRelaxationTensor.transform")]
    defs, lems, what = [], [], []
    for tag, path, qual in specs:
        fn = _src_of(repo + path, qual)
        nests = []

        def walk(stmts, lead):
            for s in stmts:
                if isinstance(s, ast.For) and ast.unparse(s.iter) == "range(dim)":
                    nests.append((s, list(lead)))
                elif isinstance(s, ast.For) and isinstance(s.target, ast.Name) and s.target.id == "tt":
                    walk(s.body, lead + ["tt"])
                elif isinstance(s, ast.If):
                    walk(s.body, lead)
                    walk(s.orelse, lead)
        walk(fn.body, [])
        if len(nests) not in (2, 4):
            raise Untranslatable("%s: expected one or two (pass 1, pass 2) pairs of loop nests, found %d" % (qual, len(nests)))
        kinds = []
        for k, (nest, lead) in enumerate(nests):
            kind, body = _pass_of(nest, lead)
            kinds.append(kind)
            nm = "gen_%s_%s_%d" % (tag, kind, k)
            defs.append("  Definition %s (n : nat) (S1 S : @mat R) (T : @tens R) : @tens R := %s.\n" % (nm, body))
            if kind == "p1":
                lems.append("  Lemma %s_is_model n S1 S T a b c d : %s n S1 S T a b c d = tpass1 n S1 S T a b c d.\n  Proof. symmetry. apply tpass1_as_sim. Qed.\n" % (nm, nm))
            else:
                lems.append("  Lemma %s_is_model n S1 S T a b c d : %s n S1 S T a b c d = tpass2 n S1 S T a b c d.\n  Proof. symmetry. apply tpass2_as_matrix. Qed.\n" % (nm, nm))
        if kinds not in (["p1", "p2"], ["p1", "p2", "p1", "p2"]):
            raise Untranslatable("%s: passes in the order %r (the model is pass 2 after pass 1)" % (qual, kinds))
        what.append(qual)
    return "".join(defs) + "\n" + "".join(lems), what


def operator_transforms(repo):
    """transform() of the two-index classes: every assignment to a private data attribute must be  S1 . X . SS  of the same X
    (state vectors:  S1 . v).  Returns Gallina definitions with (definitional) equivalence lemmas."""
    specs = [("operator", "/quantarhei/qm/hilbertspace/operators.py", "Operator.transform"),
             ("hamiltonian", "/quantarhei/qm/hilbertspace/hamiltonian.py", "Hamiltonian.transform"),
             ("dipole_moment", "/quantarhei/qm/hilbertspace/dmoment.py", "TransitionDipoleMoment.transform"),
             ("dm_evolution", "/quantarhei/qm/propagators/dmevolution.py", "DensityMatrixEvolution.transform"),
             ("sv_evolution", "/quantarhei/qm/propagators/statevectorevolution.py", "StateVectorEvolution.transform"),
             ("redfield_operators", "/quantarhei/qm/liouvillespace/redfieldtensor.py", "RedfieldRelaxationTensor.transform"),
             ("tdredfield_operators", "/quantarhei/qm/liouvillespace/tdredfieldtensor.py", "TDRedfieldRelaxationTensor.transform")]
    defs, what = [], []
    for tag, path, qual in specs:
        fn = _src_of(repo + path, qual)
        found = 0
        for node in ast.walk(fn):
            if not isinstance(node, ast.Assign) or len(node.targets) != 1:
                continue
            tgt = ast.unparse(node.targets[0])
            if not (tgt.startswith("self._") or tgt == "self.JR"):
                continue
            if tgt.startswith("self._data[") and tag in ("redfield_operators", "tdredfield_operators"):
                continue                                   # four-index passes: translated by tensor_transforms
            val = node.value
            ok_mat = (isinstance(val, ast.Call) and ast.unparse(val.func) == "numpy.dot" and len(val.args) == 2
                      and ast.unparse(val.args[0]) == "S1" and isinstance(val.args[1], ast.Call)
                      and ast.unparse(val.args[1].func) == "numpy.dot" and len(val.args[1].args) == 2
                      and ast.unparse(val.args[1].args[0]) == tgt and ast.unparse(val.args[1].args[1]) == "SS")
            ok_vec = (tag == "sv_evolution" and isinstance(val, ast.Call) and ast.unparse(val.func) == "numpy.dot" and len(val.args) == 2
                      and ast.unparse(val.args[0]) == "S1" and ast.unparse(val.args[1]) == tgt)
            if not (ok_mat or ok_vec):
                raise Untranslatable("%s: assignment %s = %s is not S1 . X . SS of the same X" % (qual, tgt, ast.unparse(val)[:80]))
            nm = "gen_%s_%d" % (tag, found)
            if ok_mat:
                defs.append("  Definition %s (n : nat) (S1 S X : @mat R) : @mat R := mmul n S1 (mmul n X S).   (* %s *)\n"
                            "  Lemma %s_is_model n S1 S X : %s n S1 S X = sim n S1 S X.  Proof. reflexivity. Qed.\n" % (nm, tgt, nm, nm))
            else:
                defs.append("  Definition %s (n : nat) (S1 : @mat R) (v : @vec R) : @vec R := mv n S1 v.   (* %s *)\n"
                            "  Lemma %s_is_model n S1 v : %s n S1 v = mv n S1 v.  Proof. reflexivity. Qed.\n" % (nm, tgt, nm, nm))
            found += 1
        if found == 0:
            raise Untranslatable("%s: no transformation of a data attribute found" % qual)
        what.append("%s (%d assignments)" % (qual, found))
    return "".join(defs), what


C04_FILE = """(* GENERATED on every run by harness/translate.py from the transform() methods of SuperOperator, RelaxationTensor and
   TDRedfieldRelaxationTensor: every loop nest of the two-pass basis change, for the 4-index and the time-dependent data *)
From Coq Require Import ZArith List Bool Arith.
From QV Require Import Base.Alg Base.Sums Base.Mat Base.Tens Model.C01 Proofs.Tensor Proofs.C01.
Section Gen.
  Context {R : StarRing}.
%s
End Gen.
"""


def static_tie(cm, chk, pid, repo):
    """generates the file for property `pid`, compiles it, records the verdict in the evidence and as a violation if broken"""
    import os
    import subprocess
    outdir = os.path.join(cm.WORK, pid, "gen")
    os.makedirs(outdir, exist_ok=True)
    info = {"translated": [], "status": "ok"}
    try:
        if pid == "C20":
            text = C20_FILE % calculate_ranges(repo)
            info["translated"] = ["quantarhei/core/parallel.py:_calculate_ranges"]
        elif pid == "C01":
            text = C01_FILE % (loopit(repo), td_convert(repo), secular_condition(repo))
            info["translated"] = ["redfieldtensor.py:_loopit", "tdredfieldtensor.py:TDRedfieldRelaxationTensor._convert_operators_2_tensor",
                                  "relaxationtensor.py:RelaxationTensor.secularize (zeroing condition)"]
            import translate_c01
            t2, w2 = translate_c01.extra(repo)
            text += t2
            info["translated"] += w2
        elif pid == "C04":
            body, what = tensor_transforms(repo)
            body2, what2 = operator_transforms(repo)
            text = C04_FILE % (body + "\n" + body2)
            info["translated"] = [w + " (loop nests of the two passes)" for w in what] + what2
        elif pid in ("C02", "C07"):
            text = C02_FILE % propagator_kernels(repo)
            info["translated"] = ["rdmpropagator.py:_COM", "rdmpropagator.py:_TTI", "rdmpropagator.py:_OTI"]
            import translate2
            t2, w2 = translate2.rdm_taylor(repo)
            text += ("\nFrom Coq Require Import Lia.\nFrom QV Require Import Base.Taylor Base.TaylorG Proofs.TaylorGen.\n"
                     "Import ListNotations.\nOpen Scope Z_scope.\n" + t2)
            info["translated"] += [w + " (loop nest, order-loop body)" for w in w2]
            import translate_c02                      # glue around the kernels (harness/translate_c02.py)
            t3, w3 = translate_c02.extra(repo)
            text += t3
            info["translated"] += w3
            if pid == "C07":
                import translate_c07                  # apply / convert_2_tensor / the two _implementation methods (harness/translate_c07.py)
                t4, w4 = translate_c07.extra(repo)
                text += t4
                info["translated"] += w4
        else:
            import translate2
            import importlib
            fn = translate2.STATIC.get(pid)
            if fn is None:
                try:        # per-property translators: harness/translate_cXX.py exporting static(repo) -> (coq text, [what])
                    fn = importlib.import_module("translate_" + pid.lower()).static
                except ImportError:
                    return None
            text, info["translated"] = fn(repo)
    except Untranslatable as e:
        info["status"] = "untranslatable: %s" % e
        chk.violation("static_tie:untranslatable", "the source of a translated kernel left the supported fragment (%s): the generated model can no "
                      "longer be produced, so the equivalence with the hand-written model is not shown" % e, "proof",
                      {"theorem": "Gen%s equivalence lemmas" % pid, "reason": str(e)}, found_input=False)
        chk.extra["static_tie"] = info
        return info
    path = os.path.join(outdir, "Gen%s.v" % pid)
    open(path, "w").write(text)
    rc, out, _ = cm._run(["timeout", "300", "coqc", "-Q", os.path.join(cm.COQDIR, "theories"), "QV", path], cwd=outdir, timeout=320, env=cm.coq_env())
    info["generated_file_sha1"] = __import__("hashlib").sha1(text.encode()).hexdigest()
    if rc != 0:
        info["status"] = "equivalence lemma fails"
        chk.violation("static_tie:equivalence", "the model generated from the current source is no longer provably equal to the hand-written model: %s"
                      % out[-700:], "proof", {"theorem": "Gen%s equivalence lemmas" % pid, "coq_output": out[-1500:], "generated": text[:3000]},
                      found_input=False)
    chk.extra["static_tie"] = info
    return info
