# -*- coding: utf-8 -*-
"""Static tie for C19: the storage code of quantarhei/spectroscopy/twod2.py, transcribed on every run.

The functions that make up the two-dimensional response storage (the module tables, `_resolution2number`, the eight
`_x_to_y` reduction helpers, getter and setter of `twodspectrum_dictionary`, `set_data_flag`, `set_resolution`,
`_convert_resolution`, `_convert_res_elementary`, `_add_data`, and the storage fields set by `__init__`) are written in
a small Python fragment: dictionaries, try/except, early return, loops over tables.  `coq/theories/Model/C19py.v` gives
that fragment an executable semantics as combinators (`s_if`, `s_for`, `s_try`, `e_call`, `p_getitem` ...).  This module
transcribes the CURRENT `ast` of those functions, node by node and fail-closed, into terms over the combinators
(`gen_*`).  `coq/theories/Model/C19code.v` holds the transcription `code_*` for which `coq/theories/Proofs/C19gen.v`
proves, once and for every model state, that running it on the Python object representing a model state does what
Model/C19.v's `read`, `write`, `add_data`, `conv`, `set_resolution` say.  The generated file proves `gen_* = code_*`
(conversion: table contents are computed, local names are alpha-normalised, `a == b` / `b == a`, `x += y` /
`x = x + y`, `a > b` / `b < a` are normalised here) and instantiates the refinement theorems with `gen_*`.

Arrays have value semantics in C19py.v.  That is sound only if no array that may be shared with the store is updated
in place; `_alias_check` enforces it statically (an in-place `x += e` needs x to hold a fresh array), with ONE listed
exception, the accumulation idiom of `_types_to_processes/_types_to_signals` (see ALIAS_IDIOM).

`python translate_c19.py --emit-code <repo>` prints the `code_*` definitions (used to refresh Model/C19code.v).
"""
import ast
import os
import sys

sys.path.insert(0, os.path.dirname(os.path.abspath(__file__)))
from translate import Untranslatable, _src_of   # noqa: E402

SRC = "/quantarhei/spectroscopy/twod2.py"

# strings of the storage code -> atoms of the Coq value type
PTYPES = ["R1g", "R2g", "R3g", "R4g", "R1fs", "R2fs", "R3fs", "R4fs"]
STR2ATOM = {p: "(VKey (DP %s))" % p for p in PTYPES}
STR2ATOM.update({"GSB": "(VKey (DQ GSB))", "SE": "(VKey (DQ SE))", "ESA": "(VKey (DQ ESA))", "DC": "(VKey (DQ DCp))",
                 "off": "(VLev Off)", "signals": "(VLev Signals)", "processes": "(VLev Processes)", "types": "(VLev Types)",
                 "pathways": "(VLev Pathways)"})
NAME2ATOM = {"signal_REPH": "(VKey (DS REPH))", "signal_NONR": "(VKey (DS NONR))", "signal_DC": "(VKey (DS DCs))",
             "signal_TOTL": "(VKey DTot)"}
OBJ_ATTRS = {"storage_resolution", "storage_initialized", "_d__data", "current_dtype", "current_tag"}
SET_ATTRS = OBJ_ATTRS | {"address_length"}
CONSTS = ["_ptypes", "_processes", "_signals", "_total", "_resolutions"]
HELPERS = ["_resolution2number", "_pathways_to_processes", "_pathways_to_signals", "_pathways_to_total", "_types_to_processes",
           "_types_to_signals", "_signals_to_total", "_processes_to_total", "_types_to_total"]
METHODS = ["set_data_flag", "_convert_res_elementary", "_convert_resolution", "set_resolution", "_add_data"]
EXC = {"Exception": "EOther", "TypeError": "EType"}
HANDLER = {None: "HAll", "Exception": "HAll", "KeyError": "HKey", "AttributeError": "HAttr", "IndexError": "HIndex", "TypeError": "HType"}


def _docless(stmts):
    return [s for s in stmts if not (isinstance(s, ast.Expr) and isinstance(s.value, ast.Constant) and isinstance(s.value.value, str))]


def _live_prefix(stmts):
    """statements after an unconditional raise / return of the same block are dead"""
    out = []
    for s in _docless(stmts):
        out.append(s)
        if isinstance(s, (ast.Raise, ast.Return)):
            break
    return out


# ------------------------------------------------------------------------------------------------------- aliasing
def _is_name(n, ident=None):
    return isinstance(n, ast.Name) and (ident is None or n.id == ident)


def _is_none_test(test, name, negated):
    return (isinstance(test, ast.Compare) and len(test.ops) == 1 and isinstance(test.ops[0], ast.IsNot if negated else ast.Is)
            and _is_name(test.left, name) and isinstance(test.comparators[0], ast.Constant) and test.comparators[0].value is None)


def ALIAS_IDIOM(s):
    """`if X is not None: X += Y  else: X = Y`  (the accumulation of _types_to_processes / _types_to_signals).  X may alias a
    stored array here only if X started as None, i.e. for a store that was never initialised, whose arrays are the zero
    arrays made by a resolution change (Proofs/C19gen.v: uninitialised_store_is_zero); the in-place addition then adds zeros."""
    if not (isinstance(s, ast.If) and len(s.body) == 1 and len(s.orelse) == 1):
        return None
    a, b = s.body[0], s.orelse[0]
    if (isinstance(a, ast.AugAssign) and isinstance(a.op, ast.Add) and isinstance(a.target, ast.Name) and isinstance(a.value, ast.Name)
            and isinstance(b, ast.Assign) and len(b.targets) == 1 and _is_name(b.targets[0], a.target.id) and _is_name(b.value, a.value.id)
            and _is_none_test(s.test, a.target.id, True)):
        return a.target.id
    return None


def _fresh_value(v):
    """expressions whose value is a new (or immutable) object"""
    if isinstance(v, (ast.Constant, ast.BinOp, ast.Compare, ast.BoolOp, ast.UnaryOp, ast.List, ast.Dict)):
        return True
    if isinstance(v, ast.Call):
        f = ast.unparse(v.func)
        return f in ("numpy.zeros", "isinstance", "dict") or f.endswith(".copy") or f.endswith(".index") or f == "_resolution2number"
    return False


def _alias_check(fn, qual, used):
    """in-place `x += e` only on names that hold a fresh array; dictionaries made by `{}` are not copied, and not written after
    they were installed in the object.  `used` collects the uses of ALIAS_IDIOM."""
    def join(a, b):
        if a is None or b is None:                  # a block that ends in return / raise passes nothing on
            return b if a is None else a
        # a name missing on one side is unbound there (using it raises; nothing is shared)
        return {k: ("B" if "B" in (a.get(k), b.get(k)) else "F") for k in set(a) | set(b)}

    def stored(st, v):
        if isinstance(v, ast.Name) and v.id in st:
            st[v.id] = "B"

    def block(stmts, st):
        for s in _live_prefix(stmts):
            if st is None:
                break
            st = stmt(s, st)
        return st

    def stmt(s, st):
        st = dict(st)
        if isinstance(s, ast.Assign) and len(s.targets) == 1:
            t = s.targets[0]
            if isinstance(t, ast.Name):
                if isinstance(s.value, ast.Name) and st.get(s.value.id) == "F" and s.value.id in dicts:
                    raise Untranslatable("%s: dictionary %s is copied to %s" % (qual, s.value.id, t.id))
                if isinstance(s.value, ast.Dict):
                    dicts.add(t.id)
                st[t.id] = "F" if _fresh_value(s.value) else "B"
            else:
                if isinstance(t, ast.Subscript) and isinstance(t.value, ast.Name) and t.value.id in dicts and st.get(t.value.id) == "B":
                    raise Untranslatable("%s: dictionary %s is written after it was handed over" % (qual, t.value.id))
                stored(st, s.value)
            return st
        if isinstance(s, ast.AugAssign):
            if not (isinstance(s.target, ast.Name) and isinstance(s.op, ast.Add)):
                raise Untranslatable("%s: augmented assignment %s" % (qual, ast.unparse(s)[:60]))
            if st.get(s.target.id, "F") != "F":
                raise Untranslatable("%s: in-place update `%s` of an array that may be shared with the store" % (qual, ast.unparse(s)[:60]))
            return st
        if isinstance(s, ast.If):
            x = ALIAS_IDIOM(s)
            if x is not None and st.get(x) != "F":
                used.append("%s: %s" % (qual, ast.unparse(s).replace("\n", " ; ")[:80]))
                st[x] = "B"
                return st
            return join(block(s.body, dict(st)), block(s.orelse, dict(st)))
        if isinstance(s, ast.For):
            if isinstance(s.target, ast.Name):
                st[s.target.id] = "B"
            for _ in range(3):
                st = join(st, block(s.body, dict(st)))
            return st
        if isinstance(s, ast.Try):
            end = block(s.body, dict(st))
            out = end
            for h in s.handlers:
                out = join(out, block(h.body, dict(join(st, end))))
            return out
        if isinstance(s, ast.Expr) and isinstance(s.value, ast.Call):
            for a in s.value.args:
                stored(st, a)
            return st
        if isinstance(s, (ast.Return, ast.Raise)):
            return None
        return st
    dicts = set()
    st0 = {a.arg: "B" for a in fn.args.args}
    block(fn.body, st0)


# ------------------------------------------------------------------------------------------------------- transcription
class Fn:
    """transcribes one function into a term of type fn"""

    def __init__(self, mod, node, qual, pfx, closure=None):
        self.mod, self.node, self.qual, self.pfx = mod, node, qual, pfx
        self.closure = closure or {}
        args = [a.arg for a in node.args.args]
        if node.args.vararg or node.args.kwarg or node.args.kwonlyargs:
            raise Untranslatable("%s: signature" % qual)
        self.obj = None
        if args and args[0] in ("self", "obj"):
            self.obj, args = args[0], args[1:]
        self.params = args
        self.names = {}
        for a in args:
            self.local(a)

    def local(self, name):
        if name not in self.names:
            self.names[name] = "v%d" % len(self.names)
        return self.names[name]

    def bad(self, what, node=None):
        raise Untranslatable("%s: %s%s" % (self.qual, what, (" `%s`" % ast.unparse(node)[:70]) if node is not None else ""))

    # ---- expressions
    def atom(self, node):
        if isinstance(node, ast.Constant):
            v = node.value
            if v is None:
                return "VNone"
            if isinstance(v, bool):
                return "(VBool %s)" % ("true" if v else "false")
            if isinstance(v, int):
                return "(VInt (%d))" % v
            if isinstance(v, str) and v in STR2ATOM:
                return STR2ATOM[v]
        self.bad("constant", node)

    def is_obj(self, node):
        return self.obj is not None and _is_name(node, self.obj)

    def e(self, node):
        if isinstance(node, ast.Constant):
            return "(e_const %s)" % self.atom(node)
        if isinstance(node, ast.Name):
            n = node.id
            if n in self.names:
                return '(e_var "%s")' % self.names[n]
            if n in self.closure:
                self.bad("closure variable used as a value", node)
            if n in NAME2ATOM and n in self.mod.imported:
                return "(e_const %s)" % NAME2ATOM[n]
            if n in self.mod.consts:
                return "(e_const %sc%s)" % (self.pfx, n)
            self.bad("unknown name", node)
        if isinstance(node, ast.Attribute):
            if self.is_obj(node.value):
                if node.attr in OBJ_ATTRS:
                    return '(e_attr "%s")' % node.attr
                if node.attr == "d__data":
                    return "(e_call %sgetter [])" % self.pfx
            self.bad("attribute", node)
        if isinstance(node, ast.Subscript):
            if isinstance(node.slice, ast.Slice):
                sl = node.slice
                if sl.step is not None or sl.lower is None or sl.upper is None:
                    self.bad("slice without both bounds or with a step", node)
                return "(e_slice %s %s %s)" % (self.e(node.value), self.e(sl.lower), self.e(sl.upper))
            return "(e_bino p_getitem %s %s)" % (self.e(node.value), self.e(node.slice))
        if isinstance(node, ast.List):
            return "(e_list [%s])" % "; ".join(self.e(x) for x in node.elts)
        if isinstance(node, ast.Dict):
            if any(k is None for k in node.keys):
                self.bad("dictionary unpacking", node)
            return "(e_dict [%s])" % "; ".join("(%s, %s)" % (self.e(k), self.e(v)) for k, v in zip(node.keys, node.values))
        if isinstance(node, ast.UnaryOp) and isinstance(node.op, ast.Not):
            return "(e_un p_not %s)" % self.e(node.operand)
        if isinstance(node, ast.BoolOp):
            parts = [self.e(v) for v in node.values]
            comb = "e_and" if isinstance(node.op, ast.And) else "e_or"
            out = parts[-1]
            for p in reversed(parts[:-1]):
                out = "(%s %s %s)" % (comb, p, out)
            return out
        if isinstance(node, ast.BinOp) and isinstance(node.op, ast.Add):
            return "(e_bin p_add %s %s)" % (self.e(node.left), self.e(node.right))
        if isinstance(node, ast.Compare) and len(node.ops) == 1:
            op, a, b = node.ops[0], node.left, node.comparators[0]
            if isinstance(op, (ast.Is, ast.IsNot)):
                if not (isinstance(b, ast.Constant) and b.value is None):
                    self.bad("identity test against something else than None", node)
                t = "(e_un p_isnone %s)" % self.e(a)
                return t if isinstance(op, ast.Is) else "(e_un p_not %s)" % t        # `x is not None` = `not x is None`
            if isinstance(op, (ast.Eq, ast.NotEq)):
                x, y = sorted([self.e(a), self.e(b)])                                 # a == b  =  b == a
                t = "(e_bin p_eq %s %s)" % (x, y)
                return t if isinstance(op, ast.Eq) else "(e_un p_not %s)" % t
            if isinstance(op, (ast.Lt, ast.LtE)):
                return "(e_bin (p_cmp %s) %s %s)" % ("Z.ltb" if isinstance(op, ast.Lt) else "Z.leb", self.e(a), self.e(b))
            if isinstance(op, (ast.Gt, ast.GtE)):
                return "(e_bin (p_cmp %s) %s %s)" % ("Z.ltb" if isinstance(op, ast.Gt) else "Z.leb", self.e(b), self.e(a))
            if isinstance(op, (ast.In, ast.NotIn)):
                t = "(e_bino p_in %s %s)" % (self.e(a), self.e(b))
                return t if isinstance(op, ast.In) else "(e_un p_not %s)" % t
        if isinstance(node, ast.Call):
            return self.call(node)
        self.bad("expression", node)

    def zeros_ok(self, node):
        if len(node.args) != 1 or [k.arg for k in node.keywords] != ["dtype"] or ast.unparse(node.keywords[0].value) != "COMPLEX":
            return False
        shp = node.args[0]
        if not (isinstance(shp, ast.Tuple) and len(shp.elts) == 2):
            return False
        texts = [ast.unparse(x) for x in shp.elts]
        return texts == ["1", "1"] or (self.obj is not None and texts == [self.obj + ".xaxis.length", self.obj + ".yaxis.length"])

    def call(self, node):
        f = ast.unparse(node.func)
        args = node.args
        if f == "numpy.zeros":
            if not self.zeros_ok(node):
                self.bad("numpy.zeros with an unexpected shape or dtype", node)
            return "e_zeros"
        if f == "dict" and not args:
            items = []
            for k in node.keywords:
                if k.arg is None or k.arg not in STR2ATOM:
                    self.bad("dict() keyword", node)
                items.append("(e_const %s, %s)" % (STR2ATOM[k.arg], self.e(k.value)))
            return "(e_dict [%s])" % "; ".join(items)
        if node.keywords:
            self.bad("keyword arguments", node)
        if f == "getattr" and len(args) == 2 and self.is_obj(args[0]):
            return '(e_attr "%s")' % self.attr_name(args[1])
        if f == "isinstance" and len(args) == 2:
            cls = ast.unparse(args[1])
            if cls == "numpy.ndarray":
                return "(e_un p_isarr %s)" % self.e(args[0])
            if cls == "list":
                return "(e_un p_islist %s)" % self.e(args[0])
            self.bad("isinstance class", node)
        if isinstance(node.func, ast.Name) and node.func.id in self.mod.funs:
            tgt = self.mod.funs[node.func.id]
            if tgt["obj"]:
                if not (args and self.is_obj(args[0])):
                    self.bad("helper called on something else than the object", node)
                args = args[1:]
            if len(args) != tgt["arity"]:
                self.bad("arity", node)
            return "(e_call %s%s [%s])" % (self.pfx, node.func.id, "; ".join(self.e(a) for a in args))
        if isinstance(node.func, ast.Attribute):
            recv, meth = node.func.value, node.func.attr
            if self.is_obj(recv) and meth in self.mod.methods:
                if len(args) != self.mod.methods[meth]:
                    self.bad("arity", node)
                return "(e_call %s%s [%s])" % (self.pfx, meth, "; ".join(self.e(a) for a in args))
            if meth == "copy" and not args:
                return "(e_un p_copy %s)" % self.e(recv)
            if meth == "keys" and not args:
                return "(e_uno p_keys %s)" % self.e(recv)
            if meth == "index" and len(args) == 1:
                return "(e_bin p_index %s %s)" % (self.e(recv), self.e(args[0]))
        self.bad("call", node)

    def attr_name(self, node):
        if isinstance(node, ast.Constant) and node.value in OBJ_ATTRS:
            return node.value
        if isinstance(node, ast.Name) and node.id in self.closure and self.closure[node.id] in OBJ_ATTRS:
            return self.closure[node.id]
        self.bad("attribute name", node)

    # ---- statements
    def seq(self, stmts):
        parts = [self.s(x) for x in _live_prefix(stmts) if not isinstance(x, ast.Pass)]
        if not parts:
            return "s_skip"
        out = parts[-1]
        for p in reversed(parts[:-1]):
            out = "(s_seq %s\n %s)" % (p, out)
        return out

    def s(self, s):
        if isinstance(s, ast.Assign):
            if len(s.targets) != 1:
                self.bad("multiple assignment", s)
            t = s.targets[0]
            if isinstance(t, ast.Name):
                rhs = self.e(s.value)
                return '(s_assign "%s" %s)' % (self.local(t.id), rhs)
            if isinstance(t, ast.Subscript) and isinstance(t.value, ast.Name) and t.value.id in self.names:
                return '(s_setitem "%s" %s %s)' % (self.names[t.value.id], self.e(t.slice), self.e(s.value))
            if isinstance(t, ast.Attribute) and self.is_obj(t.value):
                if t.attr == "d__data":
                    return "(s_expr (e_call %ssetter [%s]))" % (self.pfx, self.e(s.value))
                if t.attr in SET_ATTRS:
                    return '(s_setattr "%s" %s)' % (t.attr, self.e(s.value))
            self.bad("assignment target", s)
        if isinstance(s, ast.AugAssign):
            if not (isinstance(s.target, ast.Name) and isinstance(s.op, ast.Add) and s.target.id in self.names):
                self.bad("augmented assignment", s)
            v = self.names[s.target.id]
            return '(s_assign "%s" (e_bin p_add (e_var "%s") %s))' % (v, v, self.e(s.value))
        if isinstance(s, ast.If):
            return "(s_if %s\n %s\n %s)" % (self.e(s.test), self.seq(s.body), self.seq(s.orelse))
        if isinstance(s, ast.For):
            if s.orelse or not isinstance(s.target, ast.Name):
                self.bad("loop", s)
            it = self.e(s.iter)
            return '(s_for "%s" %s\n %s)' % (self.local(s.target.id), it, self.seq(s.body))
        if isinstance(s, ast.Try):
            if s.orelse or s.finalbody or not s.handlers:
                self.bad("try with else/finally", s)
            body = self.seq(s.body)
            hs = []
            for h in s.handlers:
                if h.name is not None:
                    self.bad("named exception", s)
                cls = None if h.type is None else ast.unparse(h.type)
                if cls not in HANDLER:
                    self.bad("exception class %s" % cls, s)
                hs.append("(%s, %s)" % (HANDLER[cls], self.seq(h.body)))
            return "(s_try %s\n [%s])" % (body, "; ".join(hs))
        if isinstance(s, ast.Raise):
            if s.cause is not None or not (isinstance(s.exc, ast.Call) and isinstance(s.exc.func, ast.Name) and s.exc.func.id in EXC):
                self.bad("raise", s)
            return "(s_raise %s)" % EXC[s.exc.func.id]        # the message is not evaluated
        if isinstance(s, ast.Return):
            return "(s_return %s)" % ("(e_const VNone)" if s.value is None else self.e(s.value))
        if isinstance(s, ast.Expr) and isinstance(s.value, ast.Call):
            c = s.value
            if ast.unparse(c.func) == "setattr" and len(c.args) == 3 and self.is_obj(c.args[0]) and not c.keywords:
                return '(s_setattr "%s" %s)' % (self.attr_name(c.args[1]), self.e(c.args[2]))
            if isinstance(c.func, ast.Attribute) and self.is_obj(c.func.value) and c.func.attr in self.mod.methods:
                return "(s_expr %s)" % self.call(c)
        self.bad("statement", s)

    def text(self, name):
        used = []
        _alias_check(self.node, self.qual, used)
        self.mod.alias_exceptions += used
        body = self.seq(self.node.body)
        ps = "; ".join('"%s"' % self.names[p] for p in self.params)
        ls = "; ".join('"%s"' % v for k, v in self.names.items() if k not in self.params)
        return "Definition %s%s : fn :=\n def_fun [%s] [%s]\n %s.\n" % (self.pfx, name, ps, ls, body)


class Module:
    def __init__(self, repo, pfx):
        import warnings
        self.pfx = pfx
        path = repo + SRC
        with warnings.catch_warnings():
            warnings.simplefilter("ignore")
            self.tree = ast.parse(open(path).read())
            init = ast.parse(open(repo + "/quantarhei/__init__.py").read())
        self.alias_exceptions = []
        # names imported from the package: the four signal names; their values must be distinct strings, distinct from the others
        self.imported = set()
        for s in self.tree.body:
            if isinstance(s, ast.ImportFrom) and s.level == 2 and s.module is None:
                for a in s.names:
                    if a.name in NAME2ATOM and a.asname is None:
                        self.imported.add(a.name)
        if self.imported != set(NAME2ATOM):
            raise Untranslatable("the signal names are not imported from the package: %r" % sorted(self.imported))
        vals = {}
        for s in init.body:
            if isinstance(s, ast.Assign) and len(s.targets) == 1 and _is_name(s.targets[0]) and s.targets[0].id in NAME2ATOM:
                if not (isinstance(s.value, ast.Constant) and isinstance(s.value.value, str)):
                    raise Untranslatable("quantarhei/__init__.py: %s is not a string constant" % s.targets[0].id)
                vals[s.targets[0].id] = s.value.value
        allstr = list(vals.values()) + list(STR2ATOM)
        if set(vals) != set(NAME2ATOM) or len(set(allstr)) != len(allstr):
            raise Untranslatable("signal name strings are not pairwise distinct: %r" % vals)
        self.consts = {}
        self.top = {}
        for s in self.tree.body:
            if isinstance(s, ast.Assign) and len(s.targets) == 1 and _is_name(s.targets[0]):
                n = s.targets[0].id
                if n in self.top and (n in CONSTS or n == "TwoDSpectrumDataArray"):
                    raise Untranslatable("%s assigned twice" % n)
                self.top[n] = s.value
            elif isinstance(s, (ast.FunctionDef, ast.ClassDef)):
                if s.name in self.top:
                    raise Untranslatable("%s defined twice" % s.name)
                self.top[s.name] = s
        for n in CONSTS:
            if n not in self.top or not isinstance(self.top[n], ast.expr):
                raise Untranslatable("module constant %s not found" % n)
        self.funs, self.methods = {}, {}
        for h in HELPERS:
            node = self.top.get(h)
            if not isinstance(node, ast.FunctionDef) or node.decorator_list:
                raise Untranslatable("helper %s not found" % h)
            args = [a.arg for a in node.args.args]
            ob = bool(args) and args[0] in ("self", "obj")
            self.funs[h] = {"obj": ob, "arity": len(args) - (1 if ob else 0), "node": node}
        cls = self.top.get("TwoDSpectrumBase")
        if not isinstance(cls, ast.ClassDef):
            raise Untranslatable("class TwoDSpectrumBase not found")
        self.cls = cls
        self.mnodes = {}
        for s in cls.body:
            if isinstance(s, ast.FunctionDef):
                if s.name in self.mnodes:
                    raise Untranslatable("method %s defined twice" % s.name)
                self.mnodes[s.name] = s
        for m in METHODS:
            if m not in self.mnodes or self.mnodes[m].decorator_list:
                raise Untranslatable("method %s not found" % m)
            self.methods[m] = len(self.mnodes[m].args.args) - 1

    def const_text(self, n):
        f = Fn(self, ast.parse("def f(): pass").body[0], n, self.pfx)
        seen = CONSTS[:CONSTS.index(n)]
        self.consts = {k: True for k in seen}                   # a table may use the tables defined before it
        t = f.e(self.top[n])
        return "Definition %sc%s : pv := Eval vm_compute in (eval_const %s).\n" % (self.pfx, n, t)

    def wiring(self):
        """d__data is the property made by twodspectrum_dictionary("d__data"), whose storage attribute is "_" + name"""
        tdd = self.top.get("twodspectrum_dictionary")
        if not isinstance(tdd, ast.FunctionDef) or [a.arg for a in tdd.args.args] != ["name", "dtype"]:
            raise Untranslatable("twodspectrum_dictionary(name, dtype) not found")
        body = _docless(tdd.body)
        if not (len(body) == 4 and ast.unparse(body[0]) == "storage_name = '_' + name" and isinstance(body[1], ast.FunctionDef)
                and isinstance(body[2], ast.FunctionDef) and ast.unparse(body[3]) == "return prop"
                and [ast.unparse(d) for d in body[1].decorator_list] == ["property"]
                and [ast.unparse(d) for d in body[2].decorator_list] == [body[1].name + ".setter"] and body[2].name == body[1].name == "prop"):
            raise Untranslatable("twodspectrum_dictionary: storage_name / getter / setter / return prop")
        if ast.unparse(self.top.get("TwoDSpectrumDataArray", ast.Constant(0))) != "partial(twodspectrum_dictionary, dtype=numbers.Complex)":
            raise Untranslatable("TwoDSpectrumDataArray is not partial(twodspectrum_dictionary, ...)")
        decl = [s for s in self.cls.body if isinstance(s, ast.Assign) and any(_is_name(t, "d__data") for t in s.targets)]
        if len(decl) != 1 or ast.unparse(decl[0]) != "d__data = TwoDSpectrumDataArray('d__data')":
            raise Untranslatable("TwoDSpectrumBase.d__data is not TwoDSpectrumDataArray('d__data')")
        for s in ast.walk(self.cls):
            if isinstance(s, (ast.Assign, ast.AugAssign, ast.Delete)):
                tg = s.targets if isinstance(s, (ast.Assign, ast.Delete)) else [s.target]
                for t in tg:
                    if isinstance(t, ast.Attribute) and t.attr == "d__data" and not (_is_name(t.value, "self")):
                        raise Untranslatable("d__data assigned on something else than self")
        return body[1], body[2], {"storage_name": "_d__data"}

    def new_object(self):
        """the storage fields set by TwoDSpectrumBase.__init__ (TwoDResponse.__init__ only adds fields and calls it)"""
        fields = {}
        for s in ast.walk(self.mnodes["__init__"]):
            if isinstance(s, ast.Assign):
                for t in s.targets:
                    if isinstance(t, ast.Attribute) and _is_name(t.value, "self") and t.attr in OBJ_ATTRS:
                        if t.attr in fields or len(s.targets) != 1:
                            raise Untranslatable("__init__: %s set twice" % t.attr)
                        fields[t.attr] = s.value
        if set(fields) != OBJ_ATTRS - {"_d__data"}:
            raise Untranslatable("__init__ sets %r" % sorted(fields))
        sub = self.top.get("TwoDResponse")
        subinit = [m for m in (sub.body if isinstance(sub, ast.ClassDef) else []) if isinstance(m, ast.FunctionDef) and m.name == "__init__"]
        for m in subinit:
            for s in ast.walk(m):
                if isinstance(s, ast.Attribute) and isinstance(s.ctx, ast.Store) and s.attr in SET_ATTRS | {"d__data"}:
                    raise Untranslatable("TwoDResponse assigns the storage field %s" % s.attr)
        f = Fn(self, ast.parse("def f(self): pass").body[0], "__init__", self.pfx)
        self.consts = {k: True for k in CONSTS}
        fl = "; ".join('("%s", %s)' % (k, f.e(fields[k])) for k in sorted(fields))
        return "Definition %snew_fields : list (string * expr) := [%s].\n" % (self.pfx, fl)

    def text(self):
        out, what = [], []
        for n in CONSTS:
            out.append(self.const_text(n))
        what.append("twod2.py: tables " + ", ".join(CONSTS))
        self.consts = {k: True for k in CONSTS}
        getter, setter, clo = self.wiring()
        order = [("_resolution2number", self.funs["_resolution2number"]["node"], None)]
        for h in ("_types_to_processes", "_types_to_signals", "_types_to_total", "_signals_to_total", "_processes_to_total",
                  "_pathways_to_processes", "_pathways_to_signals", "_pathways_to_total"):
            order.append((h, self.funs[h]["node"], None))
        order.append(("getter", getter, clo))
        order.append(("setter", setter, clo))
        for m in METHODS:
            order.append((m, self.mnodes[m], None))
        for name, node, clo in order:
            qual = "twod2.py:" + ("twodspectrum_dictionary." + name if clo else name)
            out.append(Fn(self, node, qual, self.pfx, clo).text(name))
            what.append(qual)
        out.append(self.new_object())
        what.append("twod2.py:TwoDSpectrumBase.__init__ (storage fields)")
        return "\n".join(out), what


GEN_HEAD = """(* GENERATED on every run by harness/translate_c19.py from quantarhei/spectroscopy/twod2.py: the module tables,
   _resolution2number, the eight reduction helpers, getter and setter of twodspectrum_dictionary, set_data_flag,
   _convert_res_elementary, _convert_resolution, set_resolution, _add_data, transcribed node by node into the
   combinators of Model/C19py.v; in-place array updates checked against sharing with the store. *)
From Coq Require Import ZArith List Bool String.
From QV Require Import Base.Alg Model.C19 Model.C19py Model.C19code Proofs.C19 Proofs.C19genA Proofs.C19genB Proofs.C19gen.
Import ListNotations.
Open Scope string_scope.
Section Gen.
Context {R : StarRing}.
Notation pv := (@pv R).
Notation fn := (@fn R).
Notation expr := (@expr R).
"""


def names_of(text):
    import re
    return re.findall(r"^Definition (\w+) ", text, flags=re.M)


def static(repo):
    mod = Module(repo, "gen_")
    body, what = mod.text()
    lem = []
    for n in names_of(body):
        c = "code_" + n[len("gen_"):]
        lem.append("Lemma %s_is_code : %s = %s.\nProof. reflexivity. Qed.\n" % (n, n, c))
    tail = GEN_TAIL
    if mod.alias_exceptions:
        what.append("in-place accumulation on a possibly shared array accepted only as the idiom of ALIAS_IDIOM: "
                    + " | ".join(sorted(set(mod.alias_exceptions))))
    return GEN_HEAD + body + "\n" + "".join(lem) + tail, what


GEN_TAIL = """
(* the refinement theorems of Proofs/C19gen.v, stated for the code as it is now: every history of _add_data /
   set_resolution / set_data_flag + read of d__data on a new object, executed by the transcription of the current
   source, shows what Model/C19.v's run shows and ends in the object that represents the model's final state *)
Theorem gen_refines_model (ops : list (@op R)) :
  match new_obj gen_new_fields dummy with
  | Some o => prun gen__add_data gen_set_resolution gen_set_data_flag gen_getter o ops
  | None => None
  end = Some (conc (fst (run NoneTagRefused fresh ops)), snd (run NoneTagRefused fresh ops)).
Proof.
  rewrite gen_new_fields_is_code, gen__add_data_is_code, gen_set_resolution_is_code, gen_set_data_flag_is_code, gen_getter_is_code.
  exact (code_refines_model ops).
Qed.
(* single calls on the object of any reachable model state *)
Lemma gen_getter_is_read (s : @st R) : wfp s -> nodup s -> rd_of (gen_getter (conc s) []) = Some (conc s, read s).
Proof. rewrite gen_getter_is_code. apply getter_ok. Qed.
Lemma gen_setter_is_write (s : @st R) v : wfa s ->
  ok_of (gen_setter (conc s) [VArr v]) = Some (conc (fst (write NoneTagRefused s v)), snd (write NoneTagRefused s v)).
Proof. rewrite gen_setter_is_code. apply setter_ok. Qed.
Lemma gen_add_data_is_model (s : @st R) data reso d tg : Inv s ->
  ok_of (gen__add_data (conc s) [VArr data; resov reso; VKey d; tagv tg]) =
  Some (conc (fst (add_data NoneTagRefused s data reso d tg)), snd (add_data NoneTagRefused s data reso d tg)).
Proof. rewrite gen__add_data_is_code. apply add_data_ok. Qed.
Lemma gen_set_resolution_is_model (s : @st R) new : Inv s ->
  ok_of (gen_set_resolution (conc s) [oplev new]) = Some (conc (fst (set_resolution s new)), snd (set_resolution s new)).
Proof. intros H. rewrite gen_set_resolution_is_code. apply set_resolution_ok, Inv_cinv, H. Qed.
Lemma gen_tables_are_model :
  gen_c_ptypes = VList (map kp all_ptypes) /\\
  gen_c_processes = VDict (map (fun q => (VKey (DQ q), VList (map kp (types_of_process q)))) all_processes) /\\
  gen_c_signals = VDict (map (fun g => (VKey (DS g), VList (map kp (types_of_signal g)))) all_signals) /\\
  gen_c_total = VKey (R:=R) DTot /\\
  gen_c_resolutions = VList (map (@VLev R) [Off; Signals; Processes; Types; Pathways]).
Proof. repeat split; reflexivity. Qed.
End Gen.
"""

if __name__ == "__main__":
    if len(sys.argv) == 3 and sys.argv[1] == "--emit-code":
        m = Module(sys.argv[2], "code_")
        t, _ = m.text()
        sys.stdout.write(t)
    else:
        t, w = static(sys.argv[1] if len(sys.argv) > 1 else "/repo")
        sys.stdout.write(t)
        sys.stderr.write("\n".join(w) + "\n")
