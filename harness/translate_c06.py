# -*- coding: utf-8 -*-
"""Static tie for C06 (DESIGN.md section 12): the rate kernels and bath functions are translated from the current source on every run.

Translated (statement templates with holes, skeleton combinators in coq/theories/Proofs/C06gen.v):
  implementations/python/redfieldrates.py : ssRedfieldRateMatrix      both loop nests, the clamp, the two warning flags
  qm/liouvillespace/rates/redfieldrates.py: RedfieldRateMatrix._set_rates   operator transformation, frequency table, the if-tree
                                            that fills cc[k,i,j] (cut-off, uphill = downhill x Boltzmann), the hand-over to the kernel
  qm/liouvillespace/rates/foersterrates.py: _reference_implementation (transfer nest, depopulation loop), _fintegral (exponent)
  qm/corfunctions/spectraldensities.py    : the three analytic formulas; get_FTCorrelationFunction (temperature loop, twokbt,
                                            (1 + 1/tanh) J on both sides of zero, the L'Hospital point, slice bounds)
Everything outside the supported fragment raises Untranslatable (fail-closed).
"""
import ast
import copy
from fractions import Fraction

from translate import Untranslatable, Expr, _src_of
from translate2 import _live, _expr_of


# ----------------------------------------------------------------------------------------------- unification with binders
_SKIP = {"ctx", "lineno", "col_offset", "end_lineno", "end_col_offset", "type_comment", "kind"}


class _Norm(ast.NodeTransformer):
    """x = x + y  /  x = y + x  /  x = x - y   ->   x += y  /  x -= y   (same target expression)"""

    def visit_Assign(self, node):
        self.generic_visit(node)
        if len(node.targets) == 1 and isinstance(node.value, ast.BinOp) and isinstance(node.value.op, (ast.Add, ast.Sub)):
            t = ast.dump(_noctx(node.targets[0]))
            if ast.dump(_noctx(node.value.left)) == t:
                return ast.copy_location(ast.AugAssign(target=node.targets[0], op=node.value.op, value=node.value.right), node)
            if isinstance(node.value.op, ast.Add) and ast.dump(_noctx(node.value.right)) == t:
                return ast.copy_location(ast.AugAssign(target=node.targets[0], op=node.value.op, value=node.value.left), node)
        return node


def _noctx(node):
    node = copy.deepcopy(node)
    for n in ast.walk(node):
        if hasattr(n, "ctx"):
            n.ctx = ast.Load()
    return node


def unify(t, s, env, path="body"):
    """template t against source s.  Names H_x: expression holes; L_x: binders (any local name, consistently; distinctness is checked per scope by locals_of);
    an expression statement consisting of the name S_x: one arbitrary statement"""
    if isinstance(t, ast.Name) and t.id.startswith("H_"):
        if not isinstance(s, ast.expr):
            raise Untranslatable("%s: hole %s against a non-expression" % (path, t.id))
        if t.id in env:
            if ast.dump(_noctx(env[t.id])) != ast.dump(_noctx(s)):
                raise Untranslatable("%s: hole %s bound to two different expressions (%s / %s)" % (path, t.id, ast.unparse(env[t.id]), ast.unparse(s)))
        else:
            env[t.id] = s
        return
    if isinstance(t, ast.Name) and t.id.startswith("L_"):
        if not isinstance(s, ast.Name):
            raise Untranslatable("%s: a local name is expected where the source has %s" % (path, ast.unparse(s) if isinstance(s, ast.AST) else s))
        if t.id in env:
            if env[t.id] != s.id:
                raise Untranslatable("%s: local %s is %s here and %s elsewhere" % (path, t.id, s.id, env[t.id]))
        else:
            env[t.id] = s.id
        return
    if isinstance(t, ast.Expr) and isinstance(t.value, ast.Name) and t.value.id.startswith("S_"):
        if not isinstance(s, ast.stmt):
            raise Untranslatable("%s: a statement is expected" % path)
        env[t.value.id] = s
        return
    if isinstance(t, list):
        if not isinstance(s, list):
            raise Untranslatable("%s: list expected" % path)
        if t and isinstance(t[0], ast.stmt) or s and isinstance(s[0], ast.stmt):
            t, s = _live(t), _live(s)
        if len(t) != len(s):
            raise Untranslatable("%s: %d statements/elements where the template has %d (%s)"
                                 % (path, len(s), len(t), "; ".join(ast.unparse(x)[:40] for x in s if isinstance(x, ast.AST))[:200]))
        for k, (a, b) in enumerate(zip(t, s)):
            unify(a, b, env, "%s[%d]" % (path, k))
        return
    if isinstance(t, ast.AST):
        if type(t) is not type(s):
            raise Untranslatable("%s: %s where the template has %s (%s)" % (path, type(s).__name__, type(t).__name__,
                                                                         ast.unparse(s)[:80] if isinstance(s, ast.AST) else s))
        for f in t._fields:
            if f in _SKIP:
                continue
            unify(getattr(t, f, None), getattr(s, f, None), env, path + "." + f)
        return
    if t != s:
        raise Untranslatable("%s: %r where the template has %r" % (path, s, t))


def match(repo_file, qualname, template_src):
    fn = _Norm().visit(copy.deepcopy(_src_of(repo_file, qualname)))
    tfn = _Norm().visit(ast.parse(template_src).body[0])
    env = {}
    unify([a.arg for a in tfn.args.args], [a.arg for a in fn.args.args], env, qualname + ".args")
    unify([ast.dump(d) for d in tfn.args.defaults], [ast.dump(d) for d in fn.args.defaults], env, qualname + ".defaults")
    unify(tfn.body, fn.body, env, qualname)
    return env


def locals_of(env, **roles):
    """python name -> Coq name for the binders of a template: locals_of(env, L_i='i')"""
    out = {}
    for k, v in roles.items():
        if env[k] in out:
            raise Untranslatable("the local name %s plays two roles (%s, %s)" % (env[k], out[env[k]], v))
        out[env[k]] = v
    return out


# ----------------------------------------------------------------------------------------------- expressions
def _num(node):
    """numeric constant (int or float, not bool) or None"""
    if isinstance(node, ast.Constant) and isinstance(node.value, (int, float)) and not isinstance(node.value, bool):
        return node.value
    return None


class RExpr(Expr):
    """ring expressions with float constants 0.0, 1.0, 2.0, x**2, and arrays whose base is given as a Coq term"""

    def __init__(self, names, consts=None):
        Expr.__init__(self, "ring", names)
        self.consts = consts or {}

    def e(self, node):
        v = _num(node)
        if v is not None:
            if v == 0:
                return "(r0 R)"
            if v == 1:
                return "(r1 R)"
            if v == 2:
                return self.consts.get(2, "(radd R (r1 R) (r1 R))")
            raise Untranslatable("ring constant %r" % v)
        if isinstance(node, ast.BinOp) and isinstance(node.op, ast.Pow):
            if _num(node.right) == 2:
                x = self.e(node.left)
                return "(rmul R %s %s)" % (x, x)
            raise Untranslatable("power %s" % ast.unparse(node))
        return Expr.e(self, node)


def nat_index(node, names):
    if isinstance(node, ast.Name) and node.id in names:
        return names[node.id]
    raise Untranslatable("index %s (a loop variable is expected)" % ast.unparse(node))


def nat_guard(node, names):
    """i != j, i == j, not, and, or over loop variables -> bool"""
    return Expr("ring", names).b(node)


def zrange(node, znames, funcs=("range",)):
    """range(hi) / range(lo, hi) (or another whitelisted iterator with the same meaning) -> (lo, hi) as Z terms"""
    if not (isinstance(node, ast.Call) and isinstance(node.func, ast.Name) and node.func.id in funcs and not node.keywords and 1 <= len(node.args) <= 2):
        raise Untranslatable("loop iterator %s" % ast.unparse(node))
    ex = Expr("Z", znames)
    if len(node.args) == 1:
        return "(0)", ex.e(node.args[0])
    return ex.e(node.args[0]), ex.e(node.args[1])


def const_only(node, allowed=()):
    """an expression built from numeric constants, + - * / and the given names only (configuration values that the model leaves open)"""
    for n in ast.walk(node):
        if isinstance(n, ast.Name):
            if n.id not in allowed:
                raise Untranslatable("constant expression uses %s" % n.id)
        elif isinstance(n, (ast.BinOp, ast.UnaryOp, ast.Add, ast.Sub, ast.Mult, ast.Div, ast.USub, ast.Load)):
            continue
        elif _num(n) is not None:
            continue
        else:
            raise Untranslatable("constant expression %s" % ast.unparse(node))
    return ast.unparse(node)


class QExpr:
    """rational expressions: constants (exact value of the float), names, + - * /, x**k (k a positive integer constant), unary -,
    whitelisted calls and subscripts"""

    def __init__(self, names, calls=None, attrs=None, subs=None):
        self.names, self.calls, self.attrs, self.subs = dict(names), calls or {}, attrs or {}, subs

    def e(self, node):
        v = _num(node)
        if v is not None:
            f = Fraction(v)
            return "(%d # %d)" % (f.numerator, f.denominator) if f >= 0 else "(- (%d # %d))" % (-f.numerator, f.denominator)
        if isinstance(node, ast.Name):
            if node.id in self.names:
                return self.names[node.id]
            raise Untranslatable("unknown name %r" % node.id)
        if isinstance(node, ast.Attribute):
            key = ast.unparse(node)
            if key in self.attrs:
                return self.attrs[key]
            raise Untranslatable("attribute %s" % key)
        if isinstance(node, ast.UnaryOp) and isinstance(node.op, ast.USub):
            return "(- %s)" % self.e(node.operand)
        if isinstance(node, ast.BinOp):
            if isinstance(node.op, ast.Pow):
                k = _num(node.right)
                if isinstance(k, int) and 1 <= k <= 4:
                    x = self.e(node.left)
                    return "(" + " * ".join([x] * k) + ")"
                raise Untranslatable("power %s" % ast.unparse(node))
            op = {ast.Add: "+", ast.Sub: "-", ast.Mult: "*", ast.Div: "/"}.get(type(node.op))
            if op is None:
                raise Untranslatable("operator %s" % type(node.op).__name__)
            return "(%s %s %s)" % (self.e(node.left), op, self.e(node.right))
        if isinstance(node, ast.Call):
            f = ast.unparse(node.func)
            if f in self.calls and len(node.args) == 1 and not node.keywords:
                return "(%s %s)" % (self.calls[f], self.e(node.args[0]))
            raise Untranslatable("call %s" % f)
        if isinstance(node, ast.Subscript) and self.subs is not None:
            return self.subs(node)
        raise Untranslatable("expression %s" % ast.unparse(node)[:100])


# ----------------------------------------------------------------------------------------------- ssRedfieldRateMatrix
T_SS = '''
def ssRedfieldRateMatrix(Na, Nk, KI, cc, rtol, werror, RR):
    dc = distributed_configuration()
    start_parallel_region()
    for L_k in H_kiter:
        L_KK = KI[H_kk, :, :]
        for L_i in H_i1:
            for L_j in H_j1:
                if H_g1:
                    RR[H_t1r, H_t1c] += H_term
    dc.allreduce(RR, operation="sum")
    close_parallel_region()
    for L_i2 in H_i2:
        for L_j2 in H_j2:
            if H_g2:
                if RR[H_r1r, H_r1c] < 0.0:
                    werror[H_w0] = H_v0
                    if numpy.abs(RR[H_r2r, H_r2c]) < rtol:
                        RR[H_r3r, H_r3c] = H_zero
                    else:
                        werror[H_w1] = H_v1
            if H_g3:
                RR[H_r4r, H_r4c] -= RR[H_r5r, H_r5c]
'''

SS_TEXT = """
(* ---- implementations/python/redfieldrates.py: ssRedfieldRateMatrix ---- *)
Section GenSs.
  Context {R : StarRing}.
  Add Ring Rgs : (rth R).
  Variable ltz small : R -> bool.
  Definition g_klo (Na Nk : Z) : Z := (%(klo)s)%%Z.
  Definition g_khi (Na Nk : Z) : Z := (%(khi)s)%%Z.
  Definition g_ilo1 (Na Nk : Z) : Z := (%(ilo1)s)%%Z.
  Definition g_ihi1 (Na Nk : Z) : Z := (%(ihi1)s)%%Z.
  Definition g_jlo1 (Na Nk : Z) : Z := (%(jlo1)s)%%Z.
  Definition g_jhi1 (Na Nk : Z) : Z := (%(jhi1)s)%%Z.
  Definition g_ilo2 (Na Nk : Z) : Z := (%(ilo2)s)%%Z.
  Definition g_ihi2 (Na Nk : Z) : Z := (%(ihi2)s)%%Z.
  Definition g_jlo2 (Na Nk : Z) : Z := (%(jlo2)s)%%Z.
  Definition g_jhi2 (Na Nk : Z) : Z := (%(jhi2)s)%%Z.
  Definition g_g1 (i j : nat) : bool := %(g1)s.
  Definition g_g2 (i j : nat) : bool := %(g2)s.
  Definition g_g3 (i j : nat) : bool := %(g3)s.
  Definition g_term (KI cc : nat -> @mat R) (k i j : nat) : R := %(term)s.
  Definition g_t1 (i j : nat) : nat * nat := (%(t1r)s, %(t1c)s).
  Definition g_r1 (i j : nat) : nat * nat := (%(r1r)s, %(r1c)s).
  Definition g_r2 (i j : nat) : nat * nat := (%(r2r)s, %(r2c)s).
  Definition g_r3 (i j : nat) : nat * nat := (%(r3r)s, %(r3c)s).
  Definition g_r4 (i j : nat) : nat * nat := (%(r4r)s, %(r4c)s).
  Definition g_r5 (i j : nat) : nat * nat := (%(r5r)s, %(r5c)s).
  Definition g_zero : R := %(zero)s.
  Definition g_flags : list (Z * Z) := [(%(w0)s, %(v0)s); (%(w1)s, %(v1)s)]%%Z.
  Definition gen_ss (Na Nk : nat) (KI cc : nat -> @mat R) (RR0 : @mat R) : @mat R * bool * bool :=
    let a := Z.of_nat Na in let k := Z.of_nat Nk in
    ss_skel ltz small (g_klo a k) (g_khi a k) (g_ilo1 a k) (g_ihi1 a k) (g_jlo1 a k) (g_jhi1 a k) (g_ilo2 a k) (g_ihi2 a k) (g_jlo2 a k) (g_jhi2 a k)
            g_g1 g_g2 g_g3 (g_term KI cc) g_t1 g_r1 g_r2 g_r3 g_r4 g_r5 g_zero RR0.
  Lemma gen_ss_is_model : forall Na Nk (KI cc : nat -> @mat R) RR0,
    (forall i j, (i < Na)%%nat -> (j < Na)%%nat -> fst (fst (gen_ss Na Nk KI cc RR0)) i j = ss_rate ltz small Na Nk KI cc RR0 i j) /\\
    snd (fst (gen_ss Na Nk KI cc RR0)) = werror0 ltz Na Nk KI cc RR0 /\\
    snd (gen_ss Na Nk KI cc RR0) = werror1 ltz small Na Nk KI cc RR0.
  Proof.
    intros Na Nk KI cc RR0. unfold gen_ss. cbv zeta.
    apply (ss_skel_is_model ltz small _ _ _ _ _ _ _ _ _ _ g_g1 g_g2 g_g3 (g_term KI cc) g_t1 g_r1 g_r2 g_r3 g_r4 g_r5 g_zero Na Nk KI cc);
      unfold g_klo, g_khi, g_ilo1, g_ihi1, g_jlo1, g_jhi1, g_ilo2, g_ihi2, g_jlo2, g_jhi2, g_g1, g_g2, g_g3, g_term, g_t1, g_r1, g_r2, g_r3, g_r4, g_r5, g_zero;
      intros; first [reflexivity | lia | ring | guard_tac].
  Qed.
  (* the flags that are set are werror[0] and werror[1], to -1 (what _set_rates tests) *)
  Lemma gen_ss_flags : g_flags = [(0, -1); (1, -1)]%%Z.
  Proof. reflexivity. Qed.
End GenSs.
"""


def ss_kernel(repo):
    env = match(repo + "/quantarhei/implementations/python/redfieldrates.py", "ssRedfieldRateMatrix", T_SS)
    out = {}
    zn = {"Na": "Na", "Nk": "Nk"}
    out["klo"], out["khi"] = zrange(env["H_kiter"], zn, ("range", "block_distributed_range"))
    out["ilo1"], out["ihi1"] = zrange(env["H_i1"], zn)
    out["jlo1"], out["jhi1"] = zrange(env["H_j1"], zn)
    out["ilo2"], out["ihi2"] = zrange(env["H_i2"], zn)
    out["jlo2"], out["jhi2"] = zrange(env["H_j2"], zn)
    n1 = locals_of(env, L_i="i", L_j="j")
    n2 = locals_of(env, L_i2="i", L_j2="j")
    k = nat_index(env["H_kk"], locals_of(env, L_k="k"))
    out["g1"] = nat_guard(env["H_g1"], n1)
    out["g2"], out["g3"] = nat_guard(env["H_g2"], n2), nat_guard(env["H_g3"], n2)
    names = dict(n1)
    names.update({env["L_k"]: "k", "cc": "cc", env["L_KK"]: "(KI %s)" % k, "KI": "KI"})
    out["term"] = RExpr(names).e(env["H_term"])
    out["t1r"], out["t1c"] = nat_index(env["H_t1r"], n1), nat_index(env["H_t1c"], n1)
    for h in ("r1", "r2", "r3", "r4", "r5"):
        out[h + "r"], out[h + "c"] = nat_index(env["H_%sr" % h], n2), nat_index(env["H_%sc" % h], n2)
    out["zero"] = RExpr({}).e(env["H_zero"])
    for h in ("w0", "v0", "w1", "v1"):
        out[h] = Expr("Z", {}).e(env["H_" + h])
    return SS_TEXT % out, ["implementations/python/redfieldrates.py:ssRedfieldRateMatrix (both loop nests, clamp, flags)"]


# ----------------------------------------------------------------------------------------------- _set_rates
T_SETRATES = '''
def _set_rates(self):
    Na = self.ham._data.shape[0]
    Nk = self.sbi.N
    if Nk <= 0:
        raise Exception("No system bath intraction components present")
    hD, SS = numpy.linalg.eigh(self.ham._data)
    S1 = numpy.linalg.inv(SS)
    KI = self.sbi.KK.copy()
    freq_cutoff = H_cut
    Temp = self.sbi.CC.get_correlation_function(0, 0).temperature
    for L_t in H_titer:
        KI[H_ti, :, :] = H_trans
    Om = numpy.zeros((Na, Na))
    for L_a in H_aiter:
        for L_b in H_biter:
            Om[H_oma, H_omb] = H_om
    cc = numpy.zeros((Nk, Na, Na), dtype=REAL)
    for L_k in H_kiter:
        cf = self.sbi.CC.get_correlation_function(H_c1, H_c2)
        cw = cf.get_Fourier_transform()
        for L_i in H_iiter:
            for L_j in H_jiter:
                S_tree
    self.data = numpy.zeros((Na, Na), dtype=REAL)
    werror = numpy.zeros(2, dtype=numpy.int8)
    rtol = H_rtol
    ssRedfieldRateMatrix(Na, Nk, KI, cc, rtol, werror, self.data)
    if werror[1] == -1:
        print("Warning: Redfield rates signicantly smaller than 0")
    self._is_initialized = True
'''

SETRATES_TEXT = """
(* ---- rates/redfieldrates.py: RedfieldRateMatrix._set_rates ---- *)
Section GenSetRates.
  Context {R : StarRing}.
  Add Ring Rgr : (rth R).
  Variable ltz small gt_cut : R -> bool.
  Variable cw : nat -> R -> R.
  Variable boltz : R -> R.
  (* loop bounds: operator transformation, frequency table (a, b), bath values (k, i, j) *)
  Definition g_sr_bounds (Na Nk : Z) : list (Z * Z) := [%(bounds)s]%%Z.
  Lemma gen_set_rates_bounds : forall Na Nk, g_sr_bounds Na Nk = [(0, Nk); (0, Na); (0, Na); (0, Nk); (0, Na); (0, Na)]%%Z.
  Proof. intros. unfold g_sr_bounds. repeat f_equal; lia. Qed.
  (* KI[t] = S1 . KI[t] . SS for the loop variable t;  Om[a,b] for the loop variables a, b;  the correlation function (k,k) for the loop variable k *)
  Definition g_sr_targets (t a b k : nat) : list nat := [%(ti)s; %(oma)s; %(omb)s; %(c1)s; %(c2)s].
  Lemma gen_set_rates_targets : forall t a b k, g_sr_targets t a b k = [t; a; b; k; k].
  Proof. reflexivity. Qed.
  Definition g_KI (n : nat) (S1 S : @mat R) (K : nat -> @mat R) (t : nat) : @mat R := %(trans)s.
  Definition g_Om (hD : nat -> R) (a b : nat) : R := %(om)s.
  Definition g_cc (hD : nat -> R) (k i j : nat) : R := %(tree)s.
  Lemma gen_Om_is_model : forall hD a b, g_Om hD a b = Om hD a b.
  Proof. intros. unfold g_Om, Om. ring. Qed.
  Lemma gen_cc_is_model : forall hD k i j, g_cc hD k i j = cc_table ltz gt_cut cw boltz hD k i j.
  Proof.
    intros. unfold g_cc, cc_table.
    repeat match goal with |- context [g_Om ?h ?a ?b] => rewrite (gen_Om_is_model h a b) end.
    tree_tac.
  Qed.
  Lemma gen_KI_is_model : forall n S1 S K k i j, g_KI n S1 S K k i j = KI_of n S1 S K k i j.
  Proof. intros. reflexivity. Qed.
  (* the rate matrix: the kernel (as generated above from its own source) run on these operators and bath values, from a zero matrix *)
  Definition gen_set_rates (Na Nk : nat) (S1 S : @mat R) (K : nat -> @mat R) (hD : nat -> R) : @mat R :=
    fst (fst (gen_ss ltz small Na Nk (g_KI Na S1 S K) (g_cc hD) (fun _ _ => r0 R))).
  Theorem gen_set_rates_is_model : forall Na Nk S1 S K hD i j, (i < Na)%%nat -> (j < Na)%%nat ->
    gen_set_rates Na Nk S1 S K hD i j = redfield_rates ltz small gt_cut cw boltz Na Nk S1 S K hD i j.
  Proof.
    intros Na Nk S1 S K hD i j Hi Hj. unfold gen_set_rates.
    destruct (gen_ss_is_model ltz small Na Nk (g_KI Na S1 S K) (g_cc hD) (fun _ _ => r0 R)) as [H _]. rewrite (H i j Hi Hj).
    apply set_rates_compose; [exact Hi|exact Hj|]. intros k a b _ _ _. split; [apply gen_KI_is_model|apply gen_cc_is_model].
  Qed.
End GenSetRates.
"""


def _pat(src, node, env=None):
    """unify the expression pattern src with node; returns the hole bindings or None"""
    e = {} if env is None else env
    try:
        unify(_expr_of(src), node, e)
    except Untranslatable:
        return None
    return e


def set_rates(repo):
    env = match(repo + "/quantarhei/qm/liouvillespace/rates/redfieldrates.py", "RedfieldRateMatrix._set_rates", T_SETRATES)
    out = {}
    zn = {"Na": "Na", "Nk": "Nk"}
    bounds = []
    for h in ("H_titer", "H_aiter", "H_biter", "H_kiter", "H_iiter", "H_jiter"):
        bounds.append("(%s, %s)" % zrange(env[h], zn))
    out["bounds"] = "; ".join(bounds)
    const_only(env["H_cut"], ("cm2int",))
    const_only(env["H_rtol"])
    out["ti"] = nat_index(env["H_ti"], locals_of(env, L_t="t"))
    ab = locals_of(env, L_a="a", L_b="b")
    out["oma"], out["omb"] = nat_index(env["H_oma"], ab), nat_index(env["H_omb"], ab)
    kk = locals_of(env, L_k="k")
    out["c1"], out["c2"] = nat_index(env["H_c1"], kk), nat_index(env["H_c2"], kk)
    # operator transformation: numpy.dot over S1, SS and the slice KI[t,:,:]
    tname = env["L_t"]

    def mat(node):
        if isinstance(node, ast.Name) and node.id in ("S1", "SS"):
            return "S1" if node.id == "S1" else "S"
        p = _pat("KI[H_x, :, :]", node)
        if p is not None:
            if not (isinstance(p["H_x"], ast.Name) and p["H_x"].id == tname):
                raise Untranslatable("operator slice %s" % ast.unparse(node))
            return "(K t)"
        p = _pat("numpy.dot(H_a, H_b)", node)
        if p is not None:
            return "(mmul n %s %s)" % (mat(p["H_a"]), mat(p["H_b"]))
        raise Untranslatable("operator transformation %s" % ast.unparse(node)[:80])
    out["trans"] = mat(env["H_trans"])
    ex_om = RExpr(dict(ab, hD="hD"))
    out["om"] = ex_om.e(env["H_om"])
    # the if-tree that fills cc[k,i,j]
    ij = locals_of(env, L_i="i", L_j="j")
    kname, iname, jname = env["L_k"], env["L_i"], env["L_j"]

    def omega(node):
        p = _pat("Om[H_x, H_y]", node)
        if p is None:
            raise Untranslatable("frequency %s" % ast.unparse(node))
        return "(g_Om hD %s %s)" % (nat_index(p["H_x"], ij), nat_index(p["H_y"], ij))

    def cond(node):
        p = _pat("numpy.abs(H_x) > freq_cutoff", node)
        if p is not None:
            return "(gt_cut %s)" % omega(p["H_x"])
        p = _pat("H_x < 0.0", node)
        if p is not None:
            return "(ltz %s)" % omega(p["H_x"])
        return nat_guard(node, ij)

    def value(node):
        if _num(node) == 0:
            return "(r0 R)"
        p = _pat("numpy.real(H_x)", node)
        if p is None:
            raise Untranslatable("bath value %s" % ast.unparse(node)[:80])
        return prod(p["H_x"])

    def prod(node):
        p = _pat('cw.at(H_x, approx="spline")', node)
        if p is not None:
            return "(cw k %s)" % omega(p["H_x"])
        p = _pat("numpy.exp(-H_x / (kB_intK * Temp))", node)
        if p is not None:
            return "(boltz %s)" % omega(p["H_x"])
        if isinstance(node, ast.BinOp) and isinstance(node.op, ast.Mult):
            return "(rmul R %s %s)" % (prod(node.left), prod(node.right))
        raise Untranslatable("bath value %s" % ast.unparse(node)[:80])

    def tree(stmts):
        stmts = _live(stmts)
        if not stmts:
            return "(r0 R)"                       # cc is created by numpy.zeros
        if len(stmts) != 1:
            raise Untranslatable("bath-value table: %d statements in one branch" % len(stmts))
        s = stmts[0]
        if isinstance(s, ast.If):
            return "(if %s then %s else %s)" % (cond(s.test), tree(s.body), tree(s.orelse))
        if isinstance(s, ast.Assign) and len(s.targets) == 1:
            p = _pat("cc[H_k, H_i, H_j]", s.targets[0])
            if p is None or [getattr(p[h], "id", None) for h in ("H_k", "H_i", "H_j")] != [kname, iname, jname]:
                raise Untranslatable("bath-value table: assignment to %s" % ast.unparse(s.targets[0]))
            return value(s.value)
        raise Untranslatable("bath-value table: statement %s" % ast.unparse(s)[:80])
    out["tree"] = tree([env["S_tree"]])
    return SETRATES_TEXT % out, ["rates/redfieldrates.py:RedfieldRateMatrix._set_rates (operator transformation, frequency table, "
                                 "bath-value if-tree, hand-over to ssRedfieldRateMatrix)"]


# ----------------------------------------------------------------------------------------------- Foerster
T_FO = '''
def _reference_implementation(Na, HH, tt, gt, ll):
    KK = numpy.zeros((H_n1, H_n2), dtype=numpy.float64)
    for L_a in H_aiter:
        for L_b in H_biter:
            if H_g:
                L_ed = H_ed
                L_ea = H_ea
                KK[H_tr, H_tc] = H_val
    Kaa = 0.0
    for L_c in H_citer:
        Kaa = numpy.sum(KK[:, H_col])
        KK[H_dr, H_dc] = H_neg
    return KK
'''

T_FINT = '''
def _fintegral(tt, gtd, gta, ed, ea, ld):
    prod = numpy.exp(H_expo)
    preal = numpy.real(prod)
    pimag = numpy.imag(prod)
    splr = interp.UnivariateSpline(tt, preal, s=0).antiderivative()(tt)
    spli = interp.UnivariateSpline(tt, pimag, s=0).antiderivative()(tt)
    hoft = splr + 1j * spli
    ret = 2.0 * numpy.real(hoft[len(tt) - 1])
    return ret
'''

FO_TEXT = """
(* ---- rates/foersterrates.py: _reference_implementation, _fintegral ---- *)
Section GenFoerster.
  Context {R : StarRing}.
  Add Ring Rgf : (rth R).
  Variable G : Type.
  Variable fint : G -> G -> R -> R -> R -> R.       (* _fintegral(tt, gtd, gta, ed, ea, ld) *)
    Definition g_fo_shape (Na : nat) : nat * nat := (%(n1)s, %(n2)s).
  Definition g_fo_g (a b : nat) : bool := %(g)s.
  Definition g_fo_t (a b : nat) : nat * nat := (%(tr)s, %(tc)s).
  Definition g_fo_val (gt : nat -> G) (HH : @mat R) (ll : nat -> R) (a b : nat) : R :=
    let ed := %(ed)s in let ea := %(ea)s in %(val)s.
  Definition g_fo_col (c : nat) : nat := %(col)s.
  Definition g_fo_d (c : nat) : nat * nat := (%(dr)s, %(dc)s).
  Definition g_fo_neg (Kaa : R) : R := %(neg)s.
  Definition gen_foerster (Na : nat) (gt : nat -> G) (HH : @mat R) (ll : nat -> R) : @mat R :=
    let z := Z.of_nat Na in
    fo_skel (%(alo)s)%%Z (%(ahi)s)%%Z (%(blo)s)%%Z (%(bhi)s)%%Z (%(clo)s)%%Z (%(chi)s)%%Z (fst (g_fo_shape Na)) g_fo_g g_fo_t (g_fo_val gt HH ll) g_fo_col g_fo_d g_fo_neg.
  Theorem gen_foerster_is_model : forall Na gt HH ll a b, (a < Na)%%nat -> (b < Na)%%nat ->
    gen_foerster Na gt HH ll a b = foerster_rates Na HH (foerster_F fint gt HH ll) a b.
  Proof.
    intros Na gt HH ll a b Ha Hb. unfold gen_foerster. cbv zeta.
    apply (fo_skel_is_model _ _ _ _ _ _ _ g_fo_g g_fo_t (g_fo_val gt HH ll) g_fo_col g_fo_d g_fo_neg Na HH (foerster_F fint gt HH ll));
      unfold g_fo_shape, g_fo_g, g_fo_t, g_fo_val, g_fo_col, g_fo_d, g_fo_neg, foerster_F; cbn [fst snd]; cbv zeta;
      intros; first [assumption | reflexivity | lia | ring | guard_tac].
  Qed.
  (* the exponent of the integrand: -gtd - gta + 1j * phase * tt *)
  Definition g_fo_lineshapes : list nat := [%(ga)s; %(gb)s]%%nat.          (* 0 = gtd, 1 = gta *)
  Definition g_fo_phase (two ed ea ld : R) : R := %(phase)s.
  Lemma gen_fintegral_is_model : (g_fo_lineshapes = [0; 1] \\/ g_fo_lineshapes = [1; 0])%%nat /\\
    forall two ed ea ld, g_fo_phase two ed ea ld = foerster_phase two ed ea ld.
  Proof. split; [first [left; reflexivity | right; reflexivity]|]. intros. unfold g_fo_phase, foerster_phase. ring. Qed.
End GenFoerster.
"""


def foerster(repo):
    f = repo + "/quantarhei/qm/liouvillespace/rates/foersterrates.py"
    env = match(f, "_reference_implementation", T_FO)
    out = {}
    zn = {"Na": "z"}
    (out["alo"], out["ahi"]), (out["blo"], out["bhi"]), (out["clo"], out["chi"]) = [zrange(env[h], zn) for h in ("H_aiter", "H_biter", "H_citer")]
    for h in ("n1", "n2"):
        if not (isinstance(env["H_" + h], ast.Name) and env["H_" + h].id == "Na"):
            raise Untranslatable("shape of the rate matrix: %s" % ast.unparse(env["H_" + h]))
        out[h] = "Na"
    ab = locals_of(env, L_a="a", L_b="b")
    out["g"] = nat_guard(env["H_g"], ab)
    out["tr"], out["tc"] = nat_index(env["H_tr"], ab), nat_index(env["H_tc"], ab)
    exr = RExpr(dict(ab, HH="HH"))
    out["ed"], out["ea"] = exr.e(env["H_ed"]), exr.e(env["H_ea"])
    edn, ean = env["L_ed"], env["L_ea"]

    def val(node):
        p = _pat("_fintegral(tt, gt[H_a, :], gt[H_b, :], H_ed, H_ea, ll[H_l])", node)
        if p is not None:
            en = {edn: "ed", ean: "ea"}
            for h in ("H_ed", "H_ea"):
                if not (isinstance(p[h], ast.Name) and p[h].id in en):
                    raise Untranslatable("energy argument %s" % ast.unparse(p[h]))
            return "(fint (gt %s) (gt %s) %s %s (ll %s))" % (nat_index(p["H_a"], ab), nat_index(p["H_b"], ab), en[p["H_ed"].id], en[p["H_ea"].id],
                                                          nat_index(p["H_l"], ab))
        if isinstance(node, ast.BinOp) and isinstance(node.op, ast.Mult):
            return "(rmul R %s %s)" % (val(node.left), val(node.right))
        return exr.e(node)
    out["val"] = val(env["H_val"])
    cn = locals_of(env, L_c="c")
    out["col"] = nat_index(env["H_col"], cn)
    out["dr"], out["dc"] = nat_index(env["H_dr"], cn), nat_index(env["H_dc"], cn)
    out["neg"] = RExpr({"Kaa": "Kaa"}).e(env["H_neg"])
    env = match(f, "_fintegral", T_FINT)
    p = _pat("-H_a - H_b + 1j * H_phase * tt", env["H_expo"])
    if p is None:
        raise Untranslatable("_fintegral exponent %s" % ast.unparse(env["H_expo"]))
    for h, k in (("H_a", "ga"), ("H_b", "gb")):
        if not (isinstance(p[h], ast.Name) and p[h].id in ("gtd", "gta")):
            raise Untranslatable("_fintegral line-shape function %s" % ast.unparse(p[h]))
        out[k] = {"gtd": "0", "gta": "1"}[p[h].id]
    out["phase"] = RExpr({"ed": "ed", "ea": "ea", "ld": "ld"}, consts={2: "two"}).e(p["H_phase"])
    return FO_TEXT % out, ["rates/foersterrates.py:_reference_implementation (transfer nest, depopulation loop)",
                           "rates/foersterrates.py:_fintegral (exponent of the integrand)"]


# ----------------------------------------------------------------------------------------------- spectral densities
SD_TEXT = """
(* ---- corfunctions/spectraldensities.py: the analytic formulas ---- *)
Local Open Scope Q_scope.
Definition g_sd_overdamped (lamb ctime w : Q) : Q := %(od)s.
Definition g_sd_underdamped_brownian (lamb gamma w0 w : Q) : Q := %(ub)s.
Definition g_sd_underdamped (lamb gamma w0 w : Q) : Q := %(ud)s.
Lemma gen_sd_overdamped_is_model : forall lamb ctime w, ~ ctime == 0 -> g_sd_overdamped lamb ctime w == sd_overdamped lamb ctime w.
Proof. intros lamb ctime w Hc. unfold g_sd_overdamped, sd_overdamped. first [reflexivity | sd_tac]. Qed.
Lemma gen_sd_underdamped_brownian_is_model : forall lamb gamma w0 w, ~ w0 == 0 -> ~ gamma == 0 ->
  g_sd_underdamped_brownian lamb gamma w0 w == sd_underdamped_brownian lamb gamma w0 w.
Proof. intros lamb gamma w0 w H0 Hg. unfold g_sd_underdamped_brownian, sd_underdamped_brownian. first [reflexivity | sd_tac]. Qed.
Lemma gen_sd_underdamped_is_model : forall lamb gamma w0 w, ~ w0 == 0 -> ~ gamma == 0 ->
  g_sd_underdamped lamb gamma w0 w == sd_underdamped lamb gamma w0 w.
Proof. intros lamb gamma w0 w H0 Hg. unfold g_sd_underdamped, sd_underdamped. first [reflexivity | sd_tac]. Qed.
"""


def _formula(repo, meth, keys):
    """the with energy_units("int") block of a _make_* method: omega = self.axis.data; cfce = <formula>; the formula is what is stored"""
    fn = _src_of(repo + "/quantarhei/qm/corfunctions/spectraldensities.py", "SpectralDensity." + meth)
    names = {}
    for node in ast.walk(fn):
        if isinstance(node, ast.Assign) and len(node.targets) == 1 and isinstance(node.targets[0], ast.Name):
            p = _pat("params[H_key]", node.value)
            if p is not None and isinstance(p["H_key"], ast.Constant):
                key = p["H_key"].value
                if key in keys:
                    if node.targets[0].id in names and names[node.targets[0].id] != keys[key]:
                        raise Untranslatable("%s: %s bound to two parameters" % (meth, node.targets[0].id))
                    names[node.targets[0].id] = keys[key]
    blocks = [s for s in _live(fn.body) if isinstance(s, ast.With)]
    if len(blocks) != 1 or ast.unparse(blocks[0].items[0].context_expr) != "energy_units('int')":
        raise Untranslatable("%s: the block protected from units management" % meth)
    body = _live(blocks[0].body)
    if not (len(body) == 2 and isinstance(body[0], ast.Assign) and isinstance(body[0].targets[0], ast.Name) and ast.unparse(body[0].value) == "self.axis.data"
            and isinstance(body[1], ast.Assign) and isinstance(body[1].targets[0], ast.Name)):
        raise Untranslatable("%s: statements of the protected block" % meth)
    wname, fname = body[0].targets[0].id, body[1].targets[0].id
    if wname in names or fname in names:
        raise Untranslatable("%s: a parameter name is reused" % meth)
    # what is stored when no values are given: the formula (added to or made the data: how components are composed is C09's subject)
    stores = [n for n in ast.walk(fn) if isinstance(n, ast.Call) and ast.unparse(n.func) in ("self._add_me", "self._make_me")]
    ok = False
    for store in ("_add_me", "_make_me"):
        if sorted(ast.unparse(c) for c in stores) == sorted(["self.%s(self.axis, values)" % store, "self.%s(self.axis, %s)" % (store, fname)]):
            tests = [s for s in _live(fn.body) if isinstance(s, ast.If) and ast.unparse(s.test) == "values is not None"]
            ok = (len(tests) == 1 and len(tests[0].orelse) == 1 and ast.unparse(tests[0].orelse[0]) == "self.%s(self.axis, %s)" % (store, fname)
                  and len(tests[0].body) == 1 and ast.unparse(tests[0].body[0]) == "self.%s(self.axis, values)" % store)
    if not ok:
        raise Untranslatable("%s: the formula is not what is stored when no values are given (%s)" % (meth, "; ".join(ast.unparse(c) for c in stores)))
    names[wname] = "w"
    return QExpr(names).e(body[1].value)


def spectral_densities(repo):
    out = {}
    fn = _src_of(repo + "/quantarhei/qm/corfunctions/spectraldensities.py", "SpectralDensity._make_overdamped_brownian")
    # ctime = params["cortime"], or 1/gamma when only gamma is given
    tr = [s for s in _live(fn.body) if isinstance(s, ast.Try)]
    if not (len(tr) == 1 and len(tr[0].handlers) == 1 and [ast.unparse(s) for s in _live(tr[0].body)] == ["ctime = params['cortime']"]
            and [ast.unparse(s) for s in _live(tr[0].handlers[0].body)] == ["gamma = params['gamma']", "ctime = 1 / gamma"]):
        raise Untranslatable("_make_overdamped_brownian: correlation time from the parameters")
    out["od"] = _formula(repo, "_make_overdamped_brownian", {"cortime": "ctime", "reorg": "lamb"})
    out["ub"] = _formula(repo, "_make_underdamped_brownian", {"gamma": "gamma", "freq": "w0", "reorg": "lamb"})
    out["ud"] = _formula(repo, "_make_underdamped", {"gamma": "gamma", "freq": "w0", "reorg": "lamb"})
    return SD_TEXT % out, ["corfunctions/spectraldensities.py:_make_overdamped_brownian / _make_underdamped_brownian / _make_underdamped (formulas)"]


# ----------------------------------------------------------------------------------------------- get_FTCorrelationFunction
T_FT = '''
def get_FTCorrelationFunction(self, temperature=None):
    k = H_kinit
    newpars = []
    for prms in self.params:
        if H_cset:
            prms["T"] = H_vset
        if H_cfirst:
            temp = prms["T"]
        elif temp != prms["T"]:
            raise Exception("Temperature of all components has to be the same")
        k += H_kinc
        newpars.append(prms)
    atol = H_atol
    twokbt = H_twokbt
    with energy_units("int"):
        ind_of_zero, diff = self.axis.locate(0.0)
        if numpy.abs(diff) > atol:
            vals = H_direct
        else:
            data = self.data
            vals = numpy.zeros(self.data.shape)
            omega = self.axis.data[H_lo1:H_hi1]
            spect = data[H_lo1:H_hi1]
            auxi = H_f1
            vals[H_lo1:H_hi1] = auxi
            omega = self.axis.data[H_lo2:H_hi2]
            spect = data[H_lo2:H_hi2]
            auxi = H_f2
            vals[H_lo2:H_hi2] = auxi
            vals[H_iz] = H_lh
        ftc = FTCorrelationFunction(self.axis, newpars, values=vals)
    return ftc
'''

FT_TEXT = """
(* ---- corfunctions/spectraldensities.py: get_FTCorrelationFunction ---- *)
Definition g_ft_cset (arg p : option Q) : bool := %(cset)s.
Definition g_ft_vset (arg p : option Q) : option Q := %(vset)s.
Definition g_ft_cfirst (k : Z) : bool := (%(cfirst)s)%%Z.
Definition g_ft_knext (k : Z) : Z := (k + %(kinc)s)%%Z.
Definition g_ft_kinit : Z := (%(kinit)s)%%Z.
Definition gen_ft_temperature (arg : option Q) (ps : list (option Q)) : ft_temp := temp_skel g_ft_cset g_ft_vset g_ft_cfirst g_ft_knext g_ft_kinit arg ps.
Theorem gen_ft_temperature_is_model : forall arg ps, gen_ft_temperature arg ps = ft_temperature arg ps.
Proof.
  intros arg ps. unfold gen_ft_temperature. apply temp_skel_is_model; unfold g_ft_cset, g_ft_vset, g_ft_cfirst, g_ft_knext, g_ft_kinit;
    intros; first [reflexivity | lia | (repeat match goal with x : option Q |- _ => destruct x end; reflexivity)
                   | (apply Bool.eq_iff_eq_true; rewrite ?Z.eqb_eq; lia)].
Qed.
Definition g_ft_twokbt (kB T : Q) : Q := %(twokbt)s.
Lemma gen_ft_twokbt_is_model : forall kB T, g_ft_twokbt kB T == ftcf_twokbt kB T.
Proof. intros. unfold g_ft_twokbt, ftcf_twokbt. ring. Qed.
Definition g_ft_direct (th : Q -> Q) (twokbt w J : Q) : Q := %(direct)s.
Definition g_ft_f1 (th : Q -> Q) (twokbt w J : Q) : Q := %(f1)s.
Definition g_ft_f2 (th : Q -> Q) (twokbt w J : Q) : Q := %(f2)s.
Definition g_ft_zero (twokbt step : Q) (i0 : Z) (data : nat -> Q) : Q := %(lh)s.
Definition gen_ft_grid (th : Q -> Q) (twokbt step : Q) (i0 n : nat) (direct : bool) (axis data : nat -> Q) : nat -> Q :=
  let ind_of_zero := Z.of_nat i0 in let length := Z.of_nat n in
  grid_skel (g_ft_direct th twokbt) (g_ft_f1 th twokbt) (g_ft_f2 th twokbt) (g_ft_zero twokbt step ind_of_zero)
            (%(lo1)s)%%Z (%(hi1)s)%%Z (%(lo2)s)%%Z (%(hi2)s)%%Z (%(iz)s)%%Z direct axis data.
Theorem gen_ft_grid_is_model : forall th twokbt step i0 n direct axis data i, (1 <= i0)%%nat -> (i < n)%%nat ->
  gen_ft_grid th twokbt step i0 n direct axis data i == ftcf_grid th twokbt step i0 direct axis data i.
Proof.
  intros th twokbt step i0 n direct axis data i H0 Hi. unfold gen_ft_grid. cbv zeta.
  apply (grid_skel_is_model _ _ _ _ _ _ _ _ _ th twokbt step i0 n); try exact Hi; try lia;
    intros; unfold g_ft_direct, g_ft_f1, g_ft_f2, g_ft_zero, ftcf_point, ftcf_value, ftcf_zero;
    repeat match goal with |- context [Z.to_nat ?e] =>
             first [replace (Z.to_nat e) with (S i0) by lia | replace (Z.to_nat e) with (pred i0) by lia] end;
    first [reflexivity | ring].
Qed.
"""


def ft_correlation_function(repo):
    env = match(repo + "/quantarhei/qm/corfunctions/spectraldensities.py", "SpectralDensity.get_FTCorrelationFunction", T_FT)
    out = {}

    def optb(node):
        if isinstance(node, ast.Compare) and len(node.ops) == 1:
            l, op, r = node.left, node.ops[0], node.comparators[0]
            if isinstance(l, ast.Name) and l.id == "temperature" and isinstance(r, ast.Constant) and r.value is None:
                if isinstance(op, ast.IsNot):
                    return "(match arg with Some _ => true | None => false end)"
                if isinstance(op, ast.Is):
                    return "(match arg with Some _ => false | None => true end)"
            if isinstance(l, ast.Constant) and l.value == "T" and isinstance(r, ast.Name) and r.id == "prms":
                if isinstance(op, ast.In):
                    return "(match p with Some _ => true | None => false end)"
                if isinstance(op, ast.NotIn):
                    return "(match p with Some _ => false | None => true end)"
        if isinstance(node, ast.BoolOp):
            return "(" + (" && " if isinstance(node.op, ast.And) else " || ").join(optb(v) for v in node.values) + ")"
        if isinstance(node, ast.UnaryOp) and isinstance(node.op, ast.Not):
            return "(negb %s)" % optb(node.operand)
        raise Untranslatable("condition on the temperature %s" % ast.unparse(node))
    out["cset"] = optb(env["H_cset"])
    if isinstance(env["H_vset"], ast.Name) and env["H_vset"].id == "temperature":
        out["vset"] = "arg"
    elif ast.unparse(env["H_vset"]) == "prms['T']":
        out["vset"] = "p"
    else:
        raise Untranslatable("temperature stored: %s" % ast.unparse(env["H_vset"]))
    exz = Expr("Z", {"k": "k"})
    out["cfirst"] = exz.b(env["H_cfirst"])
    out["kinc"], out["kinit"] = Expr("Z", {}).e(env["H_kinc"]), Expr("Z", {}).e(env["H_kinit"])
    const_only(env["H_atol"])
    out["twokbt"] = QExpr({"kB_int": "kB", "temp": "T"}).e(env["H_twokbt"])
    calls = {"numpy.tanh": "th"}
    out["direct"] = QExpr({"twokbt": "twokbt"}, calls, {"self.axis.data": "w", "self.data": "J"}).e(env["H_direct"])
    for h in ("f1", "f2"):
        out[h] = QExpr({"twokbt": "twokbt", "omega": "w", "spect": "J"}, calls).e(env["H_" + h])
    zn = {"ind_of_zero": "ind_of_zero"}
    za = {"self.axis.length": "length"}
    for h in ("lo1", "hi1", "lo2", "hi2", "iz"):
        out[h] = Expr("Z", zn, attrs=za).e(env["H_" + h])

    def sub(node):
        if isinstance(node.value, ast.Name) and node.value.id == "data":
            return "(data (Z.to_nat (%s)%%Z))" % Expr("Z", {"ind_of_zero": "i0"}).e(node.slice)
        raise Untranslatable("subscript %s" % ast.unparse(node))
    out["lh"] = QExpr({"twokbt": "twokbt"}, {}, {"self.axis.step": "step"}, subs=sub).e(env["H_lh"])
    return FT_TEXT % out, ["corfunctions/spectraldensities.py:SpectralDensity.get_FTCorrelationFunction (temperature loop, twokbt, values on both "
                           "sides of zero, L'Hospital point, slice bounds)"]


HEAD = """(* GENERATED on every run by harness/translate_c06.py from the current source of
   quantarhei/implementations/python/redfieldrates.py, quantarhei/qm/liouvillespace/rates/redfieldrates.py,
   quantarhei/qm/liouvillespace/rates/foersterrates.py and quantarhei/qm/corfunctions/spectraldensities.py.
   The statement skeletons were matched node for node against templates; the arithmetic content below is the code's. *)
From Coq Require Import ZArith List Bool Arith Lia QArith Lqa.
From QV Require Import Base.Alg Base.Sums Base.Mat Model.C06 Proofs.C06 Proofs.C06gen.
Import ListNotations.
"""


def static(repo):
    parts, what = [HEAD], []
    for fn in (ss_kernel, set_rates, foerster, spectral_densities, ft_correlation_function):
        t, w = fn(repo)
        parts.append(t)
        what += w
    return "\n".join(parts), what


if __name__ == "__main__":
    import sys
    text, what = static(sys.argv[1] if len(sys.argv) > 1 else "/repo")
    print(text)
    print("(* %s *)" % "; ".join(what))
