# -*- coding: utf-8 -*-
"""C01 - relaxation generators preserve trace and Hermiticity.

Proof: coq/theories/Props/C01.v (assembly of Redfield / time-dependent Redfield / Lindblad tensors, rate-only
tensors completed by updateStructure, pure dephasing, Redfield-Foerster combination, secularisation, basis
transformation; all over any commutative *-ring, every size).
Tie: the real kernels (_loopit, both _convert_operators_2_tensor, LindbladForm, RelaxationTensor.secularize /
updateStructure / transform, add_dephasing, apply in operator form) are driven with small Gaussian-integer inputs and
compared with Model.C01 inside Coq with `=`; end to end, tensors built by OpenSystem.get_RelaxationTensor for random
aggregates are compared (1e-12 relative) with the model fed the run's own K_m, Lambda_m, rates.
Monitors: both identities on every tensor, every time index, outside and inside basis contexts; secular structure.
"""
import os
import sys
import json
import types

sys.path.insert(0, os.path.dirname(os.path.abspath(__file__)))
import common as cm

PID = "C01"
work = cm.reexec_isolated(PID)
args = cm.parse_args(sys.argv[1:])

import numpy as np


# ------------------------------------------------------------------ helpers
def reset_manager():
    import quantarhei as qr
    m = qr.Manager()
    m.basis_stack = [0]
    m.basis_transformations = [1]
    m.basis_registered = {}
    m._in_eigenbasis_of_context = False
    m.current_basis_operator = None


def trace_dev(d):
    d = d[None] if d.ndim == 4 else d
    return float(np.max(np.abs(np.einsum('taacd->tcd', d))))


def herm_dev(d):
    d = d[None] if d.ndim == 4 else d
    return float(np.max(np.abs(np.conj(d) - np.transpose(d, (0, 2, 1, 4, 3)))))


def secular_dev(d):
    d = d[None] if d.ndim == 4 else d
    n = d.shape[1]
    worst = 0.0
    for a in range(n):
        for b in range(n):
            for c in range(n):
                for e in range(n):
                    if not ((a == b and c == e) or (a == c and b == e)):
                        worst = max(worst, float(np.max(np.abs(d[:, a, b, c, e]))))
    return worst


def rint(r, lo=-3, hi=3):
    return r.randint(lo, hi)


def rmat(r, n, cplx=False):
    if cplx:
        return [[complex(rint(r), rint(r)) for _ in range(n)] for _ in range(n)]
    return [[float(rint(r)) for _ in range(n)] for _ in range(n)]


def signed_perm(r, n):
    p = list(range(n))
    r.shuffle(p)
    S = np.zeros((n, n))
    for k in range(n):
        S[p[k], k] = r.choice([1.0, -1.0])
    return S


def zpair(z):
    return cm.gz(z)


def l2(a):
    return cm.clist([cm.clist([zpair(x) for x in row]) for row in np.asarray(a)])


def l3(a):
    return cm.clist([l2(x) for x in np.asarray(a)])


def l4(a):
    a = np.asarray(a)
    return cm.clist([cm.clist([l2(a[i, j]) for j in range(a.shape[1])]) for i in range(a.shape[0])])


def q2(a):
    return cm.clist([cm.clist([cm.gq(x) for x in row]) for row in np.asarray(a)])


def q3(a):
    return cm.clist([q2(x) for x in np.asarray(a)])


def q4(a):
    a = np.asarray(a)
    return cm.clist([cm.clist([q2(a[i, j]) for j in range(a.shape[1])]) for i in range(a.shape[0])])


EMPTY2, EMPTY3, EMPTY4 = "[]", "[]", "[]"


def zcase(kind, n, nb, K=None, L=None, Ld=None, M=None, T=None, out=None, outm=None):
    return "(mkCase01 %s %d%%nat %d%%nat %s %s %s %s %s %s %s)" % (
        kind, n, nb, l3(K) if K is not None else EMPTY3, l3(L) if L is not None else EMPTY3,
        l3(Ld) if Ld is not None else EMPTY3, l2(M) if M is not None else EMPTY2,
        l4(T) if T is not None else EMPTY4, l4(out) if out is not None else EMPTY4,
        l2(outm) if outm is not None else EMPTY2)


def qcase(kind, n, nb, K=None, L=None, M=None, T=None, out=None, tol=0):
    return "(mkCase01q %s %d%%nat %d%%nat %s %s %s %s %s %s)" % (
        kind, n, nb, q3(K) if K is not None else EMPTY3, q3(L) if L is not None else EMPTY3,
        q2(M) if M is not None else EMPTY2, q4(T) if T is not None else EMPTY4,
        q4(out) if out is not None else EMPTY4, cm.qlit(tol))


# ------------------------------------------------------------------ generators (exact kernels)
KINDS = ["loopit", "convert", "tdconvert", "lindblad", "secular", "transform", "applyops", "update", "deph", "rfadd", "secular_in"]


def gen_exact(r, k):
    kind = KINDS[k % len(KINDS)]
    n = r.choice([1, 2, 2, 3, 3, 4]) if kind not in ("transform", "secular", "secular_in") else r.choice([1, 2, 2, 3])
    nb = r.choice([1, 2, 3])
    c = {"kind": kind, "n": n, "nb": nb, "seed": r.randrange(2 ** 30)}
    c["proper"] = r.random() < 0.7           # callers' Kd = K^T, Ld = L^dagger; else arbitrary matrices
    c["variant"] = r.randrange(4)
    return c


def build_ops(c):
    """random integer operator families for a case (deterministic from c['seed'])"""
    import random
    r = random.Random(c["seed"])
    n, nb = c["n"], c["nb"]
    K = np.array([rmat(r, n) for _ in range(nb)], dtype=np.float64)
    if c["kind"] == "tdconvert" and c["proper"]:
        K = K + np.transpose(K, (0, 2, 1))                 # the TD assembly needs symmetric K for Hermiticity
    L = np.array([rmat(r, n, True) for _ in range(nb)], dtype=np.complex128)
    if c["proper"]:
        Ld = np.conj(np.transpose(L, (0, 2, 1)))
    else:
        Ld = np.array([rmat(r, n, True) for _ in range(nb)], dtype=np.complex128)
    return r, K, L, Ld


def good_tensor(r, n):
    """an integer tensor having both identities (a Redfield assembly of random integer operators)"""
    from quantarhei.qm.liouvillespace.redfieldtensor import _loopit
    K = np.array([rmat(r, n)], dtype=np.float64)
    L = np.array([rmat(r, n, True)], dtype=np.complex128)
    Ld = np.conj(np.transpose(L, (0, 2, 1)))
    RR = np.zeros((n, n, n, n), dtype=np.complex128)
    _loopit(K, K[0].T.copy(), L, Ld, n, RR, 0)
    return RR


def stub_self(n, nb, nt=None):
    s = types.SimpleNamespace()
    s.Hamiltonian = types.SimpleNamespace(data=np.zeros((n, n)), dim=n)
    s.SystemBathInteraction = types.SimpleNamespace(N=nb)
    s.Nt = nt
    return s


def new_reltensor(data):
    from quantarhei.qm.liouvillespace.relaxationtensor import RelaxationTensor
    RT = RelaxationTensor()
    RT.dim = data.shape[-1]
    RT.data = data.copy()
    return RT


def run_exact(chk, c, zitems, qitems, zmeta, qmeta):
    """runs one exact kernel case on the implementation, appends Coq literals, evaluates monitors"""
    import quantarhei as qr
    from quantarhei.qm.liouvillespace import redfieldtensor as rft
    from quantarhei.qm.liouvillespace.tdredfieldtensor import TDRedfieldRelaxationTensor
    kind, n, nb = c["kind"], c["n"], c["nb"]
    r, K, L, Ld = build_ops(c)
    viol = None

    def mon(name, d, want_trace=True, want_herm=True):
        nonlocal viol
        if want_trace and trace_dev(d) != 0:
            viol = ("%s:trace" % name, "sum_a R[a,a,c,d] = %g != 0" % trace_dev(d))
        elif want_herm and herm_dev(d) != 0:
            viol = ("%s:hermiticity" % name, "max |conj R[a,b,c,d] - R[b,a,d,c]| = %g" % herm_dev(d))

    if kind == "loopit":
        Kd = K[0].T.copy() if c["proper"] else np.array(rmat(r, n))
        RR = np.zeros((n, n, n, n), dtype=np.complex128)
        rft._loopit(K[:1], Kd, L[:1], Ld[:1], n, RR, 0)
        mon("_loopit", RR, True, c["proper"])
        zitems.append(zcase("KLoopit", n, 1, K=K[:1], L=L[:1], Ld=Ld[:1], M=Kd, out=RR))
    elif kind == "convert":
        RR = rft.RedfieldRelaxationTensor._convert_operators_2_tensor(stub_self(n, nb), K, L, Ld)
        mon("Redfield._convert_operators_2_tensor", RR, True, c["proper"])
        zitems.append(zcase("KConvert", n, nb, K=K, L=L, Ld=Ld, out=RR))
    elif kind == "tdconvert":
        nt = 2
        Lt = np.array([L, np.array([rmat(r, n, True) for _ in range(nb)])])
        Ldt = np.conj(np.transpose(Lt, (0, 1, 3, 2))) if c["proper"] else np.array([Ld, Ld[::-1]])
        RR = TDRedfieldRelaxationTensor._convert_operators_2_tensor(stub_self(n, nb, nt), K, Lt, Ldt)
        mon("TDRedfield._convert_operators_2_tensor", RR, True, c["proper"])
        for tt in range(nt):
            zitems.append(zcase("KTdConvert", n, nb, K=K, L=Lt[tt], Ld=Ldt[tt], out=RR[tt]))
            zmeta.append(c)
        zmeta.pop()
    elif kind == "lindblad":
        from quantarhei.qm import LindbladForm, SystemBathInteraction, Operator
        rates = [float(2 * r.randint(0, 3)) for _ in range(nb)]
        if c["variant"] % 2 == 0:                      # projectors |a><b|
            K = np.zeros((nb, n, n))
            for m in range(nb):
                K[m, r.randrange(n), r.randrange(n)] = 1.0
        ham = qr.Hamiltonian(data=np.diag(np.arange(n, dtype=float)))
        sbi = SystemBathInteraction(sys_operators=[Operator(data=K[m].copy()) for m in range(nb)], rates=rates)
        LF = LindbladForm(ham, sbi, as_operators=False)
        d = np.array(LF.data)
        mon("LindbladForm", d)
        hg = [[complex(x / 2.0)] for x in rates]
        zitems.append(zcase("KLindblad", n, nb, K=K, M=hg, out=d))
        # operator form acts identically (C07) - compared through the model's apply_ops below as well
    elif kind == "secular":
        T = good_tensor(r, n) if c["proper"] else np.array(
            [[[[complex(rint(r), rint(r)) for _ in range(n)] for _ in range(n)] for _ in range(n)] for _ in range(n)])
        v = c["variant"]
        if v in (0, 1):
            RT = new_reltensor(T)
            RT.secularize(legacy=(v == 0))
            out = np.array(RT.data)
        elif v == 2:                                   # five-index (time dependent) data, legacy loop
            RT = new_reltensor(np.array([T, 2 * T]))
            RT.secularize()
            out = np.array(RT.data)[1] / 2
        else:
            stub = types.SimpleNamespace(as_operators=False, data=np.array([T, T]))
            TDRedfieldRelaxationTensor.secularize(stub)
            out = stub.data[0]
        n_ = n
        for a in range(n_):
            for b in range(n_):
                for cc in range(n_):
                    for e in range(n_):
                        keep = (a == b and cc == e) or (a == cc and b == e)
                        if keep and out[a, b, cc, e] != T[a, b, cc, e]:
                            viol = ("secularize:changed", "kept element R[%d,%d,%d,%d] changed" % (a, b, cc, e))
                        if (not keep) and out[a, b, cc, e] != 0:
                            viol = ("secularize:not_zeroed", "element R[%d,%d,%d,%d] = %r survives" % (a, b, cc, e, out[a, b, cc, e]))
        if c["proper"]:
            mon("secularize", out)
        zitems.append(zcase("KSecular", n, 1, T=T, out=out))
    elif kind == "secular_in":
        # a tensor created outside, secularised as the FIRST access inside a freshly entered context: the projection must act on
        # the representation of that context (exact: the context operator is a permuted diagonal matrix, so eigh returns a signed
        # permutation), and leaving the context must hand back the transformed-back secular tensor
        reset_manager()
        T = good_tensor(r, n)
        from quantarhei.qm.hilbertspace.operators import SelfAdjointOperator
        d = r.sample(range(-6, 9), n)
        v = c["variant"]
        dense = (v >= 2 and n >= 2)
        if dense:
            # a genuinely mixing basis (the secular index pattern is invariant under permutations, so permutation bases
            # cannot see in which basis the projection was applied): compared through the rational model
            A = np.array([[float(rint(r)) for _ in range(n)] for _ in range(n)])
            A = A + A.T + np.diag(np.arange(n, dtype=float) * 3)
            op = SelfAdjointOperator(data=A)
        else:
            op = SelfAdjointOperator(data=np.diag(np.array(d, dtype=float)))
        RT = new_reltensor(T if v % 2 == 0 else np.array([T, 2 * T]))
        with qr.eigenbasis_of(op):
            S = np.array(qr.Manager().basis_transformations[-1])
            RT.secularize()
            inside = np.array(RT.data)
        inside = inside if v % 2 == 0 else inside[1] / 2
        if dense:
            sc_ = max(1e-30, float(np.max(np.abs(inside))))
            if secular_dev(inside) > 1e-10 * sc_:
                viol = ("secularize:in_context", "secularize() called first thing inside a basis context (dense eigenbasis) leaves non-secular "
                        "elements of size %g (scale %g) in the basis of that context" % (secular_dev(inside), sc_))
            elif trace_dev(inside) > 1e-10 * sc_ or herm_dev(inside) > 1e-10 * sc_:
                viol = ("secularize:in_context:identities", "trace/Hermiticity identities lost: %g / %g" % (trace_dev(inside), herm_dev(inside)))
            qitems.append(qcase("QSecularIn", n, 1, M=S, T=T, out=inside, tol=1e-11 * sc_))
            qmeta.append(c)
            if viol:
                chk.violation("kernel:" + viol[0], "%s (case %s): %s" % (kind, json.dumps(c), viol[1]), "monitor", c)
            chk.count("kernel:" + kind + ":dense")
            chk.case(("exact", json.dumps(c, sort_keys=True)), True)
            reset_manager()
            return
        if not np.array_equal(np.abs(S), np.round(np.abs(S))):
            raise AssertionError("diagonaliser is not a signed permutation")
        if secular_dev(inside) != 0:
            viol = ("secularize:in_context", "secularize() called first thing inside a basis context leaves non-secular elements of size %g "
                    "in the basis of that context" % secular_dev(inside))
        mon("secularize(in context)", inside)
        zitems.append(zcase("KSecularIn", n, 1, M=S, T=T, out=inside))
        reset_manager()
    elif kind == "transform":
        T = good_tensor(r, n)
        S = signed_perm(r, n)
        v = c["variant"]
        if v == 0:
            RT = new_reltensor(T)
            RT.transform(S)
            out = np.array(RT._data)
        elif v == 1:
            RT = new_reltensor(np.array([T, 3 * T]))
            RT.transform(S, inv=S.T.copy())
            out = np.array(RT._data)[1] / 3
        elif v == 2:
            from quantarhei.qm.liouvillespace.superoperator import SuperOperator
            so = SuperOperator(data=T.copy())
            so.transform(S)
            out = np.array(so._data)
        else:
            stub = types.SimpleNamespace(_data_initialized=True, Nt=2, _data=np.array([T, T]), name="",
                                         manager=types.SimpleNamespace(warn_about_basis_change=False))
            TDRedfieldRelaxationTensor.transform(stub, S)
            out = stub._data[1]
        mon("transform", out)
        zitems.append(zcase("KTransform", n, 1, M=S, T=T, out=out))
    elif kind == "applyops":
        from quantarhei.qm import LindbladForm, SystemBathInteraction, Operator
        ham = qr.Hamiltonian(data=np.diag(np.arange(n, dtype=float)))
        sbi = SystemBathInteraction(sys_operators=[Operator(data=K[m].copy()) for m in range(nb)], rates=[2.0] * nb)
        LF = LindbladForm(ham, sbi, as_operators=True)
        LF.Km, LF.Lm, LF.Ld = K.copy(), L.copy(), Ld.copy()
        rho = np.array(rmat(r, n, True))
        import io
        import contextlib
        with contextlib.redirect_stdout(io.StringIO()):
            res = LF.apply(Operator(data=rho.copy()))
        outm = np.array(res._data)
        if c["proper"] and abs(np.trace(outm)) != 0:
            viol = ("apply:trace", "operator-form apply gives trace %r" % np.trace(outm))
        zitems.append(zcase("KApplyOps", n, nb, K=K, L=L, Ld=Ld, M=rho, outm=outm))
        # the same operators as a tensor, applied by tensordot (C07 in the small)
        RR = rft.RedfieldRelaxationTensor._convert_operators_2_tensor(stub_self(n, nb), K, L, Ld)
        if not np.array_equal(np.tensordot(RR, rho), outm):
            viol = ("apply:forms_differ", "operator form and tensor form act differently on an operator")
    elif kind == "update":
        if c["proper"]:
            T = np.zeros((n, n, n, n), dtype=np.complex128)
            for a in range(n):
                for b in range(n):
                    if a != b:
                        T[a, a, b, b] = float(r.randint(0, 5))
        else:
            T = np.array([[[[complex(rint(r), rint(r)) for _ in range(n)] for _ in range(n)] for _ in range(n)] for _ in range(n)])
        if c["variant"] % 2 == 0:
            RT = new_reltensor(T)
            RT.updateStructure()
            out = np.array(RT._data)
        else:
            RT = new_reltensor(np.array([T, T]))
            RT.updateStructure()
            out = np.array(RT._data)[1]
        if c["proper"]:
            mon("updateStructure", out)
        qitems.append(qcase("QUpdate", n, 1, T=T, out=out, tol=0))
        qmeta.append(c)
    elif kind == "deph":
        from quantarhei.qm.liouvillespace.foerstertensor import FoersterRelaxationTensor
        from quantarhei.qm.liouvillespace.tdfoerstertensor import TDFoersterRelaxationTensor
        nt = 3
        h = np.array([[complex(rint(r), rint(r)) for _ in range(nt)] for _ in range(n)])
        h[0, :] = 0

        class CC:
            def create_one_integral(self):
                pass

            def get_hoft(self, i, j):
                return h[i + 1, :]
        T = np.zeros((n, n, n, n), dtype=np.complex128)
        for a in range(n):
            for b in range(n):
                if a != b:
                    T[a, a, b, b] = float(r.randint(0, 4))
        RT0 = new_reltensor(T)
        RT0.updateStructure()
        T = np.array(RT0._data)
        sbi = types.SimpleNamespace(TimeAxis=types.SimpleNamespace(length=nt), CC=CC())
        if c["variant"] % 2 == 0:
            stub = types.SimpleNamespace(SystemBathInteraction=sbi, dim=n, data=T.copy())
            FoersterRelaxationTensor.add_dephasing(stub)
            out, hv = stub.data, h[:, nt - 1]
        else:
            stub = types.SimpleNamespace(SystemBathInteraction=sbi, dim=n, data=np.array([T, T, T]))
            TDFoersterRelaxationTensor.add_dephasing(stub)
            out, hv = stub.data[1], h[:, 1]
        mon("add_dephasing", out)
        qitems.append(qcase("QDephRepaired", n, 1, M=[hv], T=T, out=out, tol=0))
        qmeta.append(c)
    elif kind == "rfadd":
        # the final loop of RedfieldFoerster is not separately callable: its structure is compared end to end
        T = good_tensor(r, n)
        KF = np.array(rmat(r, n))
        for a in range(n):
            KF[a, a] = 0
        out = T.copy()
        for b in range(n):
            gg = 0.0
            for a in range(n):
                out[a, a, b, b] += KF[a, b]
                gg += KF[a, b]
            out[b, b, b, b] += -gg
        c["note"] = "harness transcription (model self-test)"
        zitems.append(zcase("KRfAdd", n, 1, M=KF, T=T, out=out))
    if kind not in ("update", "deph"):
        zmeta.append(c)
    if viol:
        chk.violation("kernel:" + viol[0], "%s on integer inputs (case %s): %s" % (kind, json.dumps(c), viol[1]), "monitor", c)
    chk.count("kernel:" + kind)
    chk.case(("exact", json.dumps(c, sort_keys=True)), n >= 2, sample=c if len(chk.samples) < 3 else None)


# ------------------------------------------------------------------ end to end
def gen_e2e(r, k):
    theories = ["stR", "stR", "stR_ops", "stF", "cRF", "neF", "Lf"]
    th = theories[k % len(theories)]
    return {"kind": "e2e", "theory": th, "N": r.choice([2, 2, 3]) if th != "Lf" else r.choice([2, 3, 4]),
            "td": r.random() < 0.5, "secular": r.random() < 0.4, "cutoff": r.random() < 0.25,
            "mult": 2 if (th in ("stR",) and r.random() < 0.15) else 1,
            "seed": r.randrange(2 ** 30)}


def build_aggregate(c):
    import quantarhei as qr
    rs = np.random.RandomState(c["seed"])
    ta = qr.TimeAxis(0.0, 160, 4.0)
    mols = []
    T = float(rs.choice([77.0, 150.0, 300.0]))
    with qr.energy_units("1/cm"):
        for k in range(c["N"]):
            m = qr.Molecule([0.0, 12000.0 + 150 * rs.randn()])
            m.set_dipole(0, 1, [1.0, 0.2 * k, 0.0])
            ft = rs.choice(["OverdampedBrownian", "OverdampedBrownian-HighTemperature"]) if False else "OverdampedBrownian"
            cf = qr.CorrelationFunction(ta, dict(ftype=ft, reorg=15.0 + 30 * rs.rand(), cortime=40.0 + 80 * rs.rand(), T=T, matsubara=10))
            m.set_transition_environment((0, 1), cf)
            mols.append(m)
        agg = qr.Aggregate(mols)
        for i in range(c["N"]):
            for j in range(i + 1, c["N"]):
                agg.set_resonance_coupling(i, j, float(rs.choice([15.0, 60.0, 150.0]) * rs.randn()))
    agg.build(mult=c["mult"])
    return agg, ta, rs


def run_e2e(chk, c, qitems, qmeta):
    import quantarhei as qr
    import io
    import contextlib
    reset_manager()
    th = c["theory"]
    label = "%s td=%s secular=%s cutoff=%s mult=%d" % (th, c["td"], c["secular"], c["cutoff"], c["mult"])
    tensors = []      # (name, object, hamiltonian)
    try:
        with contextlib.redirect_stdout(io.StringIO()):
            if th == "Lf":
                from quantarhei.qm import LindbladForm, SystemBathInteraction, Operator
                rs = np.random.RandomState(c["seed"])
                n = c["N"]
                H = rs.randn(n, n)
                ham = qr.Hamiltonian(data=H + H.T)
                ops, rates = [], []
                for m in range(rs.randint(1, 4)):
                    Kop = np.zeros((n, n))
                    if rs.rand() < 0.6:
                        Kop[rs.randint(n), rs.randint(n)] = 1.0
                    else:
                        Kop = rs.randn(n, n)
                    ops.append(Operator(data=Kop))
                    rates.append(float(rs.rand() / 10))
                sbi = SystemBathInteraction(sys_operators=ops, rates=rates)
                RT = LindbladForm(ham, sbi, as_operators=False)
                if c["secular"]:
                    RT.secularize()
                tensors.append(("LindbladForm", RT, ham, ham))
                c["td"] = False
            else:
                agg, ta, rs = build_aggregate(c)
                kw = dict(relaxation_theory=th.replace("_ops", ""), time_dependent=c["td"], secular_relaxation=c["secular"])
                if c["cutoff"] and th in ("stR", "stR_ops", "cRF"):
                    kw["relaxation_cutoff_time"] = 300.0
                if th == "cRF":
                    crf_cut = float(rs.choice([20.0, 70.0, 200.0]))
                    with qr.energy_units("1/cm"):
                        RT, ham = agg.get_RelaxationTensor(ta, coupling_cutoff=crf_cut, **kw)
                elif th == "stR_ops":
                    RTo, ham = agg.get_RelaxationTensor(ta, as_operators=True, **dict(kw, secular_relaxation=False))
                    RT, ham = agg.get_RelaxationTensor(ta, **dict(kw, secular_relaxation=False))
                    c["secular"] = False
                    # the model is fed the run's own operators, read in the basis they were computed in
                    if c["td"]:
                        # Km/Lm/Ld of the time-dependent class are plain attributes (transformed only together with the
                        # object on context exit): outside every context operators and data are both in the site basis
                        Km, Lm, data = np.array(RTo.Km), np.array(RTo.Lm), np.array(RT.data)
                    else:
                        ham.protect_basis()
                        with qr.eigenbasis_of(ham):
                            Km = np.array(RTo.Km)
                            Lm = np.array(RTo.Lm)
                            data = np.array(RT.data)
                        ham.unprotect_basis()
                    n = ham.dim
                    scale = float(np.max(np.abs(data)))
                    if c["td"]:
                        for tt in sorted(set([0, 1, data.shape[0] // 2, data.shape[0] - 1])):
                            qitems.append(qcase("QTdRedfield", n, Km.shape[0], K=Km, L=Lm[tt], out=data[tt], tol=1e-12 * scale))
                            qmeta.append(dict(c, tindex=tt))
                    else:
                        qitems.append(qcase("QRedfield", n, Km.shape[0], K=Km, L=Lm, out=data, tol=1e-12 * scale))
                        qmeta.append(c)
                else:
                    RT, ham = agg.get_RelaxationTensor(ta, **kw)
                    if th == "stR" and not c["td"] and not c["secular"] and c["mult"] == 1:
                        # recalculation on the same object (initialize() again, in the basis it was built in)
                        ham.protect_basis()
                        with qr.eigenbasis_of(ham):
                            first = np.array(RT.data)
                            RT.initialize()
                            again = np.array(RT.data)
                        ham.unprotect_basis()
                        if np.max(np.abs(again - first)) > 1e-13 * max(1e-30, float(np.max(np.abs(first)))):
                            chk.violation("e2e:reinitialize:Redfield", "RedfieldRelaxationTensor.initialize() called again changes the tensor by %g"
                                          % np.max(np.abs(again - first)), "monitor", c)
                tensors.append((type(RT).__name__, RT, agg.get_Hamiltonian(), ham))
                if th == "stR_ops":
                    # the operator form itself, converted to a tensor INSIDE basis contexts (its operator components have to follow
                    # the basis change): real orthogonal and complex unitary bases
                    hsite = agg.get_Hamiltonian()
                    rs3 = np.random.RandomState(c["seed"] + 7)
                    A3 = rs3.randn(hsite.dim, hsite.dim)
                    B3 = rs3.randn(hsite.dim, hsite.dim) + 1j * rs3.randn(hsite.dim, hsite.dim)
                    for bname, bop in (("a random symmetric operator", qr.qm.hilbertspace.operators.SelfAdjointOperator(data=A3 + A3.T)),
                                       ("a random complex Hermitian operator", qr.ReducedDensityMatrix(data=B3 + B3.conj().T))):
                        RTc, _h = agg.get_RelaxationTensor(ta, as_operators=True, **dict(kw, secular_relaxation=False))
                        with qr.eigenbasis_of(bop):
                            RTc.convert_2_tensor()
                            dC = np.array(RTc.data)
                        sc = max(1e-30, float(np.max(np.abs(dC))))
                        td_, hd_ = trace_dev(dC), herm_dev(dC)
                        nm = type(RTc).__name__ + "(operator form converted in a context)"
                        if td_ > 1e-10 * sc:
                            chk.violation("e2e:trace:%s" % nm, "%s [%s] converted to a tensor in the eigenbasis of %s: max |sum_a R[a,a,c,d]| = %.3g "
                                          "(scale %.3g)" % (nm, label, bname, td_, sc), "monitor", c)
                        if hd_ > 1e-10 * sc:
                            chk.violation("e2e:hermiticity:%s" % nm, "%s [%s] converted to a tensor in the eigenbasis of %s: max |conj R[a,b,c,d] - "
                                          "R[b,a,d,c]| = %.3g (scale %.3g)" % (nm, label, bname, hd_, sc), "monitor", c)
                        chk.count("e2e:operator form converted in a %s basis" % ("complex" if "complex" in bname else "real"))
                if th == "cRF" and not c["td"]:
                    # structure of the final "add the Foerster rates" loop: RF - Redfield must be rf_add of a rate matrix
                    from quantarhei.qm import RedfieldFoersterRelaxationTensor, RedfieldRelaxationTensor
                    hh, sb = agg.get_Hamiltonian(), agg.get_SystemBathInteraction()
                    with qr.energy_units("1/cm"):
                        hh.subtract_cutoff_coupling(float(rs.choice([20.0, 70.0, 200.0])))
                    hh.protect_basis()
                    with qr.eigenbasis_of(hh):
                        RF = RedfieldFoersterRelaxationTensor(hh, sb)
                        R0 = RedfieldRelaxationTensor(hh, sb)
                        dRF, dR0 = np.array(RF.data), np.array(R0.data)
                    hh.unprotect_basis()
                    hh.recover_cutoff_coupling()
                    n = hh.dim
                    KF = np.zeros((n, n))
                    for a in range(n):
                        for b in range(n):
                            if a != b:
                                KF[a, b] = np.real(dRF[a, a, b, b] - dR0[a, a, b, b])
                    scale = float(np.max(np.abs(dRF)))
                    qitems.append(qcase("QRfAdd", n, 1, M=KF, T=dR0, out=dRF, tol=1e-12 * scale))
                    qmeta.append(dict(c, sub="RedfieldFoerster final loop", maxKF=float(np.max(np.abs(KF)))))
                    chk.count("e2e:rfadd:%s" % ("with Foerster part" if np.max(np.abs(KF)) > 0 else "no remainder coupling"))
                if th == "stF" and not c["td"]:
                    # rate-only tensor: compare initialize()'s structure with the model fed the run's rate matrix
                    from quantarhei.qm.liouvillespace.rates.foersterrates import FoersterRateMatrix
                    from quantarhei.qm import FoersterRelaxationTensor
                    hh, sb = agg.get_Hamiltonian(), agg.get_SystemBathInteraction()
                    FT = FoersterRelaxationTensor(hh, sb, pure_dephasing=False)
                    frm = FoersterRateMatrix(hh, sb)
                    scale = float(np.max(np.abs(FT.data)))
                    qitems.append(qcase("QFoerster", hh.dim, 1, M=np.array(frm.data), out=np.array(FT.data), tol=1e-13 * scale))
                    qmeta.append(dict(c, sub="FoersterRelaxationTensor.initialize"))
                    tensors.append(("FoersterRelaxationTensor(no dephasing)", FT, hh, hh))
                    # re-use of the object: a tensor initialised again (recalculation) must be the same tensor, a lazily
                    # constructed one initialised twice likewise
                    first = np.array(FT.data)
                    FT.initialize()
                    lazy = FoersterRelaxationTensor(hh, sb, initialize=False)
                    lazy.initialize()
                    lazy.initialize()
                    for nm_, T_ in (("initialize() called again", np.array(FT.data)), ("constructed with initialize=False, initialize() twice", np.array(lazy.data))):
                        if np.max(np.abs(T_ - first)) > 1e-13 * scale:
                            chk.violation("e2e:reinitialize:Foerster", "FoersterRelaxationTensor %s differs from the first initialisation by %g (scale %g); "
                                          "trace identity defect %g" % (nm_, np.max(np.abs(T_ - first)), scale, trace_dev(T_)), "monitor", c)
    except Exception as e:
        msg = repr(e)
        # combinations the package does not offer are counted, not judged (no tensor was built)
        chk.count("e2e:unavailable:%s td=%s: %s" % (th, c["td"], msg[:60]))
        chk.case(("e2e", json.dumps(c, sort_keys=True)), False)
        reset_manager()
        return
    for name, RT, ham, relham in tensors:
        scale = None
        views = []
        try:
            d0 = np.array(RT.data)
            views.append(("site basis", d0))
            hb = ham
            with qr.eigenbasis_of(hb):
                views.append(("eigenbasis of H", np.array(RT.data)))
            rs2 = np.random.RandomState(c["seed"] + 1)
            A = rs2.randn(ham.dim, ham.dim)
            opA = qr.qm.hilbertspace.operators.SelfAdjointOperator(data=A + A.T)
            with qr.eigenbasis_of(opA):
                views.append(("eigenbasis of a random symmetric operator", np.array(RT.data)))
            # "in every basis": a complex unitary basis change (eigenbasis of a Hermitian operator with complex coherences)
            B = rs2.randn(ham.dim, ham.dim) + 1j * rs2.randn(ham.dim, ham.dim)
            opC = qr.ReducedDensityMatrix(data=B + B.conj().T)
            with qr.eigenbasis_of(opC):
                views.append(("eigenbasis of a random complex Hermitian operator", np.array(RT.data)))
            d1 = np.array(RT.data)
            if np.max(np.abs(d1 - d0)) > 1e-9 * max(1e-30, np.max(np.abs(d0))):
                chk.violation("e2e:not_restored:" + name, "%s [%s]: tensor data not restored after basis contexts" % (name, label), "monitor", c)
        except Exception as e:
            chk.violation("e2e:exception:" + name, "%s [%s]: reading the tensor raised %r" % (name, label, e), "monitor", c)
            reset_manager()
            continue
        for vname, d in views:
            scale = max(1e-30, float(np.max(np.abs(d))))
            td_, hd_ = trace_dev(d), herm_dev(d)
            if td_ > 1e-10 * scale:
                chk.violation("e2e:trace:%s" % name, "%s [%s] in the %s: max |sum_a R[a,a,c,d]| = %.3g (scale %.3g)" % (name, label, vname, td_, scale), "monitor", c)
            if hd_ > 1e-10 * scale:
                chk.violation("e2e:hermiticity:%s" % name, "%s [%s] in the %s: max |conj R[a,b,c,d] - R[b,a,d,c]| = %.3g (scale %.3g)" % (name, label, vname, hd_, scale), "monitor", c)
        if c["secular"] and th in ("Lf", "stR", "cRF") and name != "FoersterRelaxationTensor(no dephasing)":
            # secularised in the basis in which the tensor was built: site basis for the Lindblad form, eigenbasis of the
            # Hamiltonian handed back with the tensor otherwise (for Redfield-Foerster the one without the cut-off couplings).
            # The Foerster branches of get_RelaxationTensor do not secularise (the option is ignored there).
            if th == "Lf":
                dsec = views[0][1]
            elif th == "cRF":
                # built and secularised in the eigenbasis of the Hamiltonian with the couplings reduced by the cut-off
                # (subtract_cutoff_coupling - not the one with small couplings removed that is handed back)
                with qr.energy_units("1/cm"):
                    ham.subtract_cutoff_coupling(crf_cut)
                ham.protect_basis()
                with qr.eigenbasis_of(ham):
                    dsec = np.array(RT.data)
                ham.unprotect_basis()
                ham.recover_cutoff_coupling()
            else:
                with qr.eigenbasis_of(relham):
                    dsec = np.array(RT.data)
            sd = secular_dev(dsec)
            if sd > 1e-10 * max(1e-30, float(np.max(np.abs(dsec)))):
                chk.violation("e2e:secular:%s" % name, "%s [%s]: non-secular element of size %.3g survives" % (name, label, sd), "monitor", c)
        chk.count("e2e:%s%s%s" % (name, " td" if c["td"] else "", " secular" if c["secular"] else ""))
    chk.case(("e2e", json.dumps(c, sort_keys=True)), True)
    reset_manager()


# ------------------------------------------------------------------ Coq evaluation
IMPORTS = "From QV Require Import Base.Alg Base.Sums Base.Mat Base.Tens Base.Util Model.C01.\n"


def evaluate(chk, zitems, zmeta, qitems, qmeta):
    shards, index = [], []
    CZ, CQ = 25, 4
    for k in range(0, len(zitems), CZ):
        shards.append(cm.HEADER + IMPORTS + "Definition cs : list case01 := %s.\nEval vm_compute in (bad agrees01 cs).\n" % cm.clist(zitems[k:k + CZ]))
        index.append(("z", k, CZ))
    for k in range(0, len(qitems), CQ):
        body = cm.clist(qitems[k:k + CQ])
        shards.append(cm.HEADER + IMPORTS + "Definition cs : list case01q := %s.\nDefinition cs_pinned : list case01q := %s.\n"
                      "Eval vm_compute in (bad agrees01q cs).\nEval vm_compute in (bad agrees01q cs_pinned).\n"
                      % (body, body.replace("QDephRepaired", "QDephPinned")))
        index.append(("q", k, CQ))
    for (t, k, ch), (rc, out) in zip(index, cm.coq_eval(PID, shards)):
        meta = zmeta if t == "z" else qmeta
        if rc != 0:
            chk.violation("correspondence:coq_error", "coqc failed on %s cases: %s" % (t, out[-700:]), "correspondence", {"shard": k}, found_input=False)
            continue
        vals = cm.parse_evals(out)
        badl = cm.parse_natlist(vals[0])
        chk.corr["cases"] += min(ch, len(meta) - k)
        chk.corr["disagreements"] += len(badl)
        pinned_ok = set()
        if t == "q":
            bp = set(cm.parse_natlist(vals[1]))
            pinned_ok = set(i for i in badl if i not in bp)
        for i in badl[:3]:
            m = meta[k + i]
            extra = " (it agrees with the pinned variant ht[a]+ht[b] of add_dephasing)" if i in pinned_ok and m.get("kind") == "deph" else ""
            chk.violation("correspondence:%s" % m.get("kind", "?") + (":" + m.get("theory", "") if m.get("kind") == "e2e" else ""),
                          "implementation differs from Model.C01 on case %s%s" % (json.dumps(m)[:600], extra), "correspondence", m, found_input=False)


def main():
    chk = cm.Check(PID, args.tier)
    chk.rule = ("exact kernels on Gaussian-integer inputs (n<=4, Nb<=3; callers' Kd/Ld or arbitrary matrices): _loopit, both "
                "_convert_operators_2_tensor, LindbladForm, secularize (legacy / Secular / 5-index / TD), transform (4-, 5-index, "
                "SuperOperator, TD), operator-form apply, updateStructure, add_dephasing (static and TD); end to end: random aggregates "
                "(2-3 sites, mult 1-2) x theories {Redfield (tensor, operators), Foerster, Redfield-Foerster, non-eq. Foerster, Lindblad} x "
                "{time dependent, secular, cut-off}. Non-trivial: n >= 2 kernels, every end-to-end case that built a tensor")
    chk.assumptions = ["K_m are float64 arrays (real) in the code; the Hermiticity theorems assume K real (TD: real symmetric), which the "
                       "end-to-end monitors observe through the identities themselves",
                       "numpy.linalg.eigh / scipy inv / spline quadrature / FoersterRateMatrix are oracles: the model is fed the operators "
                       "and rates the run produced",
                       "float arithmetic on small integers is exact (kernels compared with =); end-to-end tolerance 1e-12 relative to max|R|; "
                       "identities monitored with 1e-10 relative",
                       "the last loop of RedfieldFoerster is compared only through the end-to-end identities (not separately callable)"]
    chk.prove()
    import translate
    translate.static_tie(cm, chk, PID, cm.REPO)      # second, static tie: model regenerated from the current source
    zitems, zmeta, qitems, qmeta = [], [], [], []
    if args.replay:
        rep = json.load(open(args.replay))
        c = rep.get("input")
        cases = [c] if isinstance(c, dict) and "kind" in c else []
    else:
        r = cm.rng(PID)
        nk, ne = (300, 42) if args.tier == "quick" else (3000, 400)
        cases = [gen_exact(r, k) for k in range(nk)] + [gen_e2e(r, k) for k in range(ne)]
    for c in cases:
        try:
            if c["kind"] == "e2e":
                run_e2e(chk, c, qitems, qmeta)
            else:
                run_exact(chk, c, zitems, qitems, zmeta, qmeta)
        except Exception as e:
            import traceback
            chk.violation("harness:exception:" + c["kind"], "case %s raised %r\n%s" % (json.dumps(c), e, traceback.format_exc()[-800:]), "monitor", c)
            chk.case(("exc", json.dumps(c, sort_keys=True)), False)
            reset_manager()
    evaluate(chk, zitems, zmeta, qitems, qmeta)
    chk.finish()


main()
