#!/usr/bin/env python3
"""usage: seed_import.py <src dir> <seed id> <property> <confirm .out file> <caught_by text>
Copies a confirmed seeded change into /verif/seeded/<seed id>/ and writes meta.json."""
import sys, os, json, shutil
src, sid, pid, conf, caught = sys.argv[1:6]
dst = os.path.join("/verif/seeded", sid)
os.makedirs(dst, exist_ok=True)
shutil.copy(os.path.join(src, "patch.diff"), os.path.join(dst, "patch.diff"))
shutil.copy(os.path.join(src, "demo.py"), os.path.join(dst, "demo.py"))
try:
    meta = json.load(open(os.path.join(src, "meta.json")))
except Exception:
    meta = {}
out = {
    "property": pid,
    "seed_id": sid,
    "summary": meta.get("summary", ""),
    "needs_to_manifest": meta.get("needs_to_manifest", ""),
    "author": "independent sub-agent given only the property text and a scratch worktree",
    "author_tests_run": meta.get("tests_run", ""),
    "confirmed_by_me": open(conf).read().strip() if os.path.exists(conf) else "not confirmed",
    "confirmation_procedure": "harness/seed_confirm.sh: scratch worktree of /repo HEAD; demo.py exit 0 on clean tree, non-zero with patch.diff applied; "
                              "pytest tests/unit with the patch shows only the baseline's known failures",
    "check_result": caught,
    "how_to_rerun": "harness/seed_try.sh /verif/seeded/%s/patch.diff %s" % (sid, pid),
}
json.dump(out, open(os.path.join(dst, "meta.json"), "w"), indent=1)
print("imported", sid)
