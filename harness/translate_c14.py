# -*- coding: utf-8 -*-
"""Static tie for C14 (DESIGN.md section 12): the thermal-state kernels are translated from the current source on every run.

Translated (statement templates with holes, skeleton combinators in coq/theories/Proofs/C14gen.v):
  builders/aggregate_base.py: AggregateBase._thermal_population   the loop that fills the energies, kBT, the T = 0 branch (argmin,
                                                                  where the population is put), the Boltzmann branch (shift by the
                                                                  minimum, normalisation, where the block is put)
  builders/aggregate_base.py: AggregateBase.get_DensityMatrix     the whole selection logic is matched statement by statement; translated
                                                                  content: accumulation of the basis transformations, site-basis
                                                                  Hamiltonian and return transformation of the strong-coupling branch,
                                                                  range and index of the weak-coupling energy shift
  builders/aggregate_base.py: AggregateBase._impulsive_population the product dabs . rho . dabs
  builders/opensystem.py    : OpenSystem.get_thermal_ReducedDensityMatrix   zero-temperature test and state, loop, shift, normalisation
Everything outside the supported fragment raises Untranslatable (fail-closed).
"""
import ast
from fractions import Fraction

from translate import Untranslatable, Expr
from translate_c06 import match, locals_of, _pat, _num, QExpr, zrange, nat_index

AB = "/quantarhei/builders/aggregate_base.py"


# ----------------------------------------------------------------------------------------------- _thermal_population
T_TP = '''
def _thermal_population(self, temp=0.0, subtract=None, relaxation_hamiltonian=None, start=0):
    from ..core.units import kB_intK
    kBT = H_kbt
    HH = relaxation_hamiltonian
    dim = HH.shape[0]
    if subtract is None:
        subtract = numpy.zeros(dim, dtype=numpy.float64)
    rho0 = numpy.zeros((dim, dim), dtype=numpy.complex128)
    ens = numpy.zeros(H_enslen, dtype=numpy.float64)
    for L_i in H_iter:
        ens[H_ei] = numpy.real(HH[H_hr, H_hc] - subtract[H_si])
    if H_tzero:
        imin = H_imin
        rho0[H_zr, H_zc] = H_one
    else:
        ne = numpy.exp(H_warg)
        sne = numpy.sum(ne)
        rho0_diag = ne / sne
        rho0[H_lo1:, H_lo2:] = numpy.diag(rho0_diag)
    return rho0
'''

TP_TEXT = """
(* ---- builders/aggregate_base.py: AggregateBase._thermal_population ---- *)
Definition g_tp_kbt (kB temp : Q) : Q := %(kbt)s.
Definition g_tp_tzero (temp : Q) : bool := %(tzero)s.
Definition g_tp_lo (start dim : Z) : Z := (%(lo)s)%%Z.
Definition g_tp_hi (start dim : Z) : Z := (%(hi)s)%%Z.
Definition g_tp_enslen (start dim : Z) : Z := (%(enslen)s)%%Z.
Definition g_tp_ei (start dim i : Z) : Z := (%(ei)s)%%Z.
Definition g_tp_val (hd sub : list Q) (start dim i : Z) : Q := nth (Z.to_nat (%(hr)s)%%Z) hd 0 - nth (Z.to_nat (%(si)s)%%Z) sub 0.
Definition g_tp_imin (start dim am : Z) : Z := (%(imin)s)%%Z.
Definition g_tp_zr (imin : Z) : Z := (%(zr)s)%%Z.
Definition g_tp_zc (imin : Z) : Z := (%(zc)s)%%Z.
Definition g_tp_one : Q := %(one)s.
Definition g_tp_warg (e m kT : Q) : Q := %(warg)s.
Definition g_tp_lo1 (start dim : Z) : Z := (%(lo1)s)%%Z.
Definition g_tp_lo2 (start dim : Z) : Z := (%(lo2)s)%%Z.
Definition gen_thermal_population (ex : Q -> Q) (kB temp : Q) (hd sub : list Q) (start : nat) : option (list Q) :=
  let s := Z.of_nat start in let d := Z.of_nat (length hd) in
  tp_skel ex (g_tp_kbt kB temp) (g_tp_tzero temp) (g_tp_lo s d) (g_tp_hi s d) (g_tp_enslen s d) (g_tp_ei s d) (g_tp_val hd sub s d)
          (g_tp_imin s d) g_tp_zr g_tp_zc g_tp_one g_tp_warg (g_tp_lo1 s d) (g_tp_lo2 s d) (length hd).
Theorem gen_thermal_population_is_model : forall ex kB temp hd sub start, (start <= length hd)%%nat -> (length hd - start <= length sub)%%nat ->
  gen_thermal_population ex kB temp hd sub start = thermal_population ex Fixed Fixed kB temp hd sub start.
Proof.
  intros ex kB temp hd sub start Hs Hsub. unfold gen_thermal_population. cbv zeta.
  apply tp_skel_is_model; try assumption; try reflexivity;
    unfold g_tp_kbt, g_tp_tzero, g_tp_lo, g_tp_hi, g_tp_enslen, g_tp_ei, g_tp_val, g_tp_imin, g_tp_zr, g_tp_zc, g_tp_one, g_tp_warg, g_tp_lo1, g_tp_lo2;
    intros; first [reflexivity | lia | apply Qeq_bool_sym | (f_equal; f_equal; f_equal; lia)].
Qed.
"""


class ZCall(Expr):
    """integer expressions with whitelisted calls standing for a given term"""

    def __init__(self, names, calls):
        Expr.__init__(self, "Z", names)
        self.calls = calls

    def e(self, node):
        if isinstance(node, ast.Call):
            key = ast.unparse(node)
            if key in self.calls:
                return self.calls[key]
            raise Untranslatable("call %s" % key)
        return Expr.e(self, node)


class QCall(QExpr):
    """rational expressions where some calls / subscripts (by source text) stand for a given term"""

    def __init__(self, names, texts):
        QExpr.__init__(self, names)
        self.texts = texts

    def e(self, node):
        if isinstance(node, (ast.Call, ast.Subscript, ast.Attribute)):
            key = ast.unparse(node)
            if key in self.texts:
                return self.texts[key]
            raise Untranslatable("expression %s" % key)
        return QExpr.e(self, node)


def qtest_zero(node, name, coq):
    """temp == 0.0 / 0.0 == temp -> Qeq_bool"""
    if isinstance(node, ast.Compare) and len(node.ops) == 1 and isinstance(node.ops[0], ast.Eq):
        l, r = node.left, node.comparators[0]
        if isinstance(l, ast.Name) and l.id == name and _num(r) == 0:
            return "Qeq_bool %s 0" % coq
        if isinstance(r, ast.Name) and r.id == name and _num(l) == 0:
            return "Qeq_bool 0 %s" % coq
    raise Untranslatable("zero-temperature test %s" % ast.unparse(node))


def thermal_population(repo):
    env = match(repo + AB, "AggregateBase._thermal_population", T_TP)
    out = {}
    out["kbt"] = QExpr({"kB_intK": "kB", "temp": "temp"}).e(env["H_kbt"])
    out["tzero"] = qtest_zero(env["H_tzero"], "temp", "temp")
    zn = {"start": "start", "dim": "dim"}
    out["lo"], out["hi"] = zrange(env["H_iter"], zn)
    out["enslen"] = Expr("Z", zn).e(env["H_enslen"])
    zi = dict(zn)
    zi[env["L_i"]] = "i"
    exi = Expr("Z", zi)
    out["ei"], out["si"] = exi.e(env["H_ei"]), exi.e(env["H_si"])
    hr, hc = exi.e(env["H_hr"]), exi.e(env["H_hc"])
    if hr != hc:
        raise Untranslatable("the energies are not read from the diagonal: HH[%s, %s]" % (ast.unparse(env["H_hr"]), ast.unparse(env["H_hc"])))
    out["hr"] = hr
    out["imin"] = ZCall(zn, {"numpy.argmin(ens)": "am"}).e(env["H_imin"])
    out["zr"], out["zc"] = Expr("Z", {"imin": "imin"}).e(env["H_zr"]), Expr("Z", {"imin": "imin"}).e(env["H_zc"])
    out["one"] = QExpr({}).e(env["H_one"])
    out["warg"] = QCall({"ens": "e", "kBT": "kT"}, {"numpy.amin(ens)": "m"}).e(env["H_warg"])
    out["lo1"], out["lo2"] = Expr("Z", zn).e(env["H_lo1"]), Expr("Z", zn).e(env["H_lo2"])
    return TP_TEXT % out, ["builders/aggregate_base.py:AggregateBase._thermal_population (energy loop, T = 0 branch, Boltzmann branch)"]


# ----------------------------------------------------------------------------------------------- get_DensityMatrix, _impulsive_population
T_GDM = '''
def get_DensityMatrix(self, condition_type=None, relaxation_theory_limit='weak_coupling', temperature=None, relaxation_hamiltonian=None, DD=None):
    if not self._built:
        raise Exception('Aggregate must be built before' + ' get_DensityMatrix can be invoked.')
    if temperature is None:
        if self.sbi is None:
            temperature = 0.0
        elif self.sbi.has_temperature():
            temperature = self.sbi.get_temperature()
        else:
            temperature = 0.0
    if condition_type is None:
        return DensityMatrix(data=self.rho0)
    elif condition_type == 'impulsive_excitation':
        rho0 = self._impulsive_population(relaxation_theory_limit=relaxation_theory_limit, temperature=temperature, DD=DD)
        self.rho0 = rho0
        return DensityMatrix(data=self.rho0)
    elif condition_type == 'thermal':
        if not relaxation_hamiltonian:
            Ham = self.get_Hamiltonian()
        else:
            Ham = relaxation_hamiltonian
        rho0 = self._thermal_population(temperature, relaxation_hamiltonian=Ham.data)
        self.rho0 = rho0
        return DensityMatrix(data=self.rho0)
    elif condition_type == 'thermal_excited_state':
        if relaxation_theory_limit == 'strong_coupling':
            start = self.Nb[0]
            n1ex = self.Nb[1]
            if not relaxation_hamiltonian:
                HH = self.get_Hamiltonian()
                Ndim = HH.dim
                re = numpy.zeros(Ndim - start, dtype=numpy.float64)
                for i in range(n1ex):
                    re[i] = self.sbi.get_reorganization_energy(self.elinds[start + i] - 1)
            else:
                HH = relaxation_hamiltonian
                Ndim = HH.dim
                re = numpy.zeros(Ndim - start, dtype=numpy.float64)
            ham = HH.data
            SS = numpy.eye(ham.shape[0])
            for ZZ in Manager().basis_transformations[1:]:
                SS = H_acc
            S1 = numpy.linalg.inv(SS)
            ham = H_site
            rho0 = self._thermal_population(temperature, subtract=re, relaxation_hamiltonian=ham, start=start)
            rho0 = H_back
        elif relaxation_theory_limit == 'weak_coupling':
            if not relaxation_hamiltonian:
                Ham = self.get_Hamiltonian()
            else:
                Ham = relaxation_hamiltonian
            with eigenbasis_of(Ham):
                H = Ham.data
                start = self.Nb[0]
                subt = numpy.zeros(H.shape[0])
                subtfil = numpy.amin(numpy.array([H[H_wr, H_wc] for L_ii in H_witer]))
                subt.fill(subtfil)
                rho0 = self._thermal_population(temperature, subtract=subt, relaxation_hamiltonian=H, start=start)
                rho = DensityMatrix(data=rho0)
            self.rho0 = rho.data
            return rho
        else:
            raise Exception('Unknown relaxation_theory_limit')
        self.rho0 = rho0
        return DensityMatrix(data=self.rho0)
    else:
        raise Exception('Unknown condition type')
'''

T_IMP = '''
def _impulsive_population(self, relaxation_theory_limit='weak_coupling', temperature=0.0, DD=None):
    rho = self.get_DensityMatrix(condition_type='thermal', relaxation_theory_limit=relaxation_theory_limit, temperature=temperature)
    rho0 = rho.data
    if DD is None:
        DD = self.TrDMOp.data
    dabs = numpy.sqrt(DD[:, :, 0] ** 2 + DD[:, :, 1] ** 2 + DD[:, :, 2] ** 2)
    rho0 = H_imp
    return rho0
'''

GDM_TEXT = """
(* ---- builders/aggregate_base.py: AggregateBase.get_DensityMatrix (selection logic matched statement by statement), _impulsive_population ---- *)
Section GenDM.
  Context {R : StarRing}.
  (* strong coupling: SS = eye; for ZZ in basis_transformations[1:]: SS = <g_acc>;  ham = <g_site>;  rho0 = <g_back> *)
  Definition g_acc (n : nat) (SS ZZ : @mat R) : @mat R := %(acc)s.
  Definition gen_basis_product (n : nat) (Zs : list (@mat R)) : @mat R := fold_left (g_acc n) Zs mid.
  Lemma gen_basis_product_is_model : forall n Zs, gen_basis_product n Zs = basis_product n Zs.
  Proof. reflexivity. Qed.
  Definition g_site (n : nat) (SS S1 ham : @mat R) : @mat R := %(site)s.
  Lemma gen_strong_energies_is_model : forall n S S1 Hcur i, (i < n)%%nat -> g_site n S S1 Hcur i i = strong_energies Fixed n S S1 Hcur i.
  Proof. intros n S S1 Hcur i Hi. apply strong_energies_spec; [exact Hi|]. intros a b. reflexivity. Qed.
  Definition g_back (n : nat) (SS S1 rho0 : @mat R) : @mat R := %(back)s.
  Lemma gen_strong_data_is_model : forall n S S1 D a b, (a < n)%%nat -> (b < n)%%nat -> g_back n S S1 D a b = strong_data Fixed n S S1 D a b.
  Proof. intros n S S1 D a b Ha Hb. apply strong_data_spec; [exact Ha|exact Hb|]. intros a' b'. reflexivity. Qed.
  (* impulsive excitation *)
  Definition g_imp (n : nat) (dabs rho0 : @mat R) : @mat R := %(imp)s.
  Lemma gen_impulsive_is_model : forall n X rho a b, (a < n)%%nat -> (b < n)%%nat -> g_imp n X rho a b = impulsive n X rho a b.
  Proof. intros n X rho a b Ha Hb. unfold impulsive. rewrite mmul3_at by assumption. reflexivity. Qed.
End GenDM.
(* weak coupling: the shift is the minimum of H[ii,ii] over ii in range(start, dim) *)
Definition g_weak (start dim ii : Z) : list Z := [%(wlo)s; %(whi)s; %(wr)s; %(wc)s]%%Z.
Lemma gen_weak_shift_is_model : forall start dim ii, g_weak start dim ii = [start; dim; ii; ii].
Proof. intros. unfold g_weak. repeat f_equal; lia. Qed.
"""


def _mat(node, mats):
    if isinstance(node, ast.Name) and node.id in mats:
        return mats[node.id]
    p = _pat("numpy.dot(H_a, H_b)", node)
    if p is not None:
        return "(mmul n %s %s)" % (_mat(p["H_a"], mats), _mat(p["H_b"], mats))
    raise Untranslatable("matrix expression %s" % ast.unparse(node)[:80])


def density_matrix(repo):
    env = match(repo + AB, "AggregateBase.get_DensityMatrix", T_GDM)
    out = {}
    out["acc"] = _mat(env["H_acc"], {"SS": "SS", "ZZ": "ZZ"})
    out["site"] = _mat(env["H_site"], {"SS": "SS", "S1": "S1", "ham": "ham"})
    out["back"] = _mat(env["H_back"], {"SS": "SS", "S1": "S1", "rho0": "rho0"})
    zn = {"start": "start"}
    it = env["H_witer"]
    if not (isinstance(it, ast.Call) and ast.unparse(it.func) == "range" and len(it.args) == 2 and ast.unparse(it.args[1]) in ("H.shape[0]", "H.shape[1]")):
        raise Untranslatable("weak-coupling shift: range %s" % ast.unparse(it))
    out["wlo"], out["whi"] = Expr("Z", zn).e(it.args[0]), "dim"
    ii = {env["L_ii"]: "ii"}
    out["wr"], out["wc"] = Expr("Z", ii).e(env["H_wr"]), Expr("Z", ii).e(env["H_wc"])
    env = match(repo + AB, "AggregateBase._impulsive_population", T_IMP)
    out["imp"] = _mat(env["H_imp"], {"dabs": "dabs", "rho0": "rho0"})
    return GDM_TEXT % out, ["builders/aggregate_base.py:AggregateBase.get_DensityMatrix (selection logic; accumulated transformation, site-basis Hamiltonian, "
                            "return transformation, weak-coupling shift)", "builders/aggregate_base.py:AggregateBase._impulsive_population (dabs . rho . dabs)"]


# ----------------------------------------------------------------------------------------------- get_thermal_ReducedDensityMatrix
T_OS = '''
def get_thermal_ReducedDensityMatrix(self):
    H = self.get_Hamiltonian()
    T = self.get_temperature()
    dat = numpy.zeros(H._data.shape, dtype=COMPLEX)
    with eigenbasis_of(H):
        if numpy.abs(T) < H_tiny:
            dat[H_z1, H_z2] = H_one
        else:
            dsum = H_dsum0
            emin = numpy.amin(numpy.real(numpy.diag(H.data)))
            for L_n in H_iter:
                dat[L_n, L_n] = numpy.exp(H_warg)
                dsum += dat[L_n, L_n]
            dat *= H_scale
        rdm = ReducedDensityMatrix(data=dat)
    return rdm
'''

OS_TEXT = """
(* ---- builders/opensystem.py: OpenSystem.get_thermal_ReducedDensityMatrix ---- *)
Definition g_os_tiny : Q := %(tiny)s.
Definition g_os_z : Z * Z := (%(z1)s, %(z2)s)%%Z.
Definition g_os_one : Q := %(one)s.
Definition g_os_lo (dim : Z) : Z := (%(lo)s)%%Z.
Definition g_os_hi (dim : Z) : Z := (%(hi)s)%%Z.
Definition g_os_warg (kB temp e m : Q) : Q := %(warg)s.
Definition g_os_scale (dsum : Q) : Q := %(scale)s.
Definition g_os_dsum0 : Q := %(dsum0)s.
Definition gen_opensystem_population (ex : Q -> Q) (kB temp : Q) (hd : list Q) : option (list Q) :=
  let d := Z.of_nat (length hd) in
  os_skel ex g_os_tiny (fst g_os_z) (snd g_os_z) g_os_one (g_os_lo d) (g_os_hi d) (g_os_warg kB temp) g_os_scale g_os_dsum0 temp hd.
Theorem gen_opensystem_population_is_model : forall ex kB temp hd,
  opt_eqv (gen_opensystem_population ex kB temp hd) (opensystem_population ex Fixed kB temp hd).
Proof.
  intros ex kB temp hd. unfold gen_opensystem_population. cbv zeta.
  apply os_skel_is_model; unfold g_os_tiny, g_os_z, g_os_one, g_os_lo, g_os_hi, g_os_warg, g_os_scale, g_os_dsum0; cbn [fst snd];
    intros; first [reflexivity | lia | (field; assumption)].
Qed.
"""


def opensystem(repo):
    env = match(repo + "/quantarhei/builders/opensystem.py", "OpenSystem.get_thermal_ReducedDensityMatrix", T_OS)
    out = {}
    v = _num(env["H_tiny"])
    if v is None or not (0 < v < 1e-3):
        raise Untranslatable("zero-temperature threshold %s" % ast.unparse(env["H_tiny"]))
    f = Fraction(repr(v))                         # the decimal the source writes (1.0e-10), not the nearest binary fraction
    out["tiny"] = "(%d # %d)" % (f.numerator, f.denominator)
    out["z1"], out["z2"] = Expr("Z", {}).e(env["H_z1"]), Expr("Z", {}).e(env["H_z2"])
    out["one"], out["dsum0"] = QExpr({}).e(env["H_one"]), QExpr({}).e(env["H_dsum0"])
    it = env["H_iter"]
    if not (isinstance(it, ast.Call) and ast.unparse(it.func) == "range" and 1 <= len(it.args) <= 2 and not it.keywords
            and ast.unparse(it.args[-1]) in ("H._data.shape[0]", "H.data.shape[0]", "H.dim")):
        raise Untranslatable("loop over the states: %s" % ast.unparse(it))
    out["lo"] = "(0)" if len(it.args) == 1 else Expr("Z", {}).e(it.args[0])
    out["hi"] = "dim"
    n = env["L_n"]
    out["warg"] = QCall({"emin": "m", "kB_intK": "kB", "T": "temp"}, {"H.data[%s, %s]" % (n, n): "e"}).e(env["H_warg"])
    out["scale"] = QExpr({"dsum": "dsum"}).e(env["H_scale"])
    return OS_TEXT % out, ["builders/opensystem.py:OpenSystem.get_thermal_ReducedDensityMatrix"]


HEAD = """(* GENERATED on every run by harness/translate_c14.py from the current source of quantarhei/builders/aggregate_base.py and
   quantarhei/builders/opensystem.py.  The statement skeletons were matched node for node against templates; the arithmetic content
   below is the code's. *)
From Coq Require Import ZArith List Bool Arith Lia QArith Qabs Lqa.
From QV Require Import Base.Alg Base.Sums Base.Mat Model.C14 Proofs.C14 Proofs.C14gen.
Import ListNotations.
Local Open Scope Q_scope.
"""


def static(repo):
    parts, what = [HEAD], []
    for fn in (thermal_population, density_matrix, opensystem):
        t, w = fn(repo)
        parts.append(t)
        what += w
    return "\n".join(parts), what


if __name__ == "__main__":
    import sys
    text, what = static(sys.argv[1] if len(sys.argv) > 1 else "/repo")
    print(text)
    print("(* %s *)" % "; ".join(what))
