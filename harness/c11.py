# -*- coding: utf-8 -*-
"""C11 - linear spectra match the Fourier integral and symmetry relations.

Proof: coq/theories/Props/C11.v (index arithmetic of hfft / fftshift / flipud / cut for every Nt; the frequency of
every data point against the returned axis over any field of characteristic 0; dipole-strength symmetries and sum
rules over any commutative ring; numpy.fft.hfft is an oracle).

Tie: monomers, dimers and trimers with resolved lines (random energies, integer dipoles, couplings given or from
dipole-dipole geometry, even and odd Nt, with and without a supplied Redfield tensor) through
AbsSpectrumCalculator.calculate(raw=True);
* correspondence: the recorded hfft outputs of the run, the eigenvectors of the run's Hamiltonian and the site
  dipoles are handed to Model.C11 (exact rationals); the model must reproduce .data through its own dipole strengths,
  shift, reversal, cut and sum (1e-10 * max|data|); the returned axis points are compared with the pinned and the
  repaired axis model (relative 1e-12);
* monitors: .data against an independently evaluated half-sided Fourier sum of sum_a |d_a|^2 exp(-g_a(t) - i w_a t)
  (i) on the grid of the transform (what the theorem says the code computes, 1e-9) and (ii) on the returned axis
  (the property as stated); line positions; hfft against its defining sum; |c|^2 scaling, rotation, relabelling,
  sum rule (validated within 2e-3: tails outside the window); Hamiltonian, dipole operator, tensor before/after.
"""
import os
import sys
import json
import math

sys.path.insert(0, os.path.dirname(os.path.abspath(__file__)))
import common as cm

PID = "C11"
work = cm.reexec_isolated(PID)
args = cm.parse_args(sys.argv[1:])

SIG_AXIS = "fourier_integral:returned_axis_displaced"


# ------------------------------------------------------------------ generator
def gen_case(r, k, nmol=None, nt=None, tensor=None):
    nmol = nmol or r.choice([1, 2, 2, 3, 3])
    nt = nt or r.choice([100, 128, 151, 200, 201, 256, 301])
    dt = r.choice([1.0, 2.0, 2.0, 1.5])
    e0 = r.choice([10000.0, 12000.0, 15000.0])
    energies = [e0 + r.choice([-1, 1]) * r.randint(0, 250) for _ in range(nmol)]
    dipoles = []
    for _ in range(nmol):
        d = [r.randint(-3, 3) for _ in range(3)]
        if d == [0, 0, 0]:
            d[r.randrange(3)] = r.choice([1, 2])
        dipoles.append(d)
    geometry = nmol >= 2 and r.random() < 0.5
    positions = [[float(8 * i + r.randint(-1, 1)), float(r.randint(-3, 3)), float(r.randint(-3, 3))] for i in range(nmol)]
    couplings = {}
    if not geometry:
        for i in range(nmol):
            for j in range(i + 1, nmol):
                couplings["%d,%d" % (i, j)] = r.choice([0.0, 50.0, 100.0, -150.0, 200.0, float(r.randint(-200, 200))])
    reorgs = [r.choice([30.0, 30.0, 50.0, 20.0]) for _ in range(nmol)]
    if r.random() < 0.5:
        reorgs = [reorgs[0]] * nmol
    cortime = r.choice([60.0, 100.0])
    if tensor is None:
        tensor = nmol >= 2 and r.random() < 0.25
    perm = list(range(nmol))
    r.shuffle(perm)
    if nmol >= 2 and perm == sorted(perm):
        perm = perm[1:] + perm[:1]                      # a genuine relabelling
    # two-exciton states included in the aggregate (build(mult=2)): linear absorption must not change
    mult = 2 if (nmol >= 2 and not tensor and r.random() < 0.45) else 1
    # read-only queries a user may make on the system's operators BEFORE the calculation (they must not matter)
    pre = r.choice([None, None, "site", "eigen", "both"]) if nmol >= 2 else None
    return {"kind": "spec", "mult": mult, "nmol": nmol, "nt": nt, "dt": dt, "rwa": e0, "energies": energies, "dipoles": dipoles,
            "geometry": geometry, "positions": positions, "couplings": couplings, "reorgs": reorgs, "cortime": cortime,
            "T": 300.0, "tensor": bool(tensor), "scale": r.choice([2.0, 0.5, 3.0, -1.5]), "perm": perm,
            "rot": [r.randint(1, 10 ** 6), r.choice([1, -1])], "prequery": pre,
            # weak couplings split off into the Hamiltonian's remainder coupling: by the user (plain cases) or by the combined
            # Redfield-Foerster tensor whose effective Hamiltonian is supplied (tensor cases)
            "remainder": (("cRF" if tensor else "removed") if (nmol >= 2 and k % 4 == 3) else None),
            "intpos": bool(geometry and k % 3 != 1),
            "ground": [float(r.choice([0.0, 150.0, 200.0, 300.0])) if k % 3 == 2 else 0.0 for _ in range(nmol)]}


def rotation(seed, det):
    """an orthogonal 3x3 matrix (proper or improper) from a seed"""
    import numpy
    rs = numpy.random.RandomState(seed)
    q, rr = numpy.linalg.qr(rs.normal(size=(3, 3)))
    q = q * numpy.sign(numpy.diag(rr))
    if numpy.linalg.det(q) * det < 0:
        q[:, 0] = -q[:, 0]
    return q


# ------------------------------------------------------------------ implementation driver
class HfftRecorder:
    def __init__(self):
        import numpy
        self.np = numpy
        self.calls = []

    def __enter__(self):
        np = self.np
        self.orig = np.fft.hfft

        def wrapped(a, *p, **kw):
            out = self.orig(a, *p, **kw)
            if not p and not kw:
                self.calls.append((np.array(a, dtype=complex).copy(), np.array(out, dtype=float).copy()))
            return out
        np.fft.hfft = wrapped
        return self

    def __exit__(self, *a):
        self.np.fft.hfft = self.orig
        return False


def build(c, dip_scale=1.0, rot=None, perm=None):
    """builds the system; returns (timeaxis, system, list of molecules' correlation-function data in build order)"""
    import numpy
    import quantarhei as qr
    time = qr.TimeAxis(0.0, c["nt"], c["dt"])
    order = perm if perm is not None else list(range(c["nmol"]))
    mols, cfs = [], []
    with qr.energy_units("1/cm"):
        for i in order:
            cf = qr.CorrelationFunction(time, dict(ftype="OverdampedBrownian", reorg=c["reorgs"][i], cortime=c["cortime"], T=c["T"]))
            g0 = float(c.get("ground", [0.0] * c["nmol"])[i])           # a non-zero electronic ground-state energy of the molecule
            m = qr.Molecule([g0, g0 + c["energies"][i]])
            d = numpy.array(c["dipoles"][i], dtype=float) * dip_scale
            pos = numpy.array(c["positions"][i], dtype=float)
            if rot is not None:
                d = rot.dot(d)
                pos = rot.dot(pos)
            m.set_dipole(0, 1, [float(x) for x in d])
            # integer-typed coordinates as a user types them (the rotated comparison systems get floats)
            m.position = [int(x) for x in pos] if (c.get("intpos") and rot is None) else [float(x) for x in pos]
            m.set_transition_environment((0, 1), cf)
            mols.append(m)
            cfs.append(cf.data.copy())
    if c["nmol"] == 1:
        return time, mols[0], cfs
    ag = qr.Aggregate(molecules=mols)
    if c["geometry"]:
        ag.set_coupling_by_dipole_dipole()
    else:
        with qr.energy_units("1/cm"):
            for key, val in c["couplings"].items():
                i, j = [int(x) for x in key.split(",")]
                # couplings belong to the molecules, not to their position in the list
                ag.set_resonance_coupling(order.index(i), order.index(j), val)
    ag.build(mult=c.get("mult", 1))
    if c.get("remainder") == "removed":
        # a system Hamiltonian whose weak couplings were split off into its remainder coupling (Hamiltonian.remove_cutoff_coupling):
        # the aggregate as given is the one with the remaining couplings
        H = ag.get_Hamiltonian()
        H.remove_cutoff_coupling(coupling_cut(H))
    return time, ag, cfs


def coupling_cut(H):
    """a cut-off (internal units) between the two smallest distinct non-zero couplings, or above the only one"""
    vals = sorted(set(round(abs(float(H.data[i, j])), 12) for i in range(H.dim) for j in range(i + 1, H.dim)) - {0.0})
    if not vals:
        return 1e-6
    return 0.5 * (vals[0] + vals[1]) if len(vals) > 1 else 2.0 * vals[0]


def tensor_of(c, time, system):
    """the relaxation tensor and effective Hamiltonian a tensor case supplies to the calculator"""
    if c.get("remainder") == "cRF":
        return system.get_RelaxationTensor(time, relaxation_theory="cRF", coupling_cutoff=coupling_cut(system.get_Hamiltonian()))
    return system.get_RelaxationTensor(time, relaxation_theory="stR")


def prequery(c, system):
    """read-only use of the system's operators before a calculation: dipole strengths, sum rule, operator data, in the site basis
    and / or inside the eigenbasis of the Hamiltonian.  Nothing here may change what a later calculation returns."""
    import quantarhei as qr
    how = c.get("prequery")
    if not how or c["nmol"] < 2:
        return
    H = system.get_Hamiltonian()
    D = system.get_TransitionDipoleMoment()

    def ask():
        tot = 0.0
        for n in range(1, H.dim):
            tot += float(D.dipole_strength(0, n))
        _ = H.data[0, 0], D.data[0, 0, 0]
        return tot
    if how in ("site", "both"):
        ask()
    if how in ("eigen", "both"):
        with qr.eigenbasis_of(H):
            ask()


def calculate(c, time, system, with_tensor):
    import numpy
    import quantarhei as qr
    prequery(c, system)
    RR = ham = None
    if with_tensor:
        RR, ham = tensor_of(c, time, system)
        ac = qr.AbsSpectrumCalculator(time, system=system, relaxation_tensor=RR, effective_hamiltonian=ham)
        ac._verif_heff = (ham, numpy.array(ham.data).copy())
    else:
        ac = qr.AbsSpectrumCalculator(time, system=system)
    with qr.energy_units("1/cm"):
        ac.bootstrap(rwa=c["rwa"])
    with HfftRecorder() as rec:
        sp = ac.calculate(raw=True)
    return ac, sp, rec.calls, RR


def reference(c, time, system, cfs, H0, D0, rwa, omegas):
    """sum_a |d_a|^2 * Re sum_m c_m a_a(t_m) exp(i W t_m) dt for W in omegas (relative to rwa), a_a(t) =
    exp(-g_a(t) - i (w_a - rwa) t) [* natural decay for a molecule]; g from the code's own _c2g (oracle)"""
    import numpy
    from quantarhei.spectroscopy.abscalculator import _c2g
    t = time.data
    nt = len(t)
    w = numpy.full(nt, 2.0)
    w[0] = 1.0
    w[-1] = 1.0
    out = numpy.zeros(len(omegas))
    lines = []
    ph = numpy.exp(1j * numpy.outer(omegas, t))
    if c["nmol"] == 1:
        dvec = system.dmoments[0, 1, :]
        dd = float(dvec.dot(dvec))
        gam = -1.0 / system.get_electronic_natural_lifetime(1)
        om = system.elenergies[1] - system.elenergies[0] - rwa
        at = numpy.exp(-_c2g(time, cfs[0]) - 1j * om * t) * numpy.exp(gam * t)
        one = dd * numpy.real(ph @ (w * at)) * time.step
        return one, [(float(om + rwa), dd, one)]
    # only transitions from the ground state to the one-exciton band absorb: the reference is built from the
    # one-exciton block alone, whatever else the aggregate's state space contains (mult = 2)
    N = c["nmol"]
    E1, S1 = numpy.linalg.eigh(H0[:N + 1, :N + 1])
    E, S = E1, S1
    n = N + 1
    for a in range(1, n):
        mu = sum(S[j, a] * D0[0, j, :] for j in range(n))
        dd = float(mu.dot(mu))
        ct = sum((S[k + 1, a] ** 4) * cfs[k] for k in range(n - 1))
        at = numpy.exp(-_c2g(time, ct) - 1j * (E[a] - E[0] - rwa) * t)
        one = dd * numpy.real(ph @ (w * at)) * time.step
        lines.append((float(E[a] - E[0]), dd, one))
        out += one
    return out, lines


def qrow(v):
    return cm.clist([cm.qlit(float(x)) for x in v])


def run_case(c, chk, spec_items, spec_meta, grid_items, grid_meta):
    import numpy
    import quantarhei as qr
    tag = "%s:%s:%s" % ("molecule" if c["nmol"] == 1 else "aggregate%d%s" % (c["nmol"], "" if c.get("mult", 1) == 1 else "_mult2"),
                        ("tensor" if c["tensor"] else "plain") + ("" if not c.get("remainder") else "_" + c["remainder"]),
                        "even" if c["nt"] % 2 == 0 else "odd")
    chk.count("spec:" + tag)
    time, system, cfs = build(c)
    agg = c["nmol"] > 1
    if agg:
        H0 = system.get_Hamiltonian().data.copy()
        D0 = system.get_TransitionDipoleMoment().data.copy()
    else:
        H0 = numpy.diag(system.elenergies).astype(float)
        D0 = system.dmoments.copy()
    ac, sp, calls, RR = calculate(c, time, system, c["tensor"])
    if agg:
        coft_cases(c, chk, ac, system)
    R0 = None
    data = numpy.asarray(sp.data, dtype=float)
    with qr.energy_units("int"):
        axis = numpy.asarray(sp.axis.data, dtype=float).copy()
    nt, dt, rwa = c["nt"], c["dt"], float(ac.rwa)
    scale = max(float(numpy.max(numpy.abs(data))), 1e-300)

    # ---- purity
    if agg:
        H1 = system.get_Hamiltonian().data
        D1 = system.get_TransitionDipoleMoment().data
    else:
        H1 = numpy.diag(system.elenergies).astype(float)
        D1 = system.dmoments
    if numpy.max(numpy.abs(H1 - H0)) > 1e-12 * max(1.0, numpy.max(numpy.abs(H0))):
        chk.violation("purity:hamiltonian:" + tag, "calculate() changed the Hamiltonian by %g" % numpy.max(numpy.abs(H1 - H0)), "monitor", c)
    if numpy.max(numpy.abs(D1 - D0)) > 1e-12 * max(1.0, numpy.max(numpy.abs(D0))):
        chk.violation("purity:dipole:" + tag, "calculate() changed the dipole operator by %g" % numpy.max(numpy.abs(D1 - D0)), "monitor", c)
    if c["tensor"]:
        heff, heff0 = ac._verif_heff
        if numpy.max(numpy.abs(heff.data - heff0)) > 1e-12 * max(1.0, numpy.max(numpy.abs(heff0))):
            chk.violation("purity:effective_hamiltonian:" + tag, "calculate() changed the supplied effective Hamiltonian by %g"
                          % numpy.max(numpy.abs(heff.data - heff0)), "monitor", c)
        # the tensor as it was before the calculation: rebuild it on an identical system
        t2, s2, _ = build(c)
        R_ref, _h = tensor_of(c, t2, s2)
        dev = numpy.max(numpy.abs(RR.data - R_ref.data))
        if dev > 1e-10 * max(1e-30, numpy.max(numpy.abs(R_ref.data))):
            chk.violation("purity:tensor:" + tag, "calculate() changed the supplied relaxation tensor by %g (max element %g)"
                          % (dev, numpy.max(numpy.abs(R_ref.data))), "monitor", c)

    # ---- hfft oracle against its defining (half-sided) sum
    for (a, out) in calls[:2]:
        n = 2 * (len(a) - 1)
        if len(out) != n:
            chk.violation("oracle:hfft_length", "hfft of %d points returned %d" % (len(a), len(out)), "monitor", c)
            continue
        w = numpy.full(len(a), 2.0)
        w[0] = 1.0
        w[-1] = 1.0
        kk = numpy.arange(n)
        ref = numpy.real(numpy.exp(-2j * numpy.pi * numpy.outer(kk, numpy.arange(len(a))) / n) @ (w * a))
        if numpy.max(numpy.abs(ref - out)) > 1e-10 * max(1.0, numpy.max(numpy.abs(out))):
            chk.violation("oracle:hfft", "numpy.fft.hfft differs from its defining sum by %g" % numpy.max(numpy.abs(ref - out)), "monitor", c)

    # ---- the Fourier integral (only where the time-domain response can be rebuilt independently: no tensor)
    p = numpy.arange(nt)
    q = p + nt // 2 - nt
    grid = 2.0 * numpy.pi * (q + 2) / ((2 * nt - 2) * dt)
    if len(data) != nt or len(axis) != nt:
        chk.violation("shape:" + tag, "data has %d points, axis %d, time axis %d" % (len(data), len(axis), nt), "monitor", c)
        return False
    if not c["tensor"]:
        ref_grid, ref_lines = reference(c, time, system, cfs, H0, D0, rwa, grid)
        # every transition from the ground state to the one-exciton band is present in the data: judged against the
        # independent reference. data minus the reference contributions of all OTHER lines must reproduce this line's own
        # contribution within the tolerance of the Fourier-integral comparison; it is reported as MISSING when, in addition,
        # leaving its contribution out of the reference explains the data substantially better (residual more than halved).
        resid = data - ref_grid
        err_with = float(numpy.max(numpy.abs(resid)))
        if err_with > 1e-9 * scale:
            for (ea, dda, one) in ref_lines:
                own = float(numpy.max(numpy.abs(one)))
                err_without = float(numpy.max(numpy.abs(resid + one)))
                if own > 1e-9 * scale and err_without < 0.5 * err_with:
                    ia = int(numpy.argmax(numpy.abs(one)))
                    chk.violation("transitions:missing_line:" + tag, "the line at the transition energy %.6g (dipole strength %.4g) is missing: "
                                  "data minus all other lines deviates from this line's Fourier integral by %.4g (line maximum %.4g at grid "
                                  "index %d), the reference without this line is off by only %.4g" % (ea, dda, err_with, own, ia, err_without),
                                  "monitor", c)
        nband = c["nmol"]
        if len(calls) < nband:
            chk.violation("transitions:missing_line:" + tag, "%d transitions to the one-exciton band, only %d were transformed"
                          % (nband, len(calls)), "monitor", c)
        err = float(numpy.max(numpy.abs(ref_grid - data)))
        if err > 1e-9 * scale:
            chk.violation("fourier_integral:transform_grid:" + tag, "data differ from the direct Fourier integral on the grid of the "
                          "transform by %g (max %g)" % (err, scale), "monitor", c)
        ref_axis, _l = reference(c, time, system, cfs, H0, D0, rwa, axis - rwa)
        err = float(numpy.max(numpy.abs(ref_axis - data)))
        if err > 1e-6 * scale:
            i_d, i_r = int(numpy.argmax(data)), int(numpy.argmax(ref_axis))
            chk.violation(SIG_AXIS, "AbsSpectrumCalculator.calculate(raw=True): data differ from the direct Fourier integral of the dipole "
                          "correlation function evaluated at the points of the returned frequency axis by %.3g of the maximum; the data "
                          "belong to the %d-point grid of hfft, the axis is cut from a %d-point grid: maximum at index %d, at index %d on "
                          "the returned axis (step %.6g vs %.6g)" % (err / scale, 2 * nt - 2, 2 * nt, i_d, i_r, 2 * numpy.pi / ((2 * nt - 2) * dt),
                                                                  axis[1] - axis[0]), "monitor", c)
    # ---- symmetry relations (related inputs)
    def spectrum_of(**kw):
        tt, ss, _ = build(c, **kw)
        return numpy.asarray(calculate(c, tt, ss, c["tensor"])[1].data, dtype=float)
    sc = c["scale"]
    tol_sym = 1e-9 if agg else 2e-4          # a molecule's natural line width depends on its dipole (relative effect ~1e-5)
    # scaling at fixed Hamiltonian (explicit couplings; geometry-derived couplings would scale too)
    if not c["tensor"] and (not agg or not c["geometry"]):
        d2 = spectrum_of(dip_scale=sc)
        dev = float(numpy.max(numpy.abs(d2 - sc * sc * data))) / (sc * sc * scale)
        if dev > tol_sym:
            chk.violation("symmetry:scale:" + tag, "dipoles x %g: spectrum deviates from %g x spectrum by %g (relative)" % (sc, sc * sc, dev), "monitor", c)
    Q = rotation(c["rot"][0], c["rot"][1])
    d3 = spectrum_of(rot=Q)
    dev = float(numpy.max(numpy.abs(d3 - data))) / scale
    if dev > (1e-8 if agg else 1e-9):
        chk.violation("symmetry:rotation:" + tag, "common rotation (det %d) of dipoles and positions changes the spectrum by %g (relative)"
                      % (c["rot"][1], dev), "monitor", c)
    if agg:
        d4 = spectrum_of(perm=c["perm"])
        dev = float(numpy.max(numpy.abs(d4 - data))) / scale
        if dev > 1e-8:
            chk.violation("symmetry:relabel:" + tag, "relabelling the molecules %r changes the spectrum by %g (relative)" % (c["perm"], dev), "monitor", c)
    if not c["tensor"] and nt >= 200:
        total = float(numpy.sum(data))
        want = (2 * nt - 2) * dt * float(sum(numpy.dot(d, d) for d in numpy.array(c["dipoles"], dtype=float)))
        if abs(total / want - 1.0) > 2e-3:
            chk.violation("symmetry:sum_rule:" + tag, "sum of the raw spectrum over the window is %g, (2Nt-2) dt sum|d|^2 = %g" % (total, want), "monitor", c)

    # ---- correspondence literals: the model's line list is the one-exciton band (states 1..N of the one-exciton block);
    # states above it (mult = 2) carry no dipole strength from the ground state and their lines are zero
    n1 = c["nmol"] + 1
    if agg:
        E, S = numpy.linalg.eigh(H0[:n1, :n1])
    else:
        S = numpy.eye(2)
    if not c["tensor"]:
        if len(calls) >= n1 - 1 and all(len(o) == 2 * nt - 2 for (_a, o) in calls):
            dl = [D0[0, j, :] for j in range(n1)]
            spec_items.append("(%d%%nat, %s, %d%%nat, %s, %s, %s, %s, %s)" % (
                nt, cm.qlit(dt), n1, cm.clist([qrow(row) for row in S]), cm.clist([qrow(row) for row in dl]),
                cm.clist([qrow(o) for (_a, o) in calls[:n1 - 1]]), qrow(data), cm.qlit(1e-10 * scale)))
            spec_meta.append(c)
        else:
            chk.violation("correspondence:hfft_calls", "%d hfft calls for %d transitions to the one-exciton band" % (len(calls), n1 - 1),
                          "correspondence", c, found_input=False)
    grid_items.append("(%s, %d%%nat, %s, %s, %s, %s)" % (cm.qlit(2.0 * numpy.pi), nt, cm.qlit(dt), cm.qlit(rwa), qrow(axis),
                                                      cm.qlit(1e-12 * (abs(rwa) + numpy.pi / dt))))
    grid_meta.append(c)
    return True


# ------------------------------------------------------------------ exciton correlation functions
COFT_ITEMS, COFT_META = [], []


def coft_cases(c, chk, ac, system):
    """_excitonic_coft driven with an (asymmetric) integer matrix in place of the eigenvectors, so that rows and columns, the +1
    offsets and the pair of site indices of cfm.get_coft are told apart exactly; Model.C11.exc_coft gets the same matrix and the
    site correlation functions of the run at three time points"""
    import numpy
    r = cm.rng("C11/coft/" + json.dumps(c, sort_keys=True))
    na = int(system.nmono)
    dim = int(system.get_Hamiltonian().dim)
    SSi = [[r.randint(-3, 3) for _ in range(dim)] for _ in range(dim)]
    cfm = system.get_SystemBathInteraction().CC
    cof = [[numpy.asarray(cfm.get_coft(k, l), dtype=complex) for l in range(na)] for k in range(na)]
    for n in range(na):
        ct = numpy.asarray(ac._excitonic_coft(numpy.array(SSi, dtype=float), system, n), dtype=complex)
        chk.count("coft:sites%d" % na)
        for tidx in sorted({0, 1, len(ct) // 2}):
            out = complex(ct[tidx])
            Cm = cm.clist([cm.clist([cm.gq(complex(cof[k][l][tidx])) for l in range(na)]) for k in range(na)])
            Sm = cm.clist([cm.clist([cm.zlit(v) for v in row]) for row in SSi])
            COFT_ITEMS.append("(%d%%nat, %s, %s, %d%%nat, %s, %s)" % (na, Sm, Cm, n, cm.gq(out), cm.qlit(1e-12 * (1.0 + abs(out)))))
            COFT_META.append({"case": c, "n": n, "tidx": tidx, "SS": SSi})


# ------------------------------------------------------------------ re-use of one calculator
def gen_reuse(r, k):
    base = gen_case(r, k, tensor=False)
    base["nt"] = r.choice([100, 128, 151, 200])
    nsteps = r.choice([2, 3, 3])
    steps = []
    offs = [0.0, 200.0, -300.0, 400.0, 17.0, -150.0, 350.0]
    for i in range(nsteps):
        u = r.random()
        st = {"sys": 0 if i == 0 else r.choice([0, 0, 1]), "rwa": base["rwa"] + (0.0 if i == 0 else r.choice(offs)), "setrwa": False}
        if i > 0 and u < 0.2:
            st["rwa"] = steps[-1]["rwa"]                    # same arguments again
        if i > 0 and base["nmol"] == 1 and u > 0.8:
            st["setrwa"] = True                              # RWA now defined by the molecule: the argument is ignored
        steps.append(st)
    return {"kind": "reuse", "base": base, "alt": {"shift": r.choice([100.0, -200.0, 250.0]), "reorg": r.choice([20.0, 50.0])},
            "steps": steps}


def reuse_systems(c):
    """the two systems a re-used calculator is pointed at (fresh objects on every call)"""
    b = c["base"]
    b2 = dict(b)
    b2["energies"] = [e + c["alt"]["shift"] for e in b["energies"]]
    b2["reorgs"] = [c["alt"]["reorg"]] * b["nmol"]
    t0, s0, cf0 = build(b)
    t1, s1, cf1 = build(b2)
    return t0, [s0, s1], [cf0, cf1]


def apply_step(ac, systems, st, state):
    import quantarhei as qr
    sysobj = systems[st["sys"]]
    if ac.system is not sysobj:
        ac.system = sysobj
    if st["setrwa"] and not state.get(("setrwa", st["sys"])):
        sysobj.set_electronic_rwa([0, 1])
        state[("setrwa", st["sys"])] = True
    with qr.energy_units("1/cm"):
        ac.bootstrap(rwa=st["rwa"])
    return ac.calculate(raw=True)


def run_reuse(c, chk, grid_items, grid_meta):
    import numpy
    import quantarhei as qr
    b = c["base"]
    tag = "%s:%dsteps" % ("molecule" if b["nmol"] == 1 else "aggregate%d%s" % (b["nmol"], "" if b.get("mult", 1) == 1 else "_mult2"), len(c["steps"]))
    chk.count("reuse:" + tag)
    time, systems, cfs = reuse_systems(c)
    ac = qr.AbsSpectrumCalculator(time, system=systems[c["steps"][0]["sys"]])
    state = {}
    nt, dt = b["nt"], b["dt"]
    ok = True
    for k, st in enumerate(c["steps"]):
        sp = apply_step(ac, systems, st, state)
        data = numpy.asarray(sp.data, dtype=float)
        with qr.energy_units("int"):
            axis = numpy.asarray(sp.axis.data, dtype=float).copy()
        rwa = float(ac.rwa)
        # a fresh calculator on fresh (identical) systems, brought to the same system state, bootstrapped ONCE with these arguments
        ftime, fsystems, _cf = reuse_systems(c)
        fstate = {}
        for j in range(k):
            pj = c["steps"][j]
            if pj["setrwa"] and not fstate.get(("setrwa", pj["sys"])):
                fsystems[pj["sys"]].set_electronic_rwa([0, 1])
                fstate[("setrwa", pj["sys"])] = True
        fac = qr.AbsSpectrumCalculator(ftime, system=fsystems[st["sys"]])
        fsp = apply_step(fac, fsystems, st, fstate)
        fdata = numpy.asarray(fsp.data, dtype=float)
        with qr.energy_units("int"):
            faxis = numpy.asarray(fsp.axis.data, dtype=float).copy()
        scale = max(float(numpy.max(numpy.abs(fdata))), 1e-300)
        what = "bootstrap no. %d of one calculator (rwa argument %g 1/cm, system %d%s; earlier: %s)" % (
            k + 1, st["rwa"], st["sys"], ", RWA set on the molecule" if st["setrwa"] else "",
            ", ".join("%g/sys%d" % (p["rwa"], p["sys"]) for p in c["steps"][:k]) or "none")
        if abs(float(fac.rwa) - rwa) > 1e-12 * max(1.0, abs(rwa)):
            chk.violation("reuse:rwa:" + tag, "%s: calculator.rwa is %r, a fresh calculator has %r" % (what, rwa, float(fac.rwa)), "monitor", c)
            ok = False
        if axis.shape != faxis.shape or float(numpy.max(numpy.abs(axis - faxis))) > 1e-11 * max(1.0, float(numpy.max(numpy.abs(faxis)))):
            dev = float(numpy.max(numpy.abs(axis - faxis))) if axis.shape == faxis.shape else float("inf")
            chk.violation("reuse:axis:" + tag, "%s: the returned frequency axis differs from that of a fresh calculator bootstrapped once with the "
                          "same arguments by %g (grid step %g): every line is displaced by that much from where the RWA frequency %g puts it"
                          % (what, dev, faxis[1] - faxis[0] if len(faxis) > 1 else 0.0, rwa), "monitor", c)
            ok = False
        if data.shape != fdata.shape or float(numpy.max(numpy.abs(data - fdata))) > 1e-9 * scale:
            dev = float(numpy.max(numpy.abs(data - fdata))) if data.shape == fdata.shape else float("inf")
            chk.violation("reuse:data:" + tag, "%s: the spectrum differs from that of a fresh calculator by %g (max %g)" % (what, dev, scale), "monitor", c)
            ok = False
        # the axis follows the RWA frequency: the zero of the index frequency sits at Nt - Nt//2 on the axis cut from bootstrap's
        # grid (two positions lower on the grid of the transform)
        p0 = nt - nt // 2
        if len(axis) == nt and min(abs(axis[p0] - rwa), abs(axis[p0 - 2] - rwa)) > 1e-9 * max(1.0, abs(rwa)):
            chk.violation("reuse:axis_follows_rwa:" + tag, "%s: the returned axis has %r at its zero-frequency position, the RWA frequency is %r"
                          % (what, float(axis[p0]), rwa), "monitor", c)
            ok = False
        if len(axis) == nt:
            grid_items.append("(%s, %d%%nat, %s, %s, %s, %s)" % (cm.qlit(2.0 * numpy.pi), nt, cm.qlit(dt), cm.qlit(rwa), qrow(axis),
                                                              cm.qlit(1e-12 * (abs(rwa) + numpy.pi / dt))))
            grid_meta.append(c)
    return ok



def run(chk, cases):
    spec_items, spec_meta, grid_items, grid_meta = [], [], [], []
    for c in cases:
        chk.count("kind:" + c["kind"])
        try:
            if c["kind"] == "reuse":
                ok = run_reuse(c, chk, grid_items, grid_meta)
                chk.case(c, ok, sample={"reuse": c["steps"], "nmol": c["base"]["nmol"]})
                continue
            ok = run_case(c, chk, spec_items, spec_meta, grid_items, grid_meta)
            chk.case(c, ok, sample={"nmol": c["nmol"], "nt": c["nt"], "dt": c["dt"], "energies": c["energies"], "tensor": c["tensor"]})
        except Exception as e:
            import traceback
            chk.violation("spec:exception", "case raised %r\n%s" % (e, traceback.format_exc()[-800:]), "monitor", c)
            chk.case(c, False)
    imp = "From QV Require Import Base.Alg Base.Util Base.Dft Model.C13 Model.C11.\n"
    shards, index = [], []
    CS = 3
    for k in range(0, len(spec_items), CS):
        shards.append(cm.HEADER + imp + "Definition cs : list case_spec := %s.\nEval vm_compute in (bad spec_agrees cs).\n"
                      % cm.clist(spec_items[k:k + CS]))
        index.append(("spec", k, CS))
    CG = 8
    for k in range(0, len(grid_items), CG):
        shards.append(cm.HEADER + imp + "Definition cs : list case_grid := %s.\nEval vm_compute in (bad (grid_agrees Pinned) cs).\n"
                      "Eval vm_compute in (bad (grid_agrees Repaired) cs).\n" % cm.clist(grid_items[k:k + CG]))
        index.append(("grid", k, CG))
    CC = 40
    for k in range(0, len(COFT_ITEMS), CC):
        shards.append(cm.HEADER + imp + "Definition cs : list case_coft := %s.\nEval vm_compute in (bad coft_agrees cs).\n"
                      % cm.clist(COFT_ITEMS[k:k + CC]))
        index.append(("coft", k, CC))
    results = cm.coq_eval(PID, shards)
    pinned_ok = repaired_ok = ngrid = 0
    for (what, k, ch), (rc, out) in zip(index, results):
        if rc != 0:
            chk.violation("correspondence:coq_error", "coqc failed on %s cases: %s" % (what, out[-600:]), "correspondence",
                          {"what": what}, found_input=False)
            continue
        vals = cm.parse_evals(out)
        badl = cm.parse_natlist(vals[0])
        meta = spec_meta if what == "spec" else (COFT_META if what == "coft" else grid_meta)
        n = min(ch, len(meta) - k)
        if what == "coft":
            chk.corr["cases"] += n
            chk.corr["disagreements"] += len(badl)
            for i in badl[:3]:
                m = meta[k + i]
                chk.violation("correspondence:exciton_coft", "_excitonic_coft(SS, aggregate, %d) differs at time index %d from Model.C11.exc_coft "
                              "(sum_kk sum_ll SS[kk+1,n+1]^2 SS[ll+1,n+1]^2 C_kk,ll) for SS = %s" % (m["n"], m["tidx"], m["SS"]),
                              "correspondence", m["case"])
        elif what == "spec":
            chk.corr["cases"] += n
            chk.corr["disagreements"] += len(badl)
            for i in badl[:3]:
                chk.violation("correspondence:spectrum", "data differ from Model.C11 (dipole strengths x cut(rev(fftshift(hfft))) dt summed over "
                              "transitions) on %s" % json.dumps(meta[k + i])[:400], "correspondence", meta[k + i], found_input=False)
        else:
            badr = cm.parse_natlist(vals[1])
            ngrid += n
            pinned_ok += n - len(badl)
            repaired_ok += n - len(badr)
            chk.corr["cases"] += n
            both = set(badl) & set(badr)
            chk.corr["disagreements"] += len(both)
            for i in sorted(both)[:3]:
                chk.violation("correspondence:axis", "the returned axis is neither the pinned nor the repaired axis of Model.C11 on %s"
                              % json.dumps(meta[k + i])[:400], "correspondence", meta[k + i], found_input=False)
    chk.extra["variant"] = {"axes_checked": ngrid, "axis_is_pinned_model": pinned_ok, "axis_is_repaired_model": repaired_ok}


def corpus():
    base = {"kind": "spec", "mult": 1, "nmol": 1, "nt": 200, "dt": 2.0, "rwa": 12000.0, "energies": [12000.0], "dipoles": [[0, 1, 0]],
            "geometry": False, "positions": [[0.0, 0.0, 0.0]], "couplings": {}, "reorgs": [30.0], "cortime": 100.0, "T": 300.0,
            "tensor": False, "scale": 2.0, "perm": [0], "rot": [7, 1]}
    dimer = {"kind": "spec", "mult": 1, "nmol": 2, "nt": 201, "dt": 2.0, "rwa": 12000.0, "energies": [12100.0, 12000.0],
             "dipoles": [[0, 3, 0], [0, 1, 1]], "geometry": False, "positions": [[0.0, 0.0, 0.0], [5.0, 0.0, 0.0]],
             "couplings": {"0,1": 100.0}, "reorgs": [30.0, 30.0], "cortime": 100.0, "T": 300.0, "tensor": False, "scale": 3.0,
             "perm": [1, 0], "rot": [11, -1]}
    dimer_t = dict(dimer)
    dimer_t.update({"tensor": True, "nt": 200})
    dimer2 = dict(dimer)
    dimer2.update({"mult": 2, "nt": 200})
    trimer2 = {"kind": "spec", "mult": 2, "nmol": 3, "nt": 256, "dt": 2.0, "rwa": 12000.0, "energies": [12200.0, 12000.0, 11900.0],
               "dipoles": [[1, 2, 0], [0, 1, 1], [2, 0, -1]], "geometry": False,
               "positions": [[0.0, 0.0, 0.0], [8.0, 1.0, 0.0], [16.0, 0.0, 2.0]],
               "couplings": {"0,1": 100.0, "0,2": -50.0, "1,2": 150.0}, "reorgs": [30.0, 30.0, 30.0], "cortime": 100.0, "T": 300.0,
               "tensor": False, "scale": 2.0, "perm": [2, 0, 1], "rot": [5, 1]}
    dimer_q = dict(dimer)
    dimer_q.update({"prequery": "site", "nt": 200})
    trimer_q = dict(trimer2)
    trimer_q.update({"prequery": "both", "mult": 1})
    return [base, dimer, dimer_t, dimer2, trimer2, dimer_q, trimer_q]


def reuse_corpus():
    cs = corpus()
    mol, dimer = cs[0], cs[1]
    return [{"kind": "reuse", "base": dict(mol, nt=128), "alt": {"shift": 100.0, "reorg": 50.0},
             "steps": [{"sys": 0, "rwa": 12000.0, "setrwa": False}, {"sys": 0, "rwa": 12400.0, "setrwa": False},
                       {"sys": 0, "rwa": 12400.0, "setrwa": False}]},
            {"kind": "reuse", "base": dict(mol, nt=100), "alt": {"shift": -200.0, "reorg": 20.0},
             "steps": [{"sys": 0, "rwa": 11800.0, "setrwa": False}, {"sys": 0, "rwa": 11800.0, "setrwa": True}]},
            {"kind": "reuse", "base": dict(dimer, nt=128), "alt": {"shift": 250.0, "reorg": 50.0},
             "steps": [{"sys": 0, "rwa": 12000.0, "setrwa": False}, {"sys": 1, "rwa": 12200.0, "setrwa": False},
                       {"sys": 0, "rwa": 11700.0, "setrwa": False}]}]


def call_order_monitor(chk, tier):
    """the order of legitimate public calls before the calculation does not matter: on one of two identically built aggregates
    Aggregate.diagonalize() is called BEFORE anything has asked for its operators; the spectra of the two are the same, and the
    dipole operator handed out is the site-basis one in both."""
    import io
    import contextlib
    import numpy
    import quantarhei as qr
    r = cm.rng(PID + "order")
    for k in range(3 if tier == "quick" else 16):
        c = gen_case(r, 1000 + k, nmol=r.choice([2, 3]), tensor=False)
        c["kind"], c["mult"], c["remainder"], c["prequery"] = "call_order", 1, None, None
        if not c["geometry"] and not any(abs(v) > 0 for v in c["couplings"].values()):
            c["couplings"][sorted(c["couplings"])[0]] = 120.0
        try:
            specs, dips = [], []
            for first in (False, True):
                with contextlib.redirect_stdout(io.StringIO()):
                    time, system, _cfs = build(c)
                    if first:
                        system.diagonalize()
                    ac = qr.AbsSpectrumCalculator(time, system=system)
                    with qr.energy_units("1/cm"):
                        ac.bootstrap(rwa=c["rwa"])
                    specs.append(numpy.array(ac.calculate(raw=True).data, dtype=float))
                    dips.append(numpy.array(system.get_TransitionDipoleMoment().data).copy())
            chk.count("call_order:diagonalize_first")
            chk.case(("call_order", k), True)
            sc = max(1e-300, float(numpy.max(numpy.abs(specs[0]))))
            dev = float(numpy.max(numpy.abs(specs[0] - specs[1])))
            if dev > 1e-9 * sc:
                chk.violation("call_order:spectrum", "the spectrum of an aggregate on which diagonalize() was called before the calculation differs from "
                              "that of an identically built aggregate by %.3g (relative %.3g)" % (dev, dev / sc), "monitor", c)
            ddev = float(numpy.max(numpy.abs(dips[0] - dips[1])))
            if ddev > 1e-9 * max(1.0, float(numpy.max(numpy.abs(dips[0])))):
                chk.violation("call_order:dipole_operator", "after the calculation the dipole operators of the two aggregates differ by %.3g" % ddev,
                              "monitor", c)
        except Exception as e:
            chk.violation("call_order:exception", "call-order monitor raised %r" % (e,), "monitor", c)


def main():
    chk = cm.Check(PID, args.tier)
    chk.rule = ("molecules, dimers, trimers; transition energies within +-250 1/cm of the RWA frequency (lines resolved inside the window), "
                "integer dipole vectors, aggregates built with mult = 1 and mult = 2 (two-exciton states present), couplings explicit (0..+-200 1/cm) or from dipole-dipole geometry, Nt in {100..301} even and odd, "
                "dt in {1, 1.5, 2} fs, equal or different reorganisation energies, with/without a supplied standard Redfield tensor; each "
                "case also with scaled, rotated (proper/improper), relabelled inputs; in 40% of the aggregate cases read-only queries (dipole strengths / operator data in the site basis, inside eigenbasis_of(H) or both) are made on the system before the calculation; re-use cases: ONE calculator bootstrapped 2-3 times (other RWA frequency, the same one again, RWA then defined on the molecule, another system / lineshape) with calculate() after each, compared with a fresh calculator bootstrapped once; for every aggregate case _excitonic_coft is also driven directly with a random asymmetric integer matrix (-3..3) in place of the eigenvectors, every exciton index, and compared exactly (1e-12) with Model.C11.exc_coft at three time points. Non-trivial: every completed case; distinct by input")
    chk.assumptions = [
        "numpy.fft.hfft computes Re sum_m c_m a_m exp(-2 pi i m k / n), c = (1,2,...,2,1), n = 2Nt-2 (hypothesis hfft_spec): monitored, 1e-10",
        "the lineshape function g(t) is the code's own _c2g (spline double integration: oracle, property C09/C10 territory); eigenvectors from "
        "numpy.linalg.eigh (oracle; orthogonality is a hypothesis of the sum rule)",
        "Fourier integral = trapezoid sum over the time axis (that is what a discrete spectrum can equal); compared within 1e-9 (transform grid)",
        "sum rule over the returned window is validated only (2e-3): the theorem is about the full grid of the transform",
        "scaling of a single molecule's spectrum holds up to its natural line width, which depends on the dipole (relative 1e-5; tolerance 2e-4)",
        "with a supplied tensor the time-domain response is not rebuilt independently: purity, symmetry and axis clauses only",
        "the calculator sets system._has_system_bath_coupling = True on aggregates (an attribute, not H, D or R): noted, not a violation"]
    chk.assumptions.append(
        "static tie (harness/translate_c11.py, translate_c13.py; trusted to read the ast faithfully): the tail of one_transition_spectrum and of "
        "_calculate_abs_from_dynamics, the sum over transitions of _calculate_aggregate, bootstrap's creation and shift of self.frequencyAxis, "
        "TimeAxis.get_FrequencyAxis and the re-created axis of the three calculators are translated from the current source and proved equal to "
        "Model.C11 (one_transition, spectrum, returned_axis_point Pinned - the code as it is, known finding included); assumed meanings: "
        "numpy.flipud = reversal, fftshift = roll by n//2, a[i:j] = Python slice, numpy.real of hfft's (real) output is the identity, `.data += c` "
        "adds c to every axis value and leaves start/step attributes alone, FrequencyAxis(st, Nt, do) has points st + p do; the calculator's "
        "TimeAxis is upper-half with frequency_start 0; _excitonic_coft's loop nest and accumulated term are translated and proved equal to "
        "Model.C11.exc_coft (time point by time point; cfm.get_coft(k, l) is an input); the time-domain responses (exp(-g - i w t), _c2g) are inputs")
    chk.prove()
    import translate
    translate.static_tie(cm, chk, PID, cm.REPO)      # second, static tie: model regenerated from the current source
    if args.replay:
        rep = json.load(open(args.replay))
        cases = [rep["input"]] if isinstance(rep.get("input"), dict) and rep["input"].get("kind") in ("spec", "reuse") else []
    else:
        r = cm.rng(PID)
        ncase = 30 if args.tier == "quick" else 200
        cases = corpus() + [gen_case(r, k) for k in range(ncase)]
        r2 = cm.rng(PID + "/reuse")
        cases += reuse_corpus() + [gen_reuse(r2, k) for k in range(10 if args.tier == "quick" else 80)]
    run(chk, cases)
    if not args.replay:
        call_order_monitor(chk, args.tier)
    chk.finish()


main()
