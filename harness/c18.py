# -*- coding: utf-8 -*-
"""C18 - saved objects and exported data load back to the same physical values.

Proof: coq/theories/Props/C18.v.
Tie A (exported data): the finite matrix {dat,txt,npy,npz,mat} x {real,complex} x {no axis,axis} x shapes
  {(N,), (N,M) regular; (N,1), (1,M), (1,), (1,1) degenerate} is enumerated exhaustively with random small
  Gaussian-integer values (exact in every format) through DataSaveable.save_data/load_data (and MatrixData for
  its formats); what comes back (axis, shape, values, or an exception) is compared inside Coq with
  Model.C18.export_import (exact).  Monitors: regular shapes must come back identical (shape, values, axis);
  every successful import must return the exported values in storage order; random float64 values must survive
  the text formats bit for bit; spectra with a units-managed axis inside an energy-units context.
Tie B (parcels): random programs (new / read / enter / leave / save / load) on real Operator objects with integer
  data and exact (signed permutation) basis changes; values read or the 'not on stack' failure compared inside Coq
  with Model.C18.run18 on the C04 machine (exact).  Monitors: every Saveable class the harness can instantiate x
  {no context, units context, basis context} around save x around load: raw content of the loaded object equals
  the saved one (deep attribute walk, arrays by value) and its `data` read outside every context equals the original's.
"""
import os
import sys
import io
import json
import itertools
import contextlib
import tempfile
import shutil
import traceback

sys.path.insert(0, os.path.dirname(os.path.abspath(__file__)))
import common as cm
import c15 as walk          # deep snapshot helper (module has no side effects on import)

PID = "C18"

EXTS = ["dat", "txt", "npy", "npz", "mat"]
FMT = {"dat": "Dat", "txt": "Txt", "npy": "Npy", "npz": "Npz", "mat": "Mat"}


# ========================================================================================
#  A. exported data
# ========================================================================================

def shapes(r):
    n, m = r.choice([2, 3, 5]), r.choice([2, 3, 4])
    return [("regular", (n,)), ("regular", (n, m)), ("regular", (r.choice([2, 4]), 2)),
            ("Nx1", (n, 1)), ("1xM", (1, m)), ("1", (1,)), ("1x1", (1, 1))]


def zz(x):
    x = complex(x)
    return "(%s, %s)" % (cm.zlit(int(x.real)), cm.zlit(int(x.imag)))


def arr_lit(a):
    import numpy
    a = numpy.asarray(a)
    if a.ndim == 0:
        return "(A0 %s)" % zz(a)
    if a.ndim == 1:
        return "(A1 %s)" % cm.clist([zz(x) for x in a])
    return "(A2 %d%%nat %s)" % (a.shape[1], cm.clist([cm.clist([zz(x) for x in row]) for row in a]))


def data_cases(r, reps):
    import numpy
    out = []
    for rep in range(reps):
        for ext, cplx, ax in itertools.product(EXTS, [False, True], [False, True]):
            for cls, shp in shapes(r):
                d = numpy.array([r.randint(-9, 9) for _ in range(int(numpy.prod(shp)))], dtype=float).reshape(shp)
                if cplx:
                    d = d + 1j * numpy.array([r.randint(-9, 9) for _ in range(d.size)], dtype=float).reshape(shp)
                axis = [float(r.randint(-20, 20)) for _ in range(shp[0])] if ax else None
                out.append({"ext": ext, "cplx": cplx, "axis": axis, "shape": list(shp), "class": cls,
                            "re": numpy.real(d).ravel().tolist(), "im": numpy.imag(d).ravel().tolist()})
    return out


class PlainAxis:
    """the axis argument of save_data/load_data is anything with a `data` attribute"""
    def __init__(self, data):
        import numpy
        self.data = numpy.array(data, dtype=float)


def run_data_case(c, td, holder="DS"):
    """-> ('ok', axis or None, loaded array) | ('raised', message)"""
    import numpy
    from quantarhei.core.datasaveable import DataSaveable
    from quantarhei.core.matrixdata import MatrixData

    class DS(DataSaveable):
        def __init__(self, data=None):
            self.data = data
    d = (numpy.array(c["re"]) + (1j * numpy.array(c["im"]) if c["cplx"] else 0)).reshape(c["shape"])
    fn = os.path.join(td, "f." + c["ext"])
    sink = io.StringIO()
    try:
        with contextlib.redirect_stdout(sink):
            if holder == "DS":
                a1 = PlainAxis(c["axis"]) if c["axis"] is not None else None
                a2 = PlainAxis([0.0] * len(c["axis"])) if c["axis"] is not None else None
                o1, o2 = DS(d.copy()), DS(None)
                o1.save_data(fn, with_axis=a1)
                o2.load_data(fn, with_axis=a2)
                return ("ok", None if a2 is None else numpy.asarray(a2.data), numpy.asarray(o2.data))
            o1, o2 = MatrixData(data=d.copy()), MatrixData(data=numpy.zeros(1))
            o1.save_data(fn)
            o2.load_data(fn)
            return ("ok", None, numpy.asarray(o2.data))
    except Exception as e:
        return ("raised", "%s: %s" % (type(e).__name__, str(e)[:120]))
    finally:
        for f in os.listdir(td):
            try:
                os.remove(os.path.join(td, f))
            except OSError:
                pass


def check_data(chk, r, reps, td):
    import numpy
    items, meta = [], []
    for c in data_cases(r, reps):
        d = (numpy.array(c["re"]) + 1j * numpy.array(c["im"])).reshape(c["shape"])
        res = run_data_case(c, td)
        key = "data:%s:%s:%s" % (c["ext"], "axis" if c["axis"] is not None else "noaxis", c["class"])
        chk.count(key + (":raised" if res[0] == "raised" else ""))
        # ---- monitors
        if c["class"] == "regular" and not (c["ext"] == "mat" and c["axis"] is None and len(c["shape"]) == 1):
            if res[0] == "raised":
                chk.violation(key, "save_data/load_data of %s %s data of shape %s %s raised %s"
                              % (c["ext"], "complex" if c["cplx"] else "real", tuple(c["shape"]),
                                 "with axis" if c["axis"] is not None else "without axis", res[1]), "monitor", {"data": c})
            else:
                _, ax, l = res
                if l.shape != d.shape or not numpy.array_equal(l, d) or \
                        (c["axis"] is not None and not numpy.array_equal(ax, numpy.array(c["axis"]))):
                    chk.violation(key, "%s round trip changed data or axis: shape %s -> %s" % (c["ext"], d.shape, l.shape),
                                  "monitor", {"data": c})
        elif res[0] == "raised":
            # every generated shape can be written and read back (the repaired model never fails on them)
            chk.violation(key + ":raised", "save_data/load_data of %s %s data of shape %s %s raised %s"
                          % (c["ext"], "complex" if c["cplx"] else "real", tuple(c["shape"]),
                             "with axis" if c["axis"] is not None else "without axis", res[1]), "monitor", {"data": c})
        else:
            _, ax, l = res
            if l.size != d.size or not numpy.array_equal(l.ravel(), d.ravel()) or \
                    (c["axis"] is not None and not numpy.array_equal(numpy.asarray(ax).ravel(), numpy.array(c["axis"]))):
                chk.violation(key + ":values", "%s round trip of shape %s changed the VALUES" % (c["ext"], tuple(c["shape"])),
                              "monitor", {"data": c})
            elif l.shape != d.shape:
                chk.count("shape_changed_by_format:%s:%s:%s" % (c["ext"], "axis" if c["axis"] is not None else "noaxis", c["class"]))
        # ---- correspondence
        if res[0] == "ok":
            _, ax, l = res
            obs = "(Some (%s, %s))" % ("None" if ax is None else "(Some %s)" % cm.clist([zz(x) for x in numpy.asarray(ax).ravel()]),
                                       arr_lit(l))
        else:
            obs = "None"
        axl = "None" if c["axis"] is None else "(Some %s)" % cm.clist([zz(x) for x in c["axis"]])
        items.append("(true, %s, %s, %s, %s)" % (FMT[c["ext"]], axl, arr_lit(d), obs))
        meta.append(c)
        chk.case(("data", json.dumps(c, sort_keys=True)), True,
                 sample={"data": {k: c[k] for k in ("ext", "cplx", "shape", "class")}, "axis": c["axis"] is not None,
                         "result": res[0] if res[0] == "raised" else list(res[2].shape)})
        # MatrixData: same writers without axis and without .mat
        if c["axis"] is None and c["ext"] != "mat":
            res2 = run_data_case(c, td, holder="MD")
            chk.count("matrixdata:%s%s" % (c["ext"], ":raised" if res2[0] == "raised" else ""))
            ok2 = res2[0] == "ok" and res2[2].size == d.size and numpy.array_equal(res2[2].ravel(), d.ravel()) and \
                (c["class"] != "regular" or res2[2].shape == d.shape)
            if not ok2:
                chk.violation("matrixdata:%s:%s" % (c["ext"], "complex" if c["cplx"] else "real"),
                              "MatrixData.save_data/load_data (%s, %s, shape %s): %s" % (c["ext"], "complex" if c["cplx"] else "real",
                              tuple(c["shape"]), res2[1] if res2[0] == "raised" else "values or shape changed"), "monitor", {"data": c})
            chk.case(("matrixdata", json.dumps(c, sort_keys=True)), True)
    # random float64 through the text formats and units-managed axes
    for k in range(8 * reps):
        rs = numpy.random.RandomState(r.randint(0, 10 ** 6))
        d = rs.randn(4, 3) * 10.0 ** rs.randint(-8, 8)
        c = {"ext": r.choice(["dat", "txt"]), "cplx": False, "axis": (rs.randn(4) * 100).tolist(), "shape": [4, 3], "class": "regular",
             "re": d.ravel().tolist(), "im": [0.0] * 12}
        res = run_data_case(c, td)
        if res[0] != "ok" or not numpy.array_equal(res[2], d) or not numpy.array_equal(res[1], numpy.array(c["axis"])):
            chk.violation("data:text:float_bits", "float64 values do not survive the text format bit for bit", "monitor", {"data": c})
        chk.case(("float", json.dumps(c, sort_keys=True)), True)
        chk.count("data:text:random_float64")
    check_spectrum(chk, r, td)
    return items, meta


def check_spectrum(chk, r, td):
    """a real DataSaveable with a units-managed axis (AbsSpectrum.save_data/load_data use their own axis)"""
    import numpy
    import quantarhei as qr
    for ext in EXTS:
        for units in (None, "1/cm", "eV"):
            ctx = qr.energy_units(units) if units else contextlib.nullcontext()
            try:
                with contextlib.redirect_stdout(io.StringIO()):
                    with ctx:
                        ax1 = qr.FrequencyAxis(1.0 if units is None else (10000.0 if units == "1/cm" else 1.2), 6, 0.01 if units is None else (10.0 if units == "1/cm" else 0.01))
                        ax2 = qr.FrequencyAxis(0.0, 6, 1.0)
                        s1, s2 = qr.AbsSpectrum(axis=ax1, data=numpy.arange(6.0) ** 2), qr.AbsSpectrum(axis=ax2, data=numpy.zeros(6))
                        fn = os.path.join(td, "s." + ext)
                        s1.save_data(fn)
                        s2.load_data(fn)
                        a1, a2 = numpy.array(ax1.data), numpy.array(s2.axis.data)
                    dev = float(numpy.max(numpy.abs(a1 - a2)) / numpy.max(numpy.abs(a1)))
                    ok = numpy.array_equal(s2.data, s1.data) and dev <= 1e-13
                    what = "axis deviates by %g relative" % dev
            except Exception as e:
                ok, what = False, "raised %r" % (e,)
            chk.count("spectrum:%s:%s" % (ext, units or "int"))
            chk.case(("spectrum", ext, units), True)
            if not ok:
                chk.violation("data:%s:axis:spectrum" % ext, "AbsSpectrum.save_data/load_data (%s, units %s): %s" % (ext, units, what),
                              "monitor", {"spectrum": [ext, units]})


# ========================================================================================
#  B. parcels
# ========================================================================================

def reset_manager():
    import quantarhei as qr
    m = qr.Manager()
    m.basis_stack = [0]
    m.basis_transformations = [1]
    m.basis_registered = {}
    m._in_eigenbasis_of_context = False
    m.current_basis_operator = None
    try:
        m.set_current_units("energy", "int")
    except Exception:
        pass


def conj_diag(r, n):
    p = list(range(n))
    r.shuffle(p)
    d = r.sample(range(-6, 9), n)
    A = [[0] * n for _ in range(n)]
    for k in range(n):
        A[p[k]][p[k]] = d[k]
    return A


def gen_parcel_prog(r):
    n = r.choice([2, 2, 3])
    ops = [["new", 0, "sa", conj_diag(r, n)], ["new", 1, "sa", conj_diag(r, n)],
           ["new", 2, "op", [[r.randint(-3, 3) for _ in range(n)] for _ in range(n)]],
           ["new", 3, "op", [[r.randint(-3, 3) for _ in range(n)] for _ in range(n)]]]
    depth, nxt, files, objs = 0, 4, [], [2, 3]
    if r.random() < 0.6:
        # save inside a context what was presented there, load it somewhere else
        x = r.choice(objs)
        ops += [["enter", r.choice([0, 1])], ["read", x], ["save", x, 0]]
        files.append(0)
        depth = 1
        where = r.choice(["outside", "other", "same", "nested"])
        if where == "outside":
            ops.append(["leave"])
            depth = 0
        elif where == "other":
            ops += [["leave"], ["enter", r.choice([0, 1])]]
        elif where == "nested":
            ops.append(["enter", r.choice([0, 1])])
            depth = 2
        ops += [["load", 0, nxt], ["read", nxt], ["read", x]]
        objs.append(nxt)
        nxt += 1
    for _ in range(r.randint(4, 12)):
        u = r.random()
        if u < 0.22 and depth < 2:
            ops.append(["enter", r.choice([0, 1])])
            depth += 1
        elif u < 0.40 and depth > 0:
            ops.append(["leave"])
            depth -= 1
        elif u < 0.62:
            ops.append(["read", r.choice(objs)])
        elif u < 0.80:
            k = len(files)
            files.append(k)
            ops.append(["save", r.choice(objs), k])
        elif files:
            ops.append(["load", r.choice(files), nxt])
            objs.append(nxt)
            nxt += 1
            ops.append(["read", nxt - 1])
    while depth > 0:
        ops.append(["leave"])
        depth -= 1
    for i in objs:
        ops.append(["read", i])
    return {"n": n, "ops": ops}


def run_parcel_prog(c, td):
    """-> list of ('val', i, matrix) / ('err', i), list of diagonalisers in enter order, problems"""
    import numpy as np
    import quantarhei as qr
    from quantarhei.qm.hilbertspace.operators import Operator, SelfAdjointOperator
    reset_manager()
    m = qr.Manager()
    objs, outs, Ts = {}, [], []
    stack = []
    try:
        for op in c["ops"]:
            k = op[0]
            if k == "new":
                arr = np.array(op[3], dtype=float if op[2] == "sa" else complex)
                objs[op[1]] = SelfAdjointOperator(data=arr) if op[2] == "sa" else Operator(data=arr)
            elif k == "read":
                try:
                    outs.append(("val", op[1], np.array(objs[op[1]].data)))
                except Exception as e:
                    if "not on stack" in str(e):
                        outs.append(("err", op[1]))
                    else:
                        raise
            elif k == "enter":
                ctx = qr.eigenbasis_of(objs[op[1]])
                try:
                    ctx.__enter__()
                except Exception as e:
                    if "not on stack" in str(e):
                        outs.append(("err", op[1]))
                        Ts.append(None)
                        stack.append(None)
                        continue
                    raise
                SS = np.array(m.basis_transformations[-1])
                if not np.array_equal(np.abs(SS), np.round(np.abs(SS))):
                    raise AssertionError("diagonaliser is not an exact signed permutation")
                Ts.append(SS)
                stack.append(ctx)
            elif k == "leave":
                ctx = stack.pop()
                if ctx is not None:
                    ctx.__exit__(None, None, None)
            elif k == "save":
                objs[op[1]].save(os.path.join(td, "p%d.qrp" % op[2]))
            elif k == "load":
                objs[op[2]] = qr.load_parcel(os.path.join(td, "p%d.qrp" % op[1]))
    finally:
        while stack:
            ctx = stack.pop()
            if ctx is not None:
                try:
                    ctx.__exit__(None, None, None)
                except Exception:
                    pass
        reset_manager()
    return outs, Ts


def coq_parcel_case(c, outs, Ts):
    import numpy as np

    def mat(a):
        a = np.asarray(a)
        return cm.clist([cm.clist([cm.zlit(int(round(float(np.real(x))))) for x in row]) for row in a])
    ops, ti = [], 0
    skip_leave = []
    for op in c["ops"]:
        k = op[0]
        if k == "new":
            ops.append("ONew _ _ %d%%nat (XM (mat_of (R:=ZR) %s))" % (op[1], mat(op[3])))
        elif k == "read":
            ops.append("ORead _ _ %d%%nat" % op[1])
        elif k == "enter":
            T = Ts[ti]
            ti += 1
            if T is None:
                ops.append("OEnter _ _ %d%%nat (@mid ZR)" % op[1])     # fails in the model as in the code
                skip_leave.append(True)
            else:
                ops.append("OEnter _ _ %d%%nat (mat_of (R:=ZR) %s)" % (op[1], mat(T)))
                skip_leave.append(False)
        elif k == "leave":
            if not skip_leave.pop():
                ops.append("OLeave _ _")
        elif k == "save":
            ops.append("OSave _ _ %d%%nat %d%%nat" % (op[1], op[2]))
        elif k == "load":
            ops.append("OLoad _ _ %d%%nat %d%%nat" % (op[1], op[2]))
    obs = []
    for o in outs:
        if o[0] == "val":
            a = np.asarray(o[2])
            if np.max(np.abs(a.imag)) != 0 or not np.array_equal(a.real, np.round(a.real)):
                raise ValueError("non-integer value read")
            obs.append("XVal %d%%nat %s" % (o[1], mat(a)))
        else:
            obs.append("XErr %d%%nat" % o[1])
    return "(%d%%nat, %s, %s)" % (c["n"], cm.clist(ops), cm.clist(obs))


def make_objects():
    """name -> (factory of a Saveable object); everything the harness can instantiate"""
    import numpy
    import quantarhei as qr
    from quantarhei.qm.hilbertspace.operators import Operator, SelfAdjointOperator

    def dimer():
        with qr.energy_units("1/cm"):
            ta = qr.TimeAxis(0.0, 60, 1.0)
            cf = qr.CorrelationFunction(ta, dict(ftype="OverdampedBrownian", reorg=20, cortime=100, T=300))
            m1, m2 = qr.Molecule([0.0, 12000.0]), qr.Molecule([0.0, 12200.0])
            m1.set_dipole(0, 1, [1.0, 0.0, 0.0])
            m2.set_dipole(0, 1, [0.0, 1.0, 0.0])
            m1.set_transition_environment((0, 1), cf)
            m2.set_transition_environment((0, 1), cf)
            agg = qr.Aggregate(molecules=[m1, m2])
            agg.set_resonance_coupling(0, 1, 80.0)
        agg.build()
        return agg

    def f_time():
        return qr.TimeAxis(0.0, 20, 1.0)

    def f_freq():
        with qr.energy_units("1/cm"):
            return qr.FrequencyAxis(10000.0, 20, 10.0)

    def f_dfunction():
        return qr.DFunction(qr.TimeAxis(0.0, 20, 1.0), numpy.arange(20.0) ** 2 + 1j * numpy.arange(20.0))

    def f_operator():
        return Operator(data=numpy.array([[1.0, 2.0, 0.5], [3.0, 4.0, -1.0], [0.0, 1.0, 2.0]]))

    def f_sa():
        return SelfAdjointOperator(data=numpy.array([[1.0, 2.0, 0.5], [2.0, 4.0, -1.0], [0.5, -1.0, 2.0]]))

    def f_ham():
        with qr.energy_units("1/cm"):
            return qr.Hamiltonian(data=[[0.0, 0.0, 0.0], [0.0, 12000.0, 100.0], [0.0, 100.0, 12300.0]])

    def f_rdm():
        return qr.ReducedDensityMatrix(data=numpy.array([[0.0, 0.0, 0.0], [0.0, 0.6, 0.1], [0.0, 0.1, 0.4]]))

    def f_dm():
        return qr.DensityMatrix(data=numpy.array([[0.0, 0.0, 0.0], [0.0, 0.6, 0.1j], [0.0, -0.1j, 0.4]]))

    def f_mol():
        with qr.energy_units("1/cm"):
            m = qr.Molecule([0.0, 12000.0])
            m.set_dipole(0, 1, [1.0, 0.5, 0.0])
        return m

    def f_mode():
        with qr.energy_units("1/cm"):
            return qr.Mode(250.0)

    def f_cf():
        with qr.energy_units("1/cm"):
            return qr.CorrelationFunction(qr.TimeAxis(0.0, 60, 1.0), dict(ftype="OverdampedBrownian", reorg=20, cortime=100, T=300))

    def f_sd():
        with qr.energy_units("1/cm"):
            return qr.SpectralDensity(qr.TimeAxis(0.0, 60, 1.0), dict(ftype="OverdampedBrownian", reorg=20, cortime=100))

    def f_sbi():
        return dimer().get_SystemBathInteraction()

    def f_rt():
        agg = dimer()
        rt, ham = agg.get_RelaxationTensor(qr.TimeAxis(0.0, 10, 1.0), relaxation_theory="stR")
        return rt

    def f_evol():
        agg = dimer()
        pr = agg.get_ReducedDensityMatrixPropagator(qr.TimeAxis(0.0, 6, 1.0), relaxation_theory="stR")
        rho = qr.ReducedDensityMatrix(dim=3)
        rho.data[1, 1] = 1.0
        return pr.propagate(rho)

    def f_eso():
        agg = dimer()
        ta = qr.TimeAxis(0.0, 4, 1.0)
        rt, ham = agg.get_RelaxationTensor(ta, relaxation_theory="stR")
        es = qr.qm.EvolutionSuperOperator(ta, ham, rt)
        es.calculate()
        return es

    def f_abs():
        with qr.energy_units("1/cm"):
            return qr.AbsSpectrum(axis=qr.FrequencyAxis(10000.0, 12, 10.0), data=numpy.arange(12.0) ** 2)

    def f_absc():
        with qr.energy_units("1/cm"):
            ax = qr.FrequencyAxis(10000.0, 12, 10.0)
            cont = qr.AbsSpectrumContainer(axis=ax)
            cont.set_spectrum(qr.AbsSpectrum(axis=ax, data=numpy.arange(12.0)), tag="a")
            cont.set_spectrum(qr.AbsSpectrum(axis=ax, data=numpy.arange(12.0) ** 2), tag="b")
        return cont

    def f_twod():
        from quantarhei.spectroscopy.twod2 import TwoDResponse
        t = TwoDResponse()
        t.set_axis_1(qr.FrequencyAxis(0.0, 3, 1.0))
        t.set_axis_3(qr.FrequencyAxis(0.0, 3, 1.0))
        t._add_data(numpy.arange(9.0).reshape(3, 3) * (1 + 1j), dtype="R1g", tag=1)
        return t

    def f_twod_pathways():
        # individual Liouville pathways kept (storage resolution "pathways"); .data is the total spectrum
        from quantarhei.spectroscopy.twod2 import TwoDResponse
        t = TwoDResponse()
        t.set_axis_1(qr.FrequencyAxis(0.0, 3, 1.0))
        t.set_axis_3(qr.FrequencyAxis(0.0, 3, 1.0))
        t._add_data(numpy.arange(9.0).reshape(3, 3) * (1 + 1j), resolution="pathways", dtype="R1g", tag=1)
        t._add_data(numpy.arange(9.0)[::-1].reshape(3, 3) * (2 - 1j), resolution="pathways", dtype="R2g", tag=2)
        t.set_data_flag(qr.signal_TOTL)          # the flag a fresh response carries: .data reads the total
        return t

    def f_twodc():
        t2 = qr.TimeAxis(0.0, 2, 10.0)
        cont = qr.TwoDResponseContainer(t2) if hasattr(qr, "TwoDResponseContainer") else qr.TwoDSpectrumContainer(t2)
        cont.use_indexing_type(t2)
        for k, tt in enumerate(t2.data):
            t = f_twod()
            t.set_t2(tt)
            cont.set_spectrum(t)
        return cont

    def f_agg():
        return dimer()

    return [("TimeAxis", f_time), ("FrequencyAxis", f_freq), ("DFunction", f_dfunction), ("Operator", f_operator),
            ("SelfAdjointOperator", f_sa), ("Hamiltonian", f_ham), ("ReducedDensityMatrix", f_rdm), ("DensityMatrix", f_dm),
            ("Molecule", f_mol), ("Mode", f_mode), ("Aggregate", f_agg), ("CorrelationFunction", f_cf), ("SpectralDensity", f_sd),
            ("SystemBathInteraction", f_sbi), ("RedfieldRelaxationTensor", f_rt), ("ReducedDensityMatrixEvolution", f_evol),
            ("EvolutionSuperOperator", f_eso), ("AbsSpectrum", f_abs), ("AbsSpectrumContainer", f_absc),
            ("TwoDResponse", f_twod), ("TwoDResponse(pathways)", f_twod_pathways), ("TwoDResponseContainer", f_twodc)]


def observable(o):
    """what a user reads: `data` (through the managed property), axis data, a few scalars"""
    import numpy
    out = {}
    for attr in ("data", "elenergies", "start", "step", "length", "lamb", "temperature"):
        try:
            v = getattr(o, attr)
        except AttributeError:
            continue
        if isinstance(v, numpy.ndarray) and v.dtype != object:
            out[attr] = numpy.array(v)
        elif isinstance(v, (int, float, complex)):
            out[attr] = numpy.array([v])
    ax = getattr(o, "axis", None)
    if ax is not None and hasattr(ax, "data"):
        out["axis.data"] = numpy.array(ax.data)
    # values read through the units-managed getters (they convert with whatever manager the object consults)
    nel = getattr(o, "nel", None)
    if isinstance(nel, int) and hasattr(o, "get_energy") and not hasattr(o, "monomers"):
        try:
            out["get_energy"] = numpy.array([o.get_energy(n) for n in range(nel)], dtype=float)
        except Exception:
            pass
    mons = getattr(o, "monomers", None)
    if isinstance(mons, (list, tuple)):
        for i, m in enumerate(mons):
            try:
                out["monomers[%d].get_energy" % i] = numpy.array([m.get_energy(n) for n in range(m.nel)], dtype=float)
            except Exception:
                pass
        if hasattr(o, "get_resonance_coupling"):
            try:
                out["get_resonance_coupling"] = numpy.array([[o.get_resonance_coupling(i, j) for j in range(len(mons))]
                                                             for i in range(len(mons))], dtype=float)
            except Exception:
                pass
    # the conversion every units-managed accessor of the object goes through (of the object and of the objects it holds)
    for nm, x in [("", o)] + [("monomers[%d]." % i, m) for i, m in enumerate(mons or [])]:
        if hasattr(x, "convert_energy_2_current_u"):
            try:
                out[nm + "convert_energy_2_current_u(1)"] = numpy.array([x.convert_energy_2_current_u(1.0)], dtype=float)
            except Exception:
                pass
    if hasattr(o, "get_reorganization_energy"):
        try:
            out["get_reorganization_energy"] = numpy.array([o.get_reorganization_energy()], dtype=float)
        except Exception:
            pass
    return out


def check_parcel_classes(chk, td):
    import numpy
    import quantarhei as qr
    from quantarhei.qm.hilbertspace.operators import SelfAdjointOperator
    ctxs = ["none", "units", "basis"]

    def ctx(kind):
        if kind == "units":
            return qr.energy_units("1/cm")
        if kind == "basis":
            return qr.eigenbasis_of(SelfAdjointOperator(data=numpy.array([[0.0, 0.0, 0.0], [0.0, 1.0, 0.4], [0.0, 0.4, 1.5]])))
        return contextlib.nullcontext()

    for name, fac in make_objects():
        for cs, cl in itertools.product(ctxs, ctxs):
            reset_manager()
            sink = io.StringIO()
            try:
                with contextlib.redirect_stdout(sink):
                    o = fac()
            except Exception as e:
                chk.count("cannot_instantiate:%s" % name)
                chk.notes.append("cannot instantiate %s: %r" % (name, e)) if cs == "none" and cl == "none" else None
                break
            fn = os.path.join(td, "o.qrp")
            chk.count("parcel:%s" % name)
            chk.count("parcel_ctx:%s->%s" % (cs, cl))
            case = {"parcel": [name, cs, cl]}
            sig = ("parcel:saved_in_basis_context" if cs == "basis" else
                   ("parcel:loaded_in_basis_context" if cl == "basis" else "parcel:%s:%s:%s" % (name, cs, cl)))
            try:
                with contextlib.redirect_stdout(sink):
                    with ctx(cs):
                        if cs == "basis" and hasattr(o, "data"):
                            _ = o.data              # the object is presented in (transformed to) the basis of the context
                        raw0 = walk.snapshot({"o": o})
                        o.save(fn)
                    with ctx(cl):
                        o2 = qr.load_parcel(fn)
                        raw2 = walk.snapshot({"o": o2})
                        inside = observable(o2) if cl == "basis" else None
                    # outside every context
                    want, got = None, None
                    try:
                        want = observable(o)
                    except Exception as e:
                        chk.violation("parcel:original_unreadable", "%s: the ORIGINAL cannot be read after the contexts: %r" % (name, e), "monitor", case)
                    got = observable(o2)
                    # ... and read under a units context that was active neither at saving nor at loading time
                    for un in ("1/cm", "eV"):
                        if want is None or (un == "1/cm" and "units" in (cs, cl)):
                            continue
                        with qr.energy_units(un):
                            wu, gu = observable(o), observable(o2)
                        want.update({"%s@%s" % (k, un): v for k, v in wu.items()})
                        got.update({"%s@%s" % (k, un): v for k, v in gu.items()})
            except Exception as e:
                chk.violation(sig, "%s saved in %s context and loaded in %s context: %s: %s"
                              % (name, cs, cl, type(e).__name__, str(e)[:160]), "monitor", case)
                chk.case(("parcel", name, cs, cl), True)
                continue
            finally:
                reset_manager()
            d = [k for k in walk.diff(raw0, raw2)]
            if d:
                chk.violation("parcel:raw_content:%s" % name, "%s: raw content of the loaded object differs from the saved one in %s"
                              % (name, d[:6]), "monitor", case)
            if want is not None:
                bad = [k for k in want if k not in got or got[k].shape != want[k].shape or
                       float(numpy.max(numpy.abs(got[k] - want[k])) if want[k].size else 0.0) > 1e-12 * max(1.0, float(numpy.max(numpy.abs(want[k]))) if want[k].size else 1.0)]
                if bad:
                    chk.violation(sig, "%s saved in %s context and loaded in %s context: %s read outside the contexts (k@u: read inside energy_units(u)) differ from the original's"
                                  % (name, cs, cl, bad), "monitor", case)
            chk.case(("parcel", name, cs, cl), True, sample=case)


# ========================================================================================
#  C. savedir / loaddir sessions
# ========================================================================================

POOL_KINDS = ["TimeAxis", "DFunction", "Operator", "Hamiltonian", "Molecule", "CorrelationFunction"]


def pool_object(kind, n):
    import numpy
    import quantarhei as qr
    from quantarhei.qm.hilbertspace.operators import Operator
    if kind == "TimeAxis":
        return qr.TimeAxis(0.0, 5 + n, 1.0)
    if kind == "DFunction":
        return qr.DFunction(qr.TimeAxis(0.0, 6, 1.0), numpy.arange(6.0) * (n + 1) + 1j * n)
    if kind == "Operator":
        return Operator(data=numpy.array([[float(n), 1.0], [2.0, 3.0]]))
    with qr.energy_units("1/cm"):
        if kind == "Hamiltonian":
            return qr.Hamiltonian(data=[[0.0, 0.0], [0.0, 10000.0 + n]])
        if kind == "Molecule":
            return qr.Molecule([0.0, 12000.0 + n])
        return qr.CorrelationFunction(qr.TimeAxis(0.0, 40, 1.0), dict(ftype="OverdampedBrownian", reorg=20 + n, cortime=100, T=300))


def gen_session(r):
    nobj = r.choice([2, 3, 4, 5])
    objs = [[r.choice(POOL_KINDS), i] for i in range(nobj)]
    ndir = r.choice([1, 2, 2, 3, 3])
    style = r.choice(["auto", "auto", "explicit", "mixed", "mixed", "wild"])
    ops = []
    used = {d: [] for d in range(ndir)}
    for _ in range(r.randint(3, 10)):
        d = r.randrange(ndir)
        un = r.choice([None, None, "1/cm", "eV"])
        if r.random() < 0.75:
            if style == "auto":
                tag = None
            elif style == "explicit":
                tag = r.choice([r.randint(1, 6), ["s", r.randint(0, 2)]]) if not used[d] or r.random() < 0.8 else r.choice(used[d])
            elif style == "mixed":
                # explicit integer tags only above everything used so far: automatic tags cannot collide
                top = max([t for t in used[d] if isinstance(t, int)] + [0])
                tag = None if r.random() < 0.5 else top + r.randint(1, 3)
            else:
                tag = r.choice([None, None, r.randint(1, 5), ["s", r.randint(0, 1)]])
            ops.append(["savedir", r.randrange(nobj), d, tag, un])
            if tag is not None:
                used[d].append(tag)
            else:
                ints = [t for t in used[d] if isinstance(t, int)]
                used[d].append((used[d][-1] + 1) if used[d] and isinstance(used[d][-1], int) else (1 if not used[d] else None))
                if used[d][-1] is None:
                    used[d].pop()
        else:
            ops.append(["loaddir", r.randrange(nobj), d, un])
    for d in range(ndir):
        ops.append(["loaddir", r.randrange(nobj), d, None])
    return {"session": {"objs": objs, "ops": ops}}


SESSION_CORPUS = [
    # two fresh directories in one session, same and different objects, automatic tags
    {"session": {"objs": [["TimeAxis", 0], ["Hamiltonian", 1], ["DFunction", 2]],
                 "ops": [["savedir", 0, 0, None, None], ["savedir", 1, 0, None, "1/cm"], ["savedir", 0, 1, None, None],
                         ["savedir", 2, 1, None, "eV"], ["savedir", 1, 2, 7, None], ["savedir", 2, 0, None, None],
                         ["loaddir", 0, 0, None], ["loaddir", 1, 1, "1/cm"], ["loaddir", 2, 2, None]]}},
    # automatic tag after tags given out of order; automatic tag after a string tag
    {"session": {"objs": [["TimeAxis", 0], ["TimeAxis", 1], ["Operator", 2], ["Molecule", 3]],
                 "ops": [["savedir", 0, 0, None, None], ["savedir", 1, 0, 3, None], ["savedir", 2, 0, 2, None],
                         ["savedir", 3, 0, None, None], ["loaddir", 0, 0, None],
                         ["savedir", 0, 1, ["s", 0], None], ["savedir", 1, 1, None, None], ["loaddir", 0, 1, None]]}},
]


def obj_token(o):
    snap = walk.snapshot({"o": o})
    items = sorted((k, v) for k, v in snap.items() if ".hashes" not in k)
    import hashlib
    return hashlib.sha1(repr(items).encode()).hexdigest()


def tag_py(t):
    return ("s%d" % t[1]) if isinstance(t, list) else t


def tag_coq(t):
    if isinstance(t, str):
        return "(TStr %d%%nat)" % int(t[1:])
    return "(TInt %s)" % cm.zlit(int(t))


def run_session(c, td):
    """-> (outputs for Coq, violations [(sig, what)])"""
    import quantarhei as qr
    ses = c["session"]
    reset_manager()
    root = tempfile.mkdtemp(prefix="ses_", dir=td)
    pool = [pool_object(k, n) for k, n in ses["objs"]]
    ident = {}
    for i, o in enumerate(pool):
        ident.setdefault(obj_token(o), i)
    canon = [ident[obj_token(o)] for o in pool]           # equal-content objects are one object
    outs, viol = [], []
    ideal = {}                                             # dir -> {tag: object index}: what was saved there
    lost = set()

    def read_table(dpath):
        hf = os.path.join(dpath, "_hashes_.qrp")
        return qr.load_parcel(hf) if os.path.exists(hf) else None

    for k, op in enumerate(ses["ops"]):
        dpath = os.path.join(root, "dir%d" % op[2])
        un = op[4] if op[0] == "savedir" else op[3]
        ctx = qr.energy_units(un) if un else contextlib.nullcontext()
        if op[0] == "savedir":
            before = read_table(dpath)
            existed = os.path.isdir(dpath)
            try:
                with ctx:
                    pool[op[1]].savedir(dpath, tag=None if op[3] is None else tag_py(op[3]))
            except Exception as e:
                outs.append("DErr")
                if op[3] is None and before and isinstance(list(before.keys())[-1], str) and isinstance(e, TypeError):
                    viol.append(("savedir:auto_tag_after_string_tag", "op %d: savedir without tag into a directory whose last tag is the "
                                 "string %r raised %r: the object is not saved" % (k, list(before.keys())[-1], e)))
                else:
                    viol.append(("savedir:raised", "op %d %r raised %r" % (k, op, e)))
                continue
            after = read_table(dpath) or {}
            new = [t for t in after if before is None or t not in before or before[t] != after[t]]
            if len(new) != 1:
                viol.append(("savedir:table", "op %d %r: the table of the directory changed in %d entries (%r -> %r)"
                             % (k, op, len(new), before and list(before), list(after))))
                outs.append("DErr")
                continue
            t = new[0]
            outs.append("(DSaved %s)" % tag_coq(t))
            dd = ideal.setdefault(op[2], {})
            if op[3] is None and t in dd:
                viol.append(("savedir:auto_tag_overwrites_earlier_object", "op %d: savedir without tag chose tag %r, which already holds an "
                             "object saved earlier in this directory (tags so far %r): that object is lost" % (k, t, list(dd))))
                lost.add((op[2], t))
            if not existed and (len(after) != 1):
                viol.append(("savedir:fresh_directory_table", "op %d: the table of the new directory dir%d lists %d entries %r"
                             % (k, op[2], len(after), list(after))))
            missing = [h for h in after.values() if not os.path.exists(os.path.join(dpath, h + ".qrp"))]
            if missing:
                viol.append(("savedir:table_lists_foreign_files", "op %d: the table of dir%d lists %d files that are not in that directory"
                             % (k, op[2], len(missing))))
            dd[t] = canon[op[1]]
        else:
            try:
                with ctx:
                    res = pool[op[1]].loaddir(dpath)
            except Exception as e:
                outs.append("DErr")
                if os.path.isdir(dpath):
                    viol.append(("savedir:loaddir_raised", "op %d: loaddir of dir%d (objects were saved there) raised %s: %s"
                                 % (k, op[2], type(e).__name__, str(e)[:120])))
                continue
            items = []
            for t, o in res.items():
                i = ident.get(obj_token(o), None)
                if i is None:
                    viol.append(("savedir:values_changed", "op %d: the object loaded under tag %r from dir%d equals none of the saved objects"
                                 % (k, t, op[2])))
                    i = 999
                items.append("(%s, %d%%nat)" % (tag_coq(t), i))
            outs.append("(DLoaded %s)" % cm.clist(items))
            want = ideal.get(op[2], {})
            got = {t: ident.get(obj_token(o)) for t, o in res.items()}
            if got != want and not any((op[2], t) in lost for t in want):
                viol.append(("savedir:loaddir_content", "op %d: loaddir of dir%d returns %r, saved there: %r" % (k, op[2], got, want)))
    reset_manager()
    shutil.rmtree(root, ignore_errors=True)
    return outs, viol


def coq_session(c, outs):
    ses = c["session"]
    # equal-content pool objects are one object (as in run_session)
    toks = {}
    canon = []
    for k, n in ses["objs"]:
        canon.append(toks.setdefault((k, n), len(toks) and max(toks.values()) + 1 if (k, n) not in toks else 0))
    canon = []
    seen = {}
    for i, (k, n) in enumerate(ses["objs"]):
        seen.setdefault((k, n), i)
        canon.append(seen[(k, n)])
    ops = []
    for op in ses["ops"]:
        if op[0] == "savedir":
            tg = "None" if op[3] is None else "(Some %s)" % tag_coq(tag_py(op[3]))
            ops.append("SaveDir %d%%nat %s %d%%nat" % (op[2], tg, canon[op[1]]))
        else:
            ops.append("LoadDir %d%%nat" % op[2])
    return "(%s, %s)" % (cm.clist(ops), cm.clist(outs))


def main():
    import numpy
    chk = cm.Check(PID, args.tier)
    chk.rule = ("A: exhaustive matrix {dat,txt,npy,npz,mat} x {real,complex} x {axis,no axis} x 7 shapes (3 regular, 4 with an index of "
                "length one), random Gaussian-integer values, through DataSaveable (and MatrixData for its formats); random float64 through "
                "text; AbsSpectrum with units-managed axis in 3 unit contexts.  B: random save/load/enter/leave/read programs on Operator "
"objects (exact arithmetic); 21 Saveable classes x {none, units, basis} context at save x at load.  C: random savedir/loaddir "
                "sessions (1-3 directories, fresh and existing, automatic / integer / string tags, 6 classes, unit contexts) compared with "
                "Model.C18.drun.  All cases non-trivial; "
                "distinct by content")
    chk.assumptions = [
        "file writers/readers (dill, numpy.save/savez_compressed/savetxt/loadtxt, scipy.io.savemat/loadmat) are oracles: identities on the "
        "values with the readers' shape conventions (loadtxt drops indices of length one, loadmat returns at least two indices) - "
        "validated on every case by the exact comparison of what comes back",
        "shape-only changes for arrays with an index of length one and for one-index arrays in .mat files are properties of the formats "
        "(theorems c18_*_shape_refuted); they are counted (shape_changed_by_format:*), the VALUES must still be identical",
        "units-managed classes store internal units (c18_units_context_irrelevant); monitored through the raw-content comparison",
        "basis changes in tie B are signed permutations so that every transformation is exact",
    ]
    chk.assumptions.append(
        "static tie: _data_with_axis, _extract_data_with_axis, the extension dispatch of save_data/load_data (DataSaveable and MatrixData), "
        "the writer/reader methods and savedir/loaddir are matched statement by statement against templates (harness/translate_c18.py) and "
        "their content is proved equal to Model/C18.v through the skeleton lemmas of Proofs/C18gen.v; the translator is trusted to read "
        "the ast faithfully and the numpy slice assignments have the meaning Proofs/C18gen.v gives them (exact shapes, no broadcasting)")
    chk.prove()
    import translate
    translate.static_tie(cm, chk, PID, cm.REPO)      # second, static tie: model regenerated from the current source
    td = tempfile.mkdtemp(prefix="c18_", dir=work)
    try:
        r = cm.rng(PID)
        replay = None
        if args.replay:
            replay = json.load(open(args.replay)).get("input") or {}
        reps = 4 if args.tier == "quick" else 20
        nprog = 500 if args.tier == "quick" else 5000
        shards = []
        if replay is None or "data" in replay or "spectrum" in replay:
            if replay and "data" in replay:
                c = replay["data"]
                res = run_data_case(c, td)
                d = (numpy.array(c["re"]) + 1j * numpy.array(c["im"])).reshape(c["shape"])
                ok = res[0] == "ok" and res[2].size == d.size and numpy.array_equal(res[2].ravel(), d.ravel()) and \
                    (c["class"] != "regular" or res[2].shape == d.shape)
                res2 = run_data_case(c, td, holder="MD") if (c["axis"] is None and c["ext"] != "mat") else ("ok", None, d)
                ok2 = res2[0] == "ok" and numpy.array_equal(res2[2].ravel(), d.ravel())
                if not (ok and ok2):
                    chk.violation("data:%s:%s:%s" % (c["ext"], "axis" if c["axis"] is not None else "noaxis", c["class"]),
                                  "replayed export/import case fails: %s / MatrixData %s" % (res[:2], res2[:2]), "monitor", replay)
                chk.case(("replay", json.dumps(c, sort_keys=True)), True)
            elif replay and "spectrum" in replay:
                check_spectrum(chk, r, td)
            else:
                items, meta = check_data(chk, r, reps, td)
                CH = max(1, (len(items) + 5) // 6)
                for k in range(0, len(items), CH):
                    shards.append(("data", k, CH, meta,
                                   "From Coq Require Import List Bool Arith ZArith.\nImport ListNotations.\n"
                                   "From QV Require Import Base.Alg Base.Mat Base.Util Model.C04 Model.C04x Model.C18.\nOpen Scope Z_scope.\n"
                                   "Definition cs : list fcase := %s.\nEval vm_compute in (bad fcase_agrees cs).\n"
                                   "Eval vm_compute in (bad fcase_pinned_agrees cs).\n" % cm.clist(items[k:k + CH])))
        if replay is None or "parcel" in replay:
            check_parcel_classes(chk, td)
        if replay is None or "ops" in replay:
            progs = [replay] if replay else [gen_parcel_prog(r) for _ in range(nprog)]
            pitems, pmeta = [], []
            for c in progs:
                try:
                    with contextlib.redirect_stdout(io.StringIO()):
                        outs, Ts = run_parcel_prog(c, td)
                    pitems.append(coq_parcel_case(c, outs, Ts))
                    pmeta.append(c)
                    nerr = len([o for o in outs if o[0] == "err"])
                    chk.count("program:%s" % ("with_unreadable_object" if nerr else "all_readable"))
                    chk.case(("prog", json.dumps(c)), True, sample={"ops": [o[:3] if o[0] != "new" else o[:3] for o in c["ops"]][:14],
                                                                     "reads": [(o[0], o[1]) for o in outs][:10]})
                except AssertionError as e:
                    chk.count("skipped:" + str(e)[:40])
                except Exception as e:
                    chk.violation("program:exception", "parcel program raised %r %s" % (e, traceback.format_exc()[-600:]), "monitor", c)
            CH = max(1, (len(pitems) + 9) // 10)
            for k in range(0, len(pitems), CH):
                shards.append(("prog", k, CH, pmeta,
                               "From Coq Require Import List Bool Arith ZArith.\nImport ListNotations.\n"
                               "From QV Require Import Base.Alg Base.Mat Base.Util Model.C04 Model.C04x Model.C18.\nOpen Scope Z_scope.\n"
                               "Definition cs : list pcase := %s.\nEval vm_compute in (bad pcase_agrees cs).\n" % cm.clist(pitems[k:k + CH])))
        if replay is None or "session" in replay:
            nses = 150 if args.tier == "quick" else 1500
            sessions = [replay] if replay else (SESSION_CORPUS + [gen_session(r) for _ in range(nses)])
            sitems, smeta = [], []
            for c in sessions:
                try:
                    with contextlib.redirect_stdout(io.StringIO()):
                        outs, viol = run_session(c, td)
                except Exception as e:
                    chk.violation("savedir:harness_exception", "session raised %r %s" % (e, traceback.format_exc()[-500:]), "monitor", c)
                    continue
                for sig, what in viol:
                    chk.violation(sig, "savedir/loaddir session %s: %s" % (json.dumps(c["session"]["ops"])[:400], what), "monitor", c)
                sitems.append(coq_session(c, outs))
                smeta.append(c)
                chk.count("session:dirs=%d" % (1 + max(op[2] for op in c["session"]["ops"])))
                chk.count("session_ops", len(c["session"]["ops"]))
                chk.case(("session", json.dumps(c)), True, sample={"session": c["session"]["ops"][:8], "out": outs[:8]})
            CH = max(1, (len(sitems) + 5) // 6)
            for k in range(0, len(sitems), CH):
                shards.append(("session", k, CH, smeta,
                               "From Coq Require Import List Bool Arith ZArith.\nImport ListNotations.\n"
                               "From QV Require Import Base.Util Model.C18.\nOpen Scope Z_scope.\n"
                               "Definition cs : list dcase := %s.\nEval vm_compute in (bad dcase_agrees cs).\n"
                               "Eval vm_compute in (bad dcase_pinned_agrees cs).\n" % cm.clist(sitems[k:k + CH])))
        results = cm.coq_eval(PID, [s[4] for s in shards]) if shards else []
        for (kind, k, CH, meta, _), (rc, out) in zip(shards, results):
            if rc != 0:
                chk.violation("correspondence:coq_error", "coqc failed: %s" % out[-800:], "correspondence", {}, found_input=False)
                continue
            vals = cm.parse_evals(out)
            badl = cm.parse_natlist(vals[0])
            chk.corr["cases"] += min(CH, len(meta) - k)
            chk.corr["disagreements"] += len(badl)
            if kind in ("data", "session"):
                bad_old = cm.parse_natlist(vals[1])
                chk.corr["agree_with_pinned_variant_only"] = chk.corr.get("agree_with_pinned_variant_only", 0) + \
                    len([i for i in badl if i not in bad_old])
            for i in badl[:3]:
                c = meta[k + i]
                if kind == "session":
                    chk.violation("correspondence:savedir_session", "savedir/loaddir outcomes differ from Model.C18.drun (TagRepaired) on session %s"
                                  % json.dumps(c["session"]["ops"])[:800], "correspondence", c, found_input=False)
                elif kind == "data":
                    chk.violation("correspondence:export_import", "save_data/load_data differs from Model.C18.export_import (repaired) on %s"
                                  % json.dumps({q: c[q] for q in ("ext", "cplx", "shape", "axis")}), "correspondence", {"data": c}, found_input=False)
                else:
                    chk.violation("correspondence:parcel_program", "values read differ from Model.C18.run18 on program %s" % json.dumps(c)[:1200],
                                  "correspondence", c, found_input=False)
    finally:
        shutil.rmtree(td, ignore_errors=True)
    chk.finish()


if __name__ == "__main__":
    work = cm.reexec_isolated(PID)
    args = cm.parse_args(sys.argv[1:])
    main()
