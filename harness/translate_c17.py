# -*- coding: utf-8 -*-
"""Static tie for C17, the glue around set_rate and the population Taylor loop (both tied by translate2.c17_static):

  poppropagator.py   PopulationPropagator.get_PropagationMatrix (sub-axis guard, the three ways the start of the sub-axis is reached,
                     U[:,:,0] = U0, U[:,:,i] = E . U[:,:,i-1], the corrections dispatch that returns U untouched by default),
                     __init__ (dt, Nref, KK), propagate, the statements around the nest of _propagate_short_exp
  valueaxis.py       ValueAxis.__init__ (the linspace grid), max, is_subset_of, is_extension_of
  ratematrix.py      RateMatrix.__init__ (zeros / given data / exception)

Statement templates with expression holes (translate2.unify); the hole contents instantiate the skeletons of Proofs/C17gen.v and the
generated lemmas conclude equality with Model/C17.v (is_subset_of, ax_point, ax_max) and Model/C17axis.v (prop_matrix_gen, pm_*,
is_extension_of, rm_ctor).
"""
import ast

from translate import Untranslatable, Expr, _src_of
from translate2 import unify, _live, _find_nests

POP = "/quantarhei/qm/propagators/poppropagator.py"
VAX = "/quantarhei/core/valueaxis.py"
RM = "/quantarhei/qm/liouvillespace/rates/ratematrix.py"


def _match_stmts(tmpl_src, stmts, what, env=None):
    env = {} if env is None else env
    tfn = ast.parse(tmpl_src).body[0]
    unify(tfn.body, stmts, env, what)
    return env


def _match(path, qual, template, nests=False):
    fn = _src_of(path, qual)
    body = fn.body
    if nests:
        ids = set(id(x) for x in _find_nests(fn.body))
        body = [ast.Expr(value=ast.Name(id="NEST", ctx=ast.Load())) if id(s) in ids else s for s in _live(fn.body)]
    tfn = ast.parse(template).body[0]
    env = {}
    unify([a.arg for a in tfn.args.args], [a.arg for a in fn.args.args], env, qual + ".args")
    unify(tfn.body, body, env, qual)
    return env


class QE:
    """rational expressions and comparisons over the quantities of two axes"""

    def __init__(self, atoms, mems=None):
        self.atoms, self.mems = dict(atoms), dict(mems or {})

    def e(self, node):
        key = ast.unparse(node)
        if key in self.atoms:
            return self.atoms[key]
        if isinstance(node, ast.Constant) and isinstance(node.value, (int, float)) and not isinstance(node.value, bool) and node.value == int(node.value):
            return "(inject_Z (%d))" % int(node.value)
        if isinstance(node, ast.UnaryOp) and isinstance(node.op, ast.USub):
            return "(- %s)" % self.e(node.operand)
        if isinstance(node, ast.BinOp):
            op = {ast.Add: "+", ast.Sub: "-", ast.Mult: "*", ast.Div: "/"}.get(type(node.op))
            if op is None:
                raise Untranslatable("operator %s in %s" % (type(node.op).__name__, key[:60]))
            return "(%s %s %s)" % (self.e(node.left), op, self.e(node.right))
        raise Untranslatable("rational expression %s" % key[:80])

    def b(self, node):
        if isinstance(node, ast.BoolOp):
            return "(" + (" && " if isinstance(node.op, ast.And) else " || ").join(self.b(v) for v in node.values) + ")"
        if isinstance(node, ast.UnaryOp) and isinstance(node.op, ast.Not):
            return "(negb %s)" % self.b(node.operand)
        if isinstance(node, ast.Compare) and len(node.ops) == 1:
            op, a, c = node.ops[0], node.left, node.comparators[0]
            if isinstance(op, ast.In):
                key = ast.unparse(c)
                if key not in self.mems:
                    raise Untranslatable("membership in %s" % key[:60])
                return "(ax_mem %s %s)" % (self.e(a), self.mems[key])
            x, y = self.e(a), self.e(c)
            tab = {ast.Eq: "(Qeq_bool %s %s)" % (x, y), ast.NotEq: "(negb (Qeq_bool %s %s))" % (x, y), ast.LtE: "(Qle_bool %s %s)" % (x, y),
                   ast.GtE: "(Qle_bool %s %s)" % (y, x), ast.Lt: "(negb (Qle_bool %s %s))" % (y, x), ast.Gt: "(negb (Qle_bool %s %s))" % (x, y)}
            if type(op) in tab:
                return tab[type(op)]
        raise Untranslatable("condition %s" % ast.unparse(node)[:80])


class ZE(Expr):
    """integer expressions with whole source texts (e.g. data.shape[0]) as atoms"""

    def __init__(self, names, texts):
        Expr.__init__(self, "Z", names)
        self.texts = dict(texts)

    def e(self, node):
        key = ast.unparse(node)
        if key in self.texts:
            return self.texts[key]
        return Expr.e(self, node)


def _require(node, text, what):
    if ast.unparse(node) != text:
        raise Untranslatable("%s: %s where %s is expected" % (what, ast.unparse(node)[:60], text))


def _operand(node, table, what):
    key = ast.unparse(node)
    if key in table:
        return table[key]
    raise Untranslatable("%s: operand %s" % (what, key[:60]))


T_PM_HEAD = '''
def f():
    N = self.KK.shape[0]
    U = numpy.zeros((N, N, timeaxis.length), dtype=numpy.float64)
    U0 = numpy.eye(N)
    KKm = numpy.array(self.KK, dtype=numpy.float64)
    expKd_step = scipy.linalg.expm(KKm * H_step)
    if H_differ:
        Ns = round(H_ns)
        if H_whole:
            for i in range(H_cnt):
                U0 = numpy.dot(H_l0, H_r0)
        else:
            dt = H_dt
            expKd_dt = scipy.linalg.expm(KKm * dt)
            U0 = numpy.dot(H_l1, H_r1)
    U[:, :, H_first] = U0
    for i in range(H_lo, H_hi):
        U[:, :, H_w] = numpy.dot(H_l2, U[:, :, H_r2])
'''
T_POPINIT = '''
def __init__(self, timeaxis, rate_matrix=None):
    self.timeAxis = timeaxis
    self.Nref = H_nref
    self.Nt = self.timeAxis.length
    self.dt = H_dt
    if rate_matrix is not None:
        if isinstance(rate_matrix, RateMatrix):
            self.KK = rate_matrix.data
        else:
            self.KK = rate_matrix
'''
T_POPPROP = '''
def propagate(self, pini):
    if not isinstance(pini, numpy.ndarray):
        pini = numpy.array(pini)
    return self._propagate_short_exp(H_x)
'''
T_POPEXP = '''
def _propagate_short_exp(self, pini, L=4):
    Nt = self.timeAxis.length
    pops = numpy.zeros((Nt, pini.shape[0]))
    pops[H_first, :] = H_p0
    rho1 = H_r1
    rho2 = H_r2
    indx = H_i0
    NEST
    return pops
'''
T_AXINIT = '''
def __init__(self, start=0.0, length=1, step=1.0):
    if True:
        self.step = step
    self.start = start
    self.length = length
    self.data = numpy.linspace(H_a, H_b, H_n, dtype=REAL)
'''
T_MAX = '''
def max(self):
    return self.data[H_i]
'''
T_SUBSET = '''
def is_subset_of(self, axis):
    ret = True
    Nst = round(H_r)
    ret = ret and H_c1
    ret = ret and H_c2
    ret = ret and H_c3
    return ret
'''
T_EXT = '''
def is_extension_of(self, axis):
    ret = True
    ret = ret and H_c1
    ret = ret and H_c2
    ret = ret and H_c3
    found_one_point = False
    N = self.length
    k = H_k0
    while not found_one_point and k < N:
        point = self.data[H_pk]
        if H_mem:
            found_one_point = True
        k += H_kinc
    ret = ret and found_one_point
    return ret
'''
T_RMINIT = '''
def __init__(self, dim=None, data=None):
    self.N = H_n0
    if dim is not None:
        self.N = dim
    if data is not None:
        if H_sq:
            raise Exception(H_m1)
        if H_z1:
            self.N = H_nd
            self.data = data
        elif H_eq:
            self.data = data
        else:
            raise Exception(H_m2)
    elif H_z2:
        raise Exception(H_m3)
    else:
        self.data = numpy.zeros((H_s1, H_s2), dtype=numpy.float64)
'''

GEN = """
(* ---- glue, GENERATED by harness/translate_c17.py from poppropagator.py, valueaxis.py and ratematrix.py ---- *)
From Coq Require Import QArith Qcanon Qfield Lqa String.
From QV Require Import Base.Util Model.C17axis Proofs.C17gen.
Open Scope Z_scope.
Section GenPM.
  Context {R : StarRing}.
  Variable n : nat.
  (* get_PropagationMatrix: the contractions and the table *)
  Definition g_f0 (E Edt X : @mat R) : @mat R := mmul n %(l0)s %(r0)s.
  Definition g_f1 (E Edt X : @mat R) : @mat R := mmul n %(l1)s %(r1)s.
  Definition g_f2 (E Edt X : @mat R) : @mat R := mmul n %(l2)s X.
  Definition g_cnt (Ns : Z) : Z := %(cnt)s.
  Definition g_first : Z := %(first)s.
  Definition g_lo : Z := %(lo)s.
  Definition g_hi (len : Z) : Z := %(hi)s.
  Definition g_w (i : Z) : Z := %(w)s.
  Definition g_r (i : Z) : Z := %(r)s.
  Definition gen_prop_matrix (E Edt : @mat R) (shifted whole : bool) (Ns : Z) (len : nat) : nat -> @mat R :=
    pm_table g_first g_lo (g_hi (Z.of_nat len)) g_w g_r (g_f2 E Edt) (u0_skel shifted whole (g_cnt Ns) (g_f0 E Edt) (g_f1 E Edt)).
  Lemma gen_prop_matrix_is_model : forall (E Edt : @mat R) shifted whole (Ns len j : nat), (j < len)%%nat ->
    meq n (gen_prop_matrix E Edt shifted whole (Z.of_nat Ns) len j) (prop_matrix_gen n E Edt shifted whole Ns j).
  Proof.
    intros E Edt sh wh Ns len j Hj a b Ha Hb. unfold gen_prop_matrix, prop_matrix_gen.
    rewrite (pm_table_is_model n E (u0_skel sh wh (g_cnt (Z.of_nat Ns)) (g_f0 E Edt) (g_f1 E Edt)) g_first g_lo (g_hi (Z.of_nat len)) g_w g_r (g_f2 E Edt) len
               ltac:(reflexivity) ltac:(reflexivity) ltac:(unfold g_hi; lia) ltac:(intros; unfold g_w; lia) ltac:(intros; unfold g_r; lia)
               ltac:(intros; reflexivity) j Hj a b Ha Hb).
    apply mpow_apply_ext; [|exact Ha|exact Hb]. apply u0_skel_is_model; [unfold g_cnt; lia|intros; reflexivity|intros; reflexivity].
  Qed.
  (* _propagate_short_exp: the stored trajectory starts with the initial vector at index 0, the loop from (p0, p0) and index 1 *)
  Definition g_pop_first : Z := %(pfirst)s.
  Definition g_pop_start : Z := %(pi0)s.
  Definition gen_pop_init (pini : @vec R) : @vec R * @vec R * @vec R := (%(pp0)s, %(pr1)s, %(pr2)s).
  Lemma gen_pop_init_is_model : forall p, gen_pop_init p = (p, p, p) /\\ g_pop_first = 0 /\\ g_pop_start = 1.
  Proof. intros; repeat split; reflexivity. Qed.
End GenPM.

(* how the start of the sub-axis is reached, over Q *)
Definition g_shifted (start sub_start sub_step : Q) : bool := %(differ)s.
Definition g_ns_arg (start sub_start sub_step : Q) : Q := (%(ns)s)%%Q.
Definition g_whole (start sub_start sub_step : Q) (Ns : Z) : bool := %(whole)s.
Definition g_dt (start sub_start sub_step : Q) : Q := (%(dt)s)%%Q.
Definition g_E_time (sub_step : Q) : Q := (%(step)s)%%Q.
Lemma gen_pm_start_is_model : forall start sub_start sub_step Ns, ~ (sub_step == 0)%%Q ->
  g_shifted start sub_start sub_step = pm_shifted start sub_start /\\ (g_ns_arg start sub_start sub_step == pm_ns_arg start sub_start sub_step)%%Q /\\
  g_whole start sub_start sub_step Ns = pm_whole start sub_start sub_step Ns /\\ (g_dt start sub_start sub_step == pm_dt start sub_start)%%Q /\\
  (g_E_time sub_step == sub_step)%%Q.
Proof.
  intros start sub_start sub_step Ns Hs. unfold g_shifted, g_ns_arg, g_whole, g_dt, g_E_time, pm_shifted, pm_ns_arg, pm_whole, pm_dt.
  split; [first [reflexivity | (f_equal; apply Qeq_bool_comm)]|]. split; [first [reflexivity | (field; exact Hs)]|].
  split; [first [reflexivity | apply Qeq_bool_comm | (apply Qeq_bool_ext; ring)]|]. split; [ring|ring].
Qed.
(* the corrections dispatch after the table is filled: with the default corrections = -1 none of the blocks runs and U is returned *)
Definition g_tail1 (corrections : Z) : bool := %(t1)s.
Definition g_tail2 (corrections : Z) (exact : bool) : bool := %(t2)s.
Definition g_tail3 (corrections : Z) (exact : bool) : bool := %(t3)s.
Lemma gen_default_returns_table : forall exact, g_tail1 (-1) = false /\\ g_tail2 (-1) exact = false /\\ g_tail3 (-1) exact = false.
Proof. intros []; repeat split; reflexivity. Qed.
(* PopulationPropagator.__init__ / propagate *)
Definition g_pop_nref : Z := %(nref)s.
Definition g_pop_dt (axis_step : Q) : Q := (%(popdt)s)%%Q.
Lemma gen_pop_ctor_is_model : forall s, g_pop_nref = 1 /\\ (g_pop_dt s == s)%%Q.
Proof. intros; split; [reflexivity|unfold g_pop_dt; ring]. Qed.

(* ValueAxis: the grid, max, is_subset_of, is_extension_of *)
Definition g_lin_start (start : Q) (length : nat) (step : Q) : Q := (%(lina)s)%%Q.
Definition g_lin_stop (start : Q) (length : nat) (step : Q) : Q := (%(linb)s)%%Q.
Definition g_lin_n (length : nat) : Q := (%(linn)s)%%Q.
Lemma gen_grid_is_model : forall start step (length k : nat), (2 <= length)%%nat ->
  (g_lin_start start length step + inject_Z (Z.of_nat k) * ((g_lin_stop start length step - g_lin_start start length step) / (g_lin_n length - 1)) == ax_point (start, length, step) k)%%Q.
Proof.
  intros start step length k Hl. unfold g_lin_start, g_lin_n.
  apply (linspace_point_is_model start step length k (g_lin_stop start length step) Hl). unfold g_lin_stop. ring.
Qed.
Definition g_max_index (length : Z) : Z := %(maxi)s.
Lemma gen_max_is_model : forall (a : axis), let '(_, len, _) := a in (1 <= len)%%nat -> ax_point a (Z.to_nat (g_max_index (Z.of_nat len))) = ax_max a.
Proof. intros [[s len] d] Hl. unfold g_max_index, ax_point, ax_max. replace (Z.to_nat (Z.of_nat len - 1)) with (len - 1)%%nat by lia. reflexivity. Qed.
Definition g_round_arg (sub ax : axis) : Q := let '(s1, l1, d1) := sub in let '(s, l, d) := ax in (%(rarg)s)%%Q.
Lemma gen_round_arg_is_model : forall s1 l1 d1 s l d, ~ (d == 0)%%Q -> (g_round_arg (s1, l1, d1) (s, l, d) == d1 / d)%%Q.
Proof. intros. unfold g_round_arg. first [reflexivity | (field; assumption)]. Qed.
Definition gen_is_subset_of (rnd : Z) (sub ax : axis) : bool :=
  let '(s1, l1, d1) := sub in let '(s, l, d) := ax in
  ((true && %(sc1)s) && %(sc2)s) && %(sc3)s.
Lemma gen_is_subset_of_is_model : forall rnd sub ax, gen_is_subset_of rnd sub ax = is_subset_of rnd sub ax.
Proof.
  intros rnd [[s1 l1] d1] [[s l] d]. unfold gen_is_subset_of, is_subset_of. cbn [andb].
  first [reflexivity | (rewrite (Qeq_bool_comm d1); reflexivity)].
Qed.
Definition gen_is_extension_of (ext ax : axis) : bool :=
  let '(s1, l1, d1) := ext in let '(s, l, d) := ax in
  (((true && %(ec1)s) && %(ec2)s) && %(ec3)s) && existsb (fun k => %(emem)s) (seq 0 l1).
Lemma gen_is_extension_of_is_model : forall ext ax, gen_is_extension_of ext ax = is_extension_of ext ax.
Proof.
  intros [[s1 l1] d1] [[s l] d]. unfold gen_is_extension_of, is_extension_of. cbn [andb].
  first [reflexivity | (rewrite (Qeq_bool_comm d); reflexivity)].
Qed.

(* RateMatrix.__init__ *)
Definition gen_rm_ctor (dim : option Z) (shape : option (Z * Z)) : ctor_result :=
  let N := match dim with Some d => d | None => %(n0)s end in
  match shape with
  | Some (r, c) => if %(sq)s then CtorRaise else if %(z1)s then CtorData %(nd)s else if %(eq)s then CtorData N else CtorRaise
  | None => if %(z2)s then CtorRaise else CtorZeros %(zs)s
  end.
Lemma gen_rm_ctor_is_model : forall dim shape, gen_rm_ctor dim shape = rm_ctor dim shape.
Proof.
  intros [d|] [[r c]|]; unfold gen_rm_ctor, rm_ctor; cbv zeta; rewrite ?(Z.eqb_sym 0), ?(Z.eqb_sym r d), ?(Z.eqb_sym c r); try reflexivity;
    destruct (r =? c); cbn [negb]; reflexivity.
Qed.

(* ---- purity: methods of PopulationPropagator for which the write-set analysis (harness/translate_c15.py: abstract interpretation
   over origins, views alias their arguments, all paths) found NO store through the propagator, its rate matrix, its time axis or the
   arguments.  The list is a record of what the translator established; a method that writes makes the translation fail. ---- *)
Definition gen_pure_methods : list string := [%(pure)s]%%string.
Lemma gen_pure_methods_cover : gen_pure_methods = ["get_PropagationMatrix"; "propagate"]%%string.
Proof. reflexivity. Qed.
"""


def extra(repo):
    out = {}
    # ---------------- get_PropagationMatrix
    fn = _src_of(repo + POP, "PopulationPropagator.get_PropagationMatrix")
    if [a.arg for a in fn.args.args] != ["self", "timeaxis", "corrections", "exact"]:
        raise Untranslatable("get_PropagationMatrix signature")
    if [ast.unparse(d) for d in fn.args.defaults] != ["-1", "False"]:
        raise Untranslatable("get_PropagationMatrix defaults %s" % [ast.unparse(d) for d in fn.args.defaults])
    body = _live(fn.body)
    if not (len(body) == 1 and isinstance(body[0], ast.If) and ast.unparse(body[0].test) == "timeaxis.is_subset_of(self.timeAxis)"
            and len(_live(body[0].orelse)) == 1 and isinstance(_live(body[0].orelse)[0], ast.Raise)):
        raise Untranslatable("get_PropagationMatrix: the sub-axis guard `if timeaxis.is_subset_of(self.timeAxis): ... else: raise`")
    inner = _live(body[0].body)
    nhead = len(ast.parse(T_PM_HEAD).body[0].body)
    env = _match_stmts(T_PM_HEAD, inner[:nhead], "get_PropagationMatrix")
    atoms = {"timeaxis.step": "sub_step", "timeaxis.start": "sub_start", "self.timeAxis.start": "start", "Ns": "(inject_Z Ns)"}
    q = QE(atoms)
    out["step"] = q.e(env["H_step"])
    out["differ"], out["whole"] = q.b(env["H_differ"]), q.b(env["H_whole"])
    out["ns"], out["dt"] = q.e(env["H_ns"]), q.e(env["H_dt"])
    out["cnt"] = Expr("Z", {"Ns": "Ns"}).e(env["H_cnt"])
    ops = {"expKd_step": "E", "expKd_dt": "Edt", "U0": "X"}
    for h in ("l0", "r0", "l1", "r1", "l2"):
        out[h] = _operand(env["H_" + h], ops, "get_PropagationMatrix contraction")
    zi = Expr("Z", {"i": "i"}, attrs={"timeaxis.length": "len"})
    out["first"], out["lo"], out["hi"] = zi.e(env["H_first"]), zi.e(env["H_lo"]), zi.e(env["H_hi"])
    out["w"], out["r"] = zi.e(env["H_w"]), zi.e(env["H_r2"])
    tail = inner[nhead:]
    if not (len(tail) == 2 and isinstance(tail[0], ast.If) and not tail[0].orelse and isinstance(tail[1], ast.If)
            and len(tail[1].orelse) == 1 and isinstance(tail[1].orelse[0], ast.If) and len(_live(tail[1].orelse[0].orelse)) == 1
            and ast.unparse(_live(tail[1].orelse[0].orelse)[0]) == "return U"):
        raise Untranslatable("get_PropagationMatrix: the corrections dispatch after the table is filled does not end in `else: return U`")

    def tb(node):
        if isinstance(node, ast.BoolOp):
            return "(" + (" && " if isinstance(node.op, ast.And) else " || ").join(tb(v) for v in node.values) + ")"
        if isinstance(node, ast.UnaryOp) and isinstance(node.op, ast.Not):
            return "(negb %s)" % tb(node.operand)
        if isinstance(node, ast.Name) and node.id == "exact":
            return "exact"
        return Expr("Z", {"corrections": "corrections"}).b(node)
    out["t1"], out["t2"], out["t3"] = tb(tail[0].test), tb(tail[1].test), tb(tail[1].orelse[0].test)
    # ---------------- PopulationPropagator.__init__, propagate, _propagate_short_exp
    env = _match(repo + POP, "PopulationPropagator.__init__", T_POPINIT)
    out["nref"] = Expr("Z", {}).e(env["H_nref"])
    out["popdt"] = QE({"self.timeAxis.step": "axis_step", "timeaxis.step": "axis_step"}).e(env["H_dt"])
    env = _match(repo + POP, "PopulationPropagator.propagate", T_POPPROP)
    _require(env["H_x"], "pini", "PopulationPropagator.propagate hands on")
    env = _match(repo + POP, "PopulationPropagator._propagate_short_exp", T_POPEXP, nests=True)
    out["pfirst"], out["pi0"] = Expr("Z", {}).e(env["H_first"]), Expr("Z", {}).e(env["H_i0"])
    for h, k in (("H_p0", "pp0"), ("H_r1", "pr1"), ("H_r2", "pr2")):
        out[k] = _operand(env[h], {"pini": "pini"}, "_propagate_short_exp initial vector")
    # ---------------- valueaxis.py
    env = _match(repo + VAX, "ValueAxis.__init__", T_AXINIT)
    ql = QE({"start": "start", "step": "step", "length": "(inject_Z (Z.of_nat length))"})
    out["lina"], out["linb"], out["linn"] = ql.e(env["H_a"]), ql.e(env["H_b"]), ql.e(env["H_n"])
    env = _match(repo + VAX, "ValueAxis.max", T_MAX)
    out["maxi"] = Expr("Z", {}, attrs={"self.length": "length"}).e(env["H_i"])
    atoms = {"self.start": "s1", "self.step": "d1", "self.max": "(ax_max (s1, l1, d1))", "axis.start": "s", "axis.step": "d", "axis.max": "(ax_max (s, l, d))",
             "Nst": "(inject_Z rnd)"}
    qs = QE(atoms, {"axis.data": "(s, l, d)", "self.data": "(s1, l1, d1)"})
    env = _match(repo + VAX, "ValueAxis.is_subset_of", T_SUBSET)
    out["rarg"] = qs.e(env["H_r"])
    out["sc1"], out["sc2"], out["sc3"] = qs.b(env["H_c1"]), qs.b(env["H_c2"]), qs.b(env["H_c3"])
    env = _match(repo + VAX, "ValueAxis.is_extension_of", T_EXT)
    out["ec1"], out["ec2"], out["ec3"] = qs.b(env["H_c1"]), qs.b(env["H_c2"]), qs.b(env["H_c3"])
    if Expr("Z", {}).e(env["H_k0"]) != "(0)" or Expr("Z", {}).e(env["H_kinc"]) != "(1)":
        raise Untranslatable("is_extension_of: the search counter starts at %s and advances by %s" % (ast.unparse(env["H_k0"]), ast.unparse(env["H_kinc"])))
    _require(env["H_pk"], "k", "is_extension_of examines the point")
    qm = QE(dict(atoms, point="(ax_point (s1, l1, d1) k)"), {"axis.data": "(s, l, d)"})
    out["emem"] = qm.b(env["H_mem"])
    # ---------------- ratematrix.py
    env = _match(repo + RM, "RateMatrix.__init__", T_RMINIT)
    zr = ZE({}, {"self.N": "N", "data.shape[0]": "r", "data.shape[1]": "c"})
    out["n0"] = zr.e(env["H_n0"])
    out["sq"], out["z1"], out["eq"], out["z2"] = zr.b(env["H_sq"]), zr.b(env["H_z1"]), zr.b(env["H_eq"]), zr.b(env["H_z2"])
    out["nd"] = zr.e(env["H_nd"])
    s1, s2 = zr.e(env["H_s1"]), zr.e(env["H_s2"])
    if s1 != s2:
        raise Untranslatable("RateMatrix.__init__: zeros of shape (%s, %s)" % (s1, s2))
    out["zs"] = s1
    # ---------------- purity of the propagator's methods: the write-set analysis of translate_c15 (abstract interpreter over
    # origins; views made by numpy.asarray & co. alias their argument) finds no store through the propagator, its rate matrix,
    # its time axis or the arguments - on every path, the corrections branches (whose arithmetic is not modelled) included
    import translate_c15 as t15
    index = t15.Index(repo)
    types = {("self", ()): "PopulationPropagator", ("self", ("timeAxis",)): "TimeAxis", ("arg:timeaxis", ()): "TimeAxis"}
    pure = []
    for meth, argroles in (("get_PropagationMatrix", {"timeaxis"}), ("propagate", {"pini"})):
        w, _last, _notes = t15.run(index, "PopulationPropagator", meth, types, {}, argroles)
        if w:
            raise Untranslatable("PopulationPropagator.%s writes %s" % (meth, sorted("%s.%s" % (r, ".".join(pth)) for r, pth in w)))
        pure.append(meth)
    out["pure"] = "; ".join('"%s"' % m for m in pure)
    what = ["poppropagator.py:PopulationPropagator.get_PropagationMatrix (sub-axis guard, start of the sub-axis: same / Ns steps / extra exponential, "
            "table U[:,:,i] = E.U[:,:,i-1], default return)",
            "poppropagator.py:PopulationPropagator.__init__, propagate, statements around the nest of _propagate_short_exp",
            "valueaxis.py:ValueAxis.__init__ (linspace grid), max, is_subset_of, is_extension_of", "ratematrix.py:RateMatrix.__init__",
            "poppropagator.py:PopulationPropagator.get_PropagationMatrix / propagate with everything they call: empty write set on the propagator, "
            "its rate matrix, its time axis and the arguments (all paths, the corrections branches included)"]
    return GEN % out, what
