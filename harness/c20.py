# -*- coding: utf-8 -*-
"""C20 - distributed work ranges partition the index range exactly.

Proof: coq/theories/Props/C20.v (model Model/C20.v).
Tie: the real `_calculate_ranges`, `block_distributed_range/list/array` are run for every
(size, rank, start, stop) of an exhaustive grid with a stub DistributedConfiguration installed in
the Manager; their outputs are compared *inside Coq* with the model (exact integers), and the
property itself is monitored directly on the implementation's outputs.
"""
import os
import sys
import json

sys.path.insert(0, os.path.dirname(os.path.abspath(__file__)))
import common as cm

PID = "C20"
work = cm.reexec_isolated(PID)
args = cm.parse_args(sys.argv[1:])


class StubConf:
    """stands for DistributedConfiguration of an MPI run with `size` processes, seen from `rank`,
    inside `level` nested parallel regions"""

    def __init__(self, size, rank, level=1):
        self.size = size
        self.rank = rank
        self.parallel_level = level
        self.parallel_region = max(level, 1)
        self.have_mpi = True
        self.inparallel = True
        self.silent = True


def impl_ranges(size, start, stop):
    from quantarhei.core import parallel
    out = []
    conf = StubConf(size, 0)
    r0 = parallel._calculate_ranges(conf, start, stop)
    allr = [tuple(int(x) for x in r) for r in conf.ranges]
    for rank in range(size):
        c = StubConf(size, rank)
        r = parallel._calculate_ranges(c, start, stop)
        out.append((int(r[0]), int(r[1])))
    return allr, out


def with_conf(size, rank, fn, level=1):
    from quantarhei.core.managers import Manager
    m = Manager()
    old = m.parallel_conf
    m.parallel_conf = StubConf(size, rank, level)
    try:
        return fn()
    finally:
        m.parallel_conf = old


def impl_api(kind, size, a, b, level=1):
    """indices handed to each rank by the public helpers; a,b = start,stop or (len, return_index)"""
    import numpy
    import quantarhei as qr
    res = []
    for rank in range(size):
        if kind == "range":
            r = with_conf(size, rank, lambda: qr.block_distributed_range(a, b), level)
            res.append([int(i) for i in r])
        elif kind == "list":
            dl = [1000 + i for i in range(a)]
            r = with_conf(size, rank, lambda: qr.block_distributed_list(dl, return_index=bool(b)), level)
            if b:
                for (i, v) in r:
                    if v != 1000 + i:
                        raise AssertionError("index/value mismatch")
                res.append([int(i) for (i, v) in r])
            else:
                res.append([int(v) - 1000 for v in r])
        elif kind == "array":
            arr = numpy.arange(a) + 1000
            r = with_conf(size, rank, lambda: qr.block_distributed_array(arr, return_index=bool(b)), level)
            if b:
                for (i, v) in r:
                    if v != 1000 + i:
                        raise AssertionError("index/value mismatch")
                res.append([int(i) for (i, v) in r])
            else:
                res.append([int(v) - 1000 for v in r])
    return res


def check_reduce_identity(size, level):
    """outside level 1 the real reduce/allreduce must not touch the data"""
    import numpy
    from quantarhei.core.parallel import DistributedConfiguration
    dc = DistributedConfiguration()
    dc.size, dc.rank, dc.parallel_level, dc.parallel_region = size, 0, level, max(level, 1)
    A = numpy.arange(6.0).reshape(2, 3)
    A0 = A.copy()
    B = dc.reduce(A)
    dc.allreduce(A)
    if not (numpy.array_equal(A, A0) and numpy.array_equal(B, A0)):
        return "reduce/allreduce changed the data at parallel_level=%d" % level
    return None


def monitor_partition(blocks, start, stop):
    """the property, directly on the implementation's output; returns None or a description"""
    serial = list(range(start, stop))
    cat = [i for b in blocks for i in b]
    if cat != serial:
        return "blocks concatenated over ranks %s != serial range(%d,%d)" % (blocks, start, stop)
    for b in blocks:
        if b != list(range(b[0], b[0] + len(b))) if b else False:
            return "block not contiguous: %s" % b
    ls = [len(b) for b in blocks]
    if ls and max(ls) - min(ls) > 1:
        return "block sizes differ by more than one: %s" % ls
    return None


def grid(tier):
    if tier == "quick":
        sizes, starts, span = range(1, 9), range(-3, 4), range(-2, 21)
    else:
        sizes, starts, span = range(1, 17), range(-6, 7), range(-3, 41)
    for size in sizes:
        for start in starts:
            for d in span:
                yield size, start, start + d


def run(chk, cases):
    """cases: list of dicts {kind, size, a, b}"""
    coq_items = {"ranges": [], "range": [], "list": [], "array": []}
    meta = {"ranges": [], "range": [], "list": [], "array": []}
    for c in cases:
        kind, size, a, b = c["kind"], c["size"], c["a"], c["b"]
        chk.count("kind:" + kind)
        chk.count("size:%d" % size)
        try:
            if kind == "ranges":
                allr, perrank = impl_ranges(size, a, b)
                if allr != perrank:
                    chk.violation("ranges:inconsistent", "config.ranges %s differs from per-rank return values %s"
                                  % (allr, perrank), "monitor", c)
                blocks = [list(range(x, y)) for (x, y) in allr]
                msg = monitor_partition(blocks, a, b)
                if msg:
                    chk.violation("ranges:not_partition", "_calculate_ranges(size=%d,start=%d,stop=%d): %s"
                                  % (size, a, b, msg), "monitor", c)
                coq_items[kind].append("(%s,%s,%s,%s)" % (cm.zlit(size), cm.zlit(a), cm.zlit(b),
                                       cm.clist(["(%s,%s)" % (cm.zlit(x), cm.zlit(y)) for (x, y) in allr])))
                meta[kind].append(c)
                nontriv = (b - a) >= 1 and size >= 2
            else:
                level = c.get("level", 1)
                chk.count("level:%d" % level)
                blocks = impl_api(kind, size, a, b, level)
                if kind == "range":
                    start, stop = a, b
                else:
                    start, stop = 0, a
                if level == 1:
                    msg = monitor_partition(blocks, start, stop)
                else:
                    # nothing is shared outside level 1 (reduce/allreduce are the identity there):
                    # every process has to loop over the whole range
                    msg = None
                    for rk, bl in enumerate(blocks):
                        if bl != list(range(start, stop)):
                            msg = ("parallel_level=%d: rank %d of %d got %s instead of the whole range(%d,%d), but "
                                   "reductions are the identity at this level" % (level, rk, size, bl, start, stop))
                            break
                    msg = msg or check_reduce_identity(size, level)
                if msg:
                    chk.violation("%s%s:not_partition" % (kind, ":return_index" if (kind != "range" and b) else ""),
                                  "block_distributed_%s(size=%d, %s): %s" % (kind, size, (a, b), msg), "monitor", c)
                coq_items[kind].append("(%s,%s,%s,%s,%s)" % (cm.zlit(level), cm.zlit(size), cm.zlit(start), cm.zlit(stop),
                                       cm.clist([cm.clist([cm.zlit(i) for i in bl]) for bl in blocks])))
                meta[kind].append(c)
                nontriv = (stop - start) >= 1 and size >= 2
            chk.case((kind, size, a, b, c.get("level", 1)), nontriv, sample={"case": c, "impl": blocks if len(blocks) < 9 else blocks[:8]})
        except Exception as e:  # the implementation refused or crashed: not the behaviour the property allows
            chk.violation("%s:exception" % kind, "%s raised %r on %s" % (kind, e, c), "monitor", c)
            chk.case((kind, size, a, b), False)

    # ---- correspondence inside Coq ----
    shards = []
    index = []
    CH = 400
    for kind in ("ranges", "range", "list", "array"):
        items = coq_items[kind]
        for k in range(0, len(items), CH):
            part = items[k:k + CH]
            if kind == "ranges":
                body = ("Definition cs : list (Z*Z*Z*list (Z*Z)) := %s.\n"
                        "Eval vm_compute in (bad (case_agrees FromStart) cs).\n"
                        "Eval vm_compute in (bad (case_agrees FromZero) cs).\n" % cm.clist(part))
            else:
                body = ("Definition cs : list (Z*Z*Z*Z*list (list Z)) := %s.\n"
                        "Definition agrees (v:variant) (c : Z*Z*Z*Z*list (list Z)) : bool :=\n"
                        "  let '(level,size,start,stop,impl) := c in\n"
                        "  eqb_list (eqb_list Z.eqb) (map (fun r => api_block level v size start stop (Z.of_nat r)) (seq 0 (Z.to_nat size))) impl.\n"
                        "Eval vm_compute in (bad (agrees FromStart) cs).\n"
                        "Eval vm_compute in (bad (agrees FromZero) cs).\n" % cm.clist(part))
            shards.append(cm.HEADER + "From QV Require Import Model.C20.\n" + body)
            index.append((kind, k))
    results = cm.coq_eval(PID, shards)
    for (kind, k), (rc, out) in zip(index, results):
        if rc != 0:
            chk.violation("correspondence:coq_error", "coqc failed on cases of kind %s: %s" % (kind, out[-800:]),
                          "correspondence", {"kind": kind}, found_input=False)
            continue
        vals = cm.parse_evals(out)
        bad_fixed = cm.parse_natlist(vals[0])
        bad_zero = cm.parse_natlist(vals[1])
        n = min(CH, len(coq_items[kind]) - k)
        chk.corr["cases"] += n
        chk.corr["disagreements"] += len(bad_fixed)
        chk.corr["agree_with_pinned_variant_only"] = chk.corr.get("agree_with_pinned_variant_only", 0) + \
            len([i for i in bad_fixed if i not in bad_zero])
        for i in bad_fixed[:3]:
            c = meta[kind][k + i]
            which = "it agrees with the FromZero (start ignored) variant" if i not in bad_zero else \
                "it agrees with neither model variant"
            # the monitors above have already evaluated the property on this very case
            chk.violation("correspondence:%s" % kind,
                          "implementation output differs from Model.C20 (FromStart) on %s; %s" % (c, which),
                          "correspondence", c, found_input=False)


def reduce_end_to_end(chk, tier):
    """`callers sum-reduce over blocks`: run the Redfield rate kernel once serially and once per
    rank of a simulated parallel run; the rank-summed result must equal the serial one."""
    import numpy
    from quantarhei.core.managers import Manager
    from quantarhei.implementations.python import redfieldrates as rr
    r = cm.rng("reduce")

    from quantarhei.core.parallel import DistributedConfiguration

    class Conf(StubConf):
        def __init__(self, size, rank, outer=0):
            StubConf.__init__(self, size, rank)
            self.parallel_level = outer if size > 1 else 0
            self.parallel_region = outer
            self.reduced = False

        def start_parallel_region(self):
            if self.size > 1:
                self.parallel_level += 1
            self.parallel_region += 1

        def finish_parallel_region(self):
            if self.size > 1:
                self.parallel_level -= 1
            self.parallel_region -= 1

        def allreduce(self, A, operation="sum"):
            if self.parallel_level != 1:
                return DistributedConfiguration.allreduce(self, A, operation)
            self.reduced = True      # the harness sums the partial results over ranks
            return None

        def reduce(self, A, operation="sum"):
            if self.parallel_level != 1:
                return DistributedConfiguration.reduce(self, A, operation)
            self.reduced = True
            return A
    for trial in range(4 if tier == "quick" else 40):
        Na = r.randint(2, 4)
        Nk = r.randint(1, 5)
        size = r.randint(1, 6)
        KI = numpy.zeros((Nk, Na, Na))
        for k in range(Nk):
            a = numpy.array([[r.randint(-2, 2) for _ in range(Na)] for _ in range(Na)], dtype=float)
            KI[k] = a + a.T
        cc = numpy.array([[[float(r.randint(0, 3)) for _ in range(Na)] for _ in range(Na)] for _ in range(Nk)])

        def kernel():
            rates = numpy.zeros((Na, Na))
            werror = numpy.zeros(2, dtype=int)
            rr.ssRedfieldRateMatrix(Na, Nk, KI, cc, 1.0e-6, werror, rates)
            return rates
        m = Manager()
        old = m.parallel_conf
        try:
            m.parallel_conf = Conf(1, 0)
            serial = kernel()
            # offdiagonal parts sum over ranks; the diagonal is recomputed from column sums per rank
            total = numpy.zeros((Na, Na))
            for rank in range(size):
                m.parallel_conf = Conf(size, rank)
                part = kernel()
                total += part if (m.parallel_conf.reduced or rank == 0) else 0.0
            # the same kernel called from inside an outer parallel region (nested): nothing may be shared
            for rank in range(size):
                m.parallel_conf = Conf(size, rank, outer=1)
                part = kernel()
                if not numpy.array_equal(part, serial):
                    chk.violation("reduce:nested_not_serial", "ssRedfieldRateMatrix inside an outer parallel region "
                                  "(size=%d rank=%d Nk=%d) differs from the serial result: max dev %g"
                                  % (size, rank, Nk, float(numpy.max(numpy.abs(part - serial)))), "monitor",
                                  {"Na": Na, "Nk": Nk, "size": size, "rank": rank, "KI": KI.tolist(), "cc": cc.tolist()})
                    break
        except Exception as e:
            chk.violation("reduce:exception", "ssRedfieldRateMatrix under simulated ranks raised %r" % (e,), "monitor",
                          {"Na": Na, "Nk": Nk, "size": size})
            continue
        finally:
            m.parallel_conf = old
        chk.case(("reduce", trial, Na, Nk, size), size >= 2 and Nk >= 2)
        chk.count("kind:reduce_end_to_end")
        if not numpy.array_equal(total, serial):
            chk.violation("reduce:not_serial", "rank-summed ssRedfieldRateMatrix differs from serial for size=%d Nk=%d: "
                          "max dev %g" % (size, Nk, float(numpy.max(numpy.abs(total - serial)))), "monitor",
                          {"Na": Na, "Nk": Nk, "size": size, "KI": KI.tolist(), "cc": cc.tolist()})


def real_conf(size, rank, mpi=True, level=0, region=0):
    """a REAL DistributedConfiguration made to believe it is rank `rank` of `size` processes (no transport behind it)"""
    from quantarhei.core.parallel import DistributedConfiguration

    class Comm:
        def Barrier(self):
            pass
    dc = DistributedConfiguration()
    dc.have_mpi, dc.comm, dc.size, dc.rank = bool(mpi), Comm(), size, rank
    dc.parallel_level, dc.parallel_region = level, region
    dc.silent = True
    return dc


def region_history(case):
    """(level, region, raised) after every start/finish of the real object"""
    dc = real_conf(case["size"], 0, case["mpi"], case["l0"], case["g0"])
    obs = []
    for o in case["ops"]:
        raised = False
        try:
            if o:
                dc.start_parallel_region()
            else:
                dc.finish_parallel_region()
        except Exception:
            raised = True
        obs.append((int(dc.parallel_level), int(dc.parallel_region), raised))
    return obs


def run_program(size, prog):
    """a program of region openings/closings and range requests, executed by every simulated rank through the public
    functions; returns per request (depth, start, stop, [block of each rank])"""
    import quantarhei as qr
    from quantarhei.core.managers import Manager
    m = Manager()
    old = m.parallel_conf
    verb = (m.log_conf.verbosity, m.log_conf.fverbosity)
    per_rank = []
    try:
        for rank in range(size):
            m.parallel_conf = real_conf(size, rank)
            got, depth = [], 0
            for it in prog:
                if it == "S":
                    qr.start_parallel_region()
                    depth += 1
                elif it == "F":
                    qr.close_parallel_region()
                    depth -= 1
                else:
                    _, kind, a, b = it
                    bl = [int(i) for i in qr.block_distributed_range(a, b)]
                    got.append((depth, kind, a, b, bl))
            per_rank.append((got, int(m.parallel_conf.parallel_level), int(m.parallel_conf.parallel_region)))
    finally:
        m.parallel_conf = old
        m.log_conf.verbosity, m.log_conf.fverbosity = verb
    return per_rank


def gen_program(r, maxdepth=3, n=10):
    prog, depth = ["S"], 1
    for _ in range(n):
        x = r.random()
        if x < 0.3 and depth < maxdepth:
            prog.append("S")
            depth += 1
        elif x < 0.55 and depth > 1:
            prog.append("F")
            depth -= 1
        else:
            a = r.randint(-3, 3)
            prog.append(("Q", "range", a, a + r.randint(0, 12)))
    while depth > 1:
        prog.append("F")
        depth -= 1
        if r.random() < 0.7:
            a = r.randint(-3, 3)
            prog.append(("Q", "range", a, a + r.randint(0, 12)))
    prog.append("F")
    return prog


GUARD_MSG = "declared parallel_region"


def guard_case(region, level):
    """what the three helpers and the two reductions do on a REAL configuration object with the given counters:
    (helpers refused, code of the reductions: 0 refused / 1 summed through the communicator / 2 data left alone)"""
    import types
    import numpy
    import quantarhei as qr
    from quantarhei.core.managers import Manager
    dc = real_conf(2, 0, True, level, region)
    calls = []

    class Comm:
        def Barrier(self):
            pass

        def Reduce(self, A, B, op=None):
            calls.append("Reduce")
            B[...] = 2 * A          # two processes holding the same partial result

        def Allreduce(self, A, B, op=None):
            calls.append("Allreduce")
            B[...] = 2 * A
    dc.comm = Comm()
    m = Manager()
    old = m.parallel_conf
    fake = types.ModuleType("mpi4py")
    fake.MPI = types.SimpleNamespace(SUM="SUM")
    had = sys.modules.get("mpi4py")
    sys.modules["mpi4py"] = fake
    m.parallel_conf = dc
    try:
        refused = []
        for call in (lambda: qr.block_distributed_range(2, 9), lambda: qr.block_distributed_list(list(range(7))),
                     lambda: qr.block_distributed_list(list(range(7)), return_index=True),
                     lambda: qr.block_distributed_array(numpy.arange(7)), lambda: qr.block_distributed_array(numpy.arange(7), return_index=True)):
            try:
                call()
                refused.append(False)
            except Exception as e:
                if GUARD_MSG not in str(e):
                    raise
                refused.append(True)
        codes = []
        for name in ("reduce", "allreduce"):
            A = numpy.arange(6.0).reshape(2, 3)
            A0 = A.copy()
            del calls[:]
            try:
                B = getattr(dc, name)(A)
                res = B if name == "reduce" else A
                if calls == [name.capitalize()] and numpy.array_equal(res, 2 * A0):
                    codes.append(1)
                elif not calls and numpy.array_equal(A, A0) and (name == "allreduce" or numpy.array_equal(B, A0)):
                    codes.append(2)
                else:
                    codes.append(-1)
            except Exception as e:
                if GUARD_MSG not in str(e):
                    raise
                codes.append(0)
    finally:
        m.parallel_conf = old
        if had is None:
            del sys.modules["mpi4py"]
        else:
            sys.modules["mpi4py"] = had
    return refused, codes


def guards(chk):
    """refusal outside declared regions and the level in which the reductions sum: real objects against Model/C20.v"""
    items, meta = [], []
    for region in (-1, 0, 1, 2, 3):
        for level in (-1, 0, 1, 2, 3):
            c = {"kind": "guard", "region": region, "level": level}
            chk.count("kind:guard")
            try:
                refused, codes = guard_case(region, level)
            except Exception as e:
                chk.violation("guard:exception", "helpers / reductions with parallel_region=%d parallel_level=%d raised %r" % (region, level, e),
                              "monitor", c)
                continue
            chk.case(("guard", region, level), True, sample={"case": c, "impl": [refused, codes]})
            if len(set(refused)) != 1 or len(set(codes)) != 1 or codes[0] < 0:
                chk.violation("guard:inconsistent", "parallel_region=%d parallel_level=%d: the helpers refuse %s (range, list, list+index, array, "
                              "array+index) and reduce/allreduce do %s (0 refuse, 1 sum, 2 leave alone): they must act together"
                              % (region, level, refused, codes), "monitor", c)
                continue
            if (codes[0] == 1) != (level == 1 and not refused[0]) or refused[0] != (codes[0] == 0):
                chk.violation("guard:share_without_sum", "parallel_region=%d parallel_level=%d: helpers refused=%s but reductions do %d; work is "
                              "shared at parallel_level 1 only, so sum-reduced results differ from the serial ones" % (region, level, refused[0], codes[0]),
                              "monitor", c)
            items.append("(%s,%s,%s,%s)" % (cm.zlit(region), cm.zlit(level), "true" if refused[0] else "false", cm.zlit(codes[0])))
            meta.append(c)
    if not items:
        return None
    body = "Definition cs : list (Z*Z*bool*Z) := %s.\nEval vm_compute in (bad guard_agrees cs).\n" % cm.clist(items)

    def judge(rc, out):
        if rc != 0:
            chk.violation("correspondence:coq_error", "coqc failed on guard cases: %s" % out[-600:], "correspondence", {"kind": "guard"},
                          found_input=False)
            return
        bad = cm.parse_natlist(cm.parse_evals(out)[0])
        chk.corr["cases"] += len(items)
        chk.corr["disagreements"] += len(bad)
        for i in bad[:3]:
            chk.violation("correspondence:guard", "refusal / summation observed for %s differs from Model/C20.v (helper, reduce_mode)" % meta[i],
                          "correspondence", meta[i])
    return cm.HEADER + "From QV Require Import Model.C20.\n" + body, judge


def regions(chk, tier, replay=None, also=None):
    """parallel-region bookkeeping: histories of start/finish on real DistributedConfiguration objects against
    Model/C20regions.v, and whole programs with nested regions run by every simulated rank"""
    r = cm.rng("regions")
    hist = []
    if replay is not None and replay.get("kind") == "regions":
        hist = [replay]
    elif replay is None:
        corpus = [[1, 1, 0, 1, 1, 0, 0, 0], [1, 0, 0], [0], [1, 1, 1, 0, 0, 0, 1, 0]]
        for ops in corpus:
            for size in (1, 3):
                hist.append({"kind": "regions", "size": size, "mpi": True, "l0": 0, "g0": 0, "ops": ops})
        for k in range(60 if tier == "quick" else 600):
            n = r.randint(1, 14)
            ops, depth = [], 0
            for _ in range(n):
                o = 1 if (depth == 0 and r.random() < 0.9) or r.random() < 0.5 else 0
                ops.append(o)
                depth += 1 if o else -1
            l0 = r.choice([0, 0, 0, 1, 2])
            hist.append({"kind": "regions", "size": r.choice([1, 2, 4, 7]), "mpi": r.random() < 0.85, "l0": l0,
                         "g0": l0 + r.choice([0, 0, 1]), "ops": ops})
    items = []
    for c in hist:
        obs = region_history(c)
        sh = c["mpi"] and c["size"] > 1
        items.append("(%s,%s,%s,%s,%s)" % ("true" if sh else "false", cm.zlit(c["l0"]), cm.zlit(c["g0"]),
                                            cm.clist(["true" if o else "false" for o in c["ops"]]),
                                            cm.clist(["(%s,%s,%s)" % (cm.zlit(a), cm.zlit(b), "true" if x else "false") for (a, b, x) in obs])))
        chk.count("kind:regions")
        chk.count("regions:sharing" if sh else "regions:not_sharing")
        if any(x for (_, _, x) in obs):
            chk.count("regions:raised")
        chk.case(("regions", c["size"], c["mpi"], c["l0"], c["g0"], tuple(c["ops"])), sh and len(c["ops"]) >= 3,
                 sample={"case": c, "impl": obs})
    if items:
        body = ("Definition cs : list rcase := %s.\nEval vm_compute in (bad rcase_agrees cs).\n" % cm.clist(items))
        res = cm.coq_eval(PID + "_regions", [cm.HEADER + "From QV Require Import Base.Util Model.C20regions.\n" + body] + ([also[0]] if also else []))
        (rc, out) = res[0]
        if also:
            also[1](*res[1])
        if rc != 0:
            chk.violation("correspondence:coq_error", "coqc failed on region histories: %s" % out[-600:], "correspondence",
                          {"kind": "regions"}, found_input=False)
        else:
            bad = cm.parse_natlist(cm.parse_evals(out)[0])
            chk.corr["cases"] += len(items)
            chk.corr["disagreements"] += len(bad)
            for i in bad[:3]:
                chk.violation("correspondence:regions", "start/finish_parallel_region history %s: (level, region, raised) observed %s "
                              "differs from Model/C20regions.v" % (hist[i], region_history(hist[i])), "correspondence", hist[i])
    # whole programs
    progs = []
    if replay is not None and replay.get("kind") == "program":
        progs = [replay]
    elif replay is None:
        progs.append({"kind": "program", "size": 3, "prog": ["S", ["Q", "range", 0, 7], "S", "F", ["Q", "range", 0, 7], "S", "S", "F",
                                                          ["Q", "range", 2, 9], "F", ["Q", "range", -1, 4], "F"]})
        for k in range(12 if tier == "quick" else 150):
            progs.append({"kind": "program", "size": r.choice([2, 3, 4, 6]), "prog": gen_program(r)})
    for c in progs:
        prog = [tuple(x) if isinstance(x, list) else x for x in c["prog"]]
        size = c["size"]
        chk.count("kind:program")
        try:
            per_rank = run_program(size, prog)
        except Exception as e:
            chk.violation("program:exception", "a well-nested program of parallel regions raised %r (size=%d, program %s)" % (e, size, prog),
                          "monitor", c)
            continue
        nreq = len(per_rank[0][0])
        chk.case(("program", size, tuple(prog)), nreq >= 2)
        for rank, (_, lvl, reg) in enumerate(per_rank):
            if (lvl, reg) != (0, 0):
                chk.violation("program:not_restored", "after a balanced program rank %d of %d is left at parallel_level=%d "
                              "parallel_region=%d instead of 0, 0 (program %s)" % (rank, size, lvl, reg, prog), "monitor", c)
                break
        for q in range(nreq):
            depth, kind, a, b, _ = per_rank[0][0][q]
            blocks = [per_rank[rank][0][q][4] for rank in range(size)]
            if depth == 1:
                msg = monitor_partition(blocks, a, b)
            else:
                msg = None
                for rk, bl in enumerate(blocks):
                    if bl != list(range(a, b)):
                        msg = "nesting depth %d: rank %d got %s instead of the whole range(%d,%d)" % (depth, rk, bl, a, b)
                        break
            if msg:
                chk.violation("program:not_partition", "request no. %d (block_distributed_%s(%d,%d) at nesting depth %d) of the program %s "
                              "run by %d ranks: %s" % (q, kind, a, b, depth, prog, size, msg), "monitor", c)
                break


def main():
    chk = cm.Check(PID, args.tier)
    chk.rule = ("exhaustive grid over (size, start, stop) for _calculate_ranges and for block_distributed_range, "
                "and over (size, length, return_index) for the list/array helpers, all ranks each; a case is "
                "non-trivial when the range is non-empty and size >= 2; distinct by (kind,size,a,b)")
    chk.assumptions = ["MPI transport (Reduce/Allreduce/Send/Recv) is not modelled: a rank is simulated by a stub "
                       "DistributedConfiguration(size, rank, parallel_level=1) installed in the Manager",
                       "Python's // and % on ints with positive divisor are Z.div / Z.modulo",
                       "parallel regions: real DistributedConfiguration objects with have_mpi/size/rank set by hand and a no-op Barrier",
                       "static tie (GenC20.v, GenC20b.v): parallel.py's range functions, the three block_distributed helpers, region bookkeeping, "
                       "public region wrappers and the guards of reduce/allreduce are translated statement by statement on every run and proved "
                       "equal to Model/C20.v / Model/C20regions.v; the MPI calls inside reduce/allreduce are matched as text, not modelled; of the "
                       "library's own distributed loops (redfieldtensor.py, redfieldrates.py) only the order of their uses of the machinery is "
                       "extracted (open, distributed loop, all-reduce of an array the loop writes or hands to a call, close), not the loop bodies"]
    chk.prove()
    import translate
    translate.static_tie(cm, chk, PID, cm.REPO)      # second, static tie: model regenerated from the current source
    import translate_c20
    translate_c20.static_tie_b(cm, chk, cm.REPO)     # ... and the helpers, region bookkeeping and reduction guards (GenC20b.v)
    if args.replay:
        rep = json.load(open(args.replay))
        cases = [rep["input"]] if isinstance(rep.get("input"), dict) and rep["input"].get("kind") in ("ranges", "range", "list", "array") else []
    else:
        cases = []
        for (size, start, stop) in grid(args.tier):
            cases.append({"kind": "ranges", "size": size, "a": start, "b": stop})
        sub = list(grid(args.tier))
        for (size, start, stop) in sub[::3]:
            cases.append({"kind": "range", "size": size, "a": start, "b": stop})
        maxlen = 20 if args.tier == "quick" else 40
        for size in range(1, 9 if args.tier == "quick" else 17):
            for ln in range(0, maxlen + 1):
                for ri in (0, 1):
                    cases.append({"kind": "list", "size": size, "a": ln, "b": ri})
                    cases.append({"kind": "array", "size": size, "a": ln, "b": ri})
        for (size, start, stop) in sub[::7]:
            for level in (0, 2, 3):
                cases.append({"kind": "range", "size": size, "a": start, "b": stop, "level": level})
        for size in (1, 2, 3, 5):
            for ln in (0, 1, 2, 4, 7):
                for ri in (0, 1):
                    for level in (0, 2):
                        cases.append({"kind": "list", "size": size, "a": ln, "b": ri, "level": level})
                        cases.append({"kind": "array", "size": size, "a": ln, "b": ri, "level": level})
        chk.extra["exhaustive"] = True
    run(chk, cases)
    if not args.replay:
        reduce_end_to_end(chk, args.tier)
        regions(chk, args.tier, also=guards(chk))
    else:
        rep = json.load(open(args.replay))
        if isinstance(rep.get("input"), dict) and rep["input"].get("kind") in ("regions", "program"):
            regions(chk, args.tier, rep["input"])
    chk.finish()


main()
