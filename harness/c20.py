# -*- coding: utf-8 -*-
"""C20 - distributed work ranges partition the index range exactly.

Proof: coq/theories/Props/C20.v (model Model/C20.v).
Tie: the real `_calculate_ranges`, `block_distributed_range/list/array` are run for every
(size, rank, start, stop) of an exhaustive grid with a stub DistributedConfiguration installed in
the Manager; their outputs are compared *inside Coq* with the model (exact integers), and the
property itself is monitored directly on the implementation's outputs.
"""
import os
import sys
import json

sys.path.insert(0, os.path.dirname(os.path.abspath(__file__)))
import common as cm

PID = "C20"
work = cm.reexec_isolated(PID)
args = cm.parse_args(sys.argv[1:])


class StubConf:
    """stands for DistributedConfiguration of an MPI run with `size` processes, seen from `rank`,
    inside `level` nested parallel regions"""

    def __init__(self, size, rank, level=1):
        self.size = size
        self.rank = rank
        self.parallel_level = level
        self.parallel_region = max(level, 1)
        self.have_mpi = True
        self.inparallel = True
        self.silent = True


def impl_ranges(size, start, stop):
    from quantarhei.core import parallel
    out = []
    conf = StubConf(size, 0)
    r0 = parallel._calculate_ranges(conf, start, stop)
    allr = [tuple(int(x) for x in r) for r in conf.ranges]
    for rank in range(size):
        c = StubConf(size, rank)
        r = parallel._calculate_ranges(c, start, stop)
        out.append((int(r[0]), int(r[1])))
    return allr, out


def with_conf(size, rank, fn, level=1):
    from quantarhei.core.managers import Manager
    m = Manager()
    old = m.parallel_conf
    m.parallel_conf = StubConf(size, rank, level)
    try:
        return fn()
    finally:
        m.parallel_conf = old


def impl_api(kind, size, a, b, level=1):
    """indices handed to each rank by the public helpers; a,b = start,stop or (len, return_index)"""
    import numpy
    import quantarhei as qr
    res = []
    for rank in range(size):
        if kind == "range":
            r = with_conf(size, rank, lambda: qr.block_distributed_range(a, b), level)
            res.append([int(i) for i in r])
        elif kind == "list":
            dl = [1000 + i for i in range(a)]
            r = with_conf(size, rank, lambda: qr.block_distributed_list(dl, return_index=bool(b)), level)
            if b:
                for (i, v) in r:
                    if v != 1000 + i:
                        raise AssertionError("index/value mismatch")
                res.append([int(i) for (i, v) in r])
            else:
                res.append([int(v) - 1000 for v in r])
        elif kind == "array":
            arr = numpy.arange(a) + 1000
            r = with_conf(size, rank, lambda: qr.block_distributed_array(arr, return_index=bool(b)), level)
            if b:
                for (i, v) in r:
                    if v != 1000 + i:
                        raise AssertionError("index/value mismatch")
                res.append([int(i) for (i, v) in r])
            else:
                res.append([int(v) - 1000 for v in r])
    return res


def check_reduce_identity(size, level):
    """outside level 1 the real reduce/allreduce must not touch the data"""
    import numpy
    from quantarhei.core.parallel import DistributedConfiguration
    dc = DistributedConfiguration()
    dc.size, dc.rank, dc.parallel_level, dc.parallel_region = size, 0, level, max(level, 1)
    A = numpy.arange(6.0).reshape(2, 3)
    A0 = A.copy()
    B = dc.reduce(A)
    dc.allreduce(A)
    if not (numpy.array_equal(A, A0) and numpy.array_equal(B, A0)):
        return "reduce/allreduce changed the data at parallel_level=%d" % level
    return None


def monitor_partition(blocks, start, stop):
    """the property, directly on the implementation's output; returns None or a description"""
    serial = list(range(start, stop))
    cat = [i for b in blocks for i in b]
    if cat != serial:
        return "blocks concatenated over ranks %s != serial range(%d,%d)" % (blocks, start, stop)
    for b in blocks:
        if b != list(range(b[0], b[0] + len(b))) if b else False:
            return "block not contiguous: %s" % b
    ls = [len(b) for b in blocks]
    if ls and max(ls) - min(ls) > 1:
        return "block sizes differ by more than one: %s" % ls
    return None


def grid(tier):
    if tier == "quick":
        sizes, starts, span = range(1, 9), range(-3, 4), range(-2, 21)
    else:
        sizes, starts, span = range(1, 17), range(-6, 7), range(-3, 41)
    for size in sizes:
        for start in starts:
            for d in span:
                yield size, start, start + d


def run(chk, cases):
    """cases: list of dicts {kind, size, a, b}"""
    coq_items = {"ranges": [], "range": [], "list": [], "array": []}
    meta = {"ranges": [], "range": [], "list": [], "array": []}
    for c in cases:
        kind, size, a, b = c["kind"], c["size"], c["a"], c["b"]
        chk.count("kind:" + kind)
        chk.count("size:%d" % size)
        try:
            if kind == "ranges":
                allr, perrank = impl_ranges(size, a, b)
                if allr != perrank:
                    chk.violation("ranges:inconsistent", "config.ranges %s differs from per-rank return values %s"
                                  % (allr, perrank), "monitor", c)
                blocks = [list(range(x, y)) for (x, y) in allr]
                msg = monitor_partition(blocks, a, b)
                if msg:
                    chk.violation("ranges:not_partition", "_calculate_ranges(size=%d,start=%d,stop=%d): %s"
                                  % (size, a, b, msg), "monitor", c)
                coq_items[kind].append("(%s,%s,%s,%s)" % (cm.zlit(size), cm.zlit(a), cm.zlit(b),
                                       cm.clist(["(%s,%s)" % (cm.zlit(x), cm.zlit(y)) for (x, y) in allr])))
                meta[kind].append(c)
                nontriv = (b - a) >= 1 and size >= 2
            else:
                level = c.get("level", 1)
                chk.count("level:%d" % level)
                blocks = impl_api(kind, size, a, b, level)
                if kind == "range":
                    start, stop = a, b
                else:
                    start, stop = 0, a
                if level == 1:
                    msg = monitor_partition(blocks, start, stop)
                else:
                    # nothing is shared outside level 1 (reduce/allreduce are the identity there):
                    # every process has to loop over the whole range
                    msg = None
                    for rk, bl in enumerate(blocks):
                        if bl != list(range(start, stop)):
                            msg = ("parallel_level=%d: rank %d of %d got %s instead of the whole range(%d,%d), but "
                                   "reductions are the identity at this level" % (level, rk, size, bl, start, stop))
                            break
                    msg = msg or check_reduce_identity(size, level)
                if msg:
                    chk.violation("%s%s:not_partition" % (kind, ":return_index" if (kind != "range" and b) else ""),
                                  "block_distributed_%s(size=%d, %s): %s" % (kind, size, (a, b), msg), "monitor", c)
                coq_items[kind].append("(%s,%s,%s,%s,%s)" % (cm.zlit(level), cm.zlit(size), cm.zlit(start), cm.zlit(stop),
                                       cm.clist([cm.clist([cm.zlit(i) for i in bl]) for bl in blocks])))
                meta[kind].append(c)
                nontriv = (stop - start) >= 1 and size >= 2
            chk.case((kind, size, a, b, c.get("level", 1)), nontriv, sample={"case": c, "impl": blocks if len(blocks) < 9 else blocks[:8]})
        except Exception as e:  # the implementation refused or crashed: not the behaviour the property allows
            chk.violation("%s:exception" % kind, "%s raised %r on %s" % (kind, e, c), "monitor", c)
            chk.case((kind, size, a, b), False)

    # ---- correspondence inside Coq ----
    shards = []
    index = []
    CH = 400
    for kind in ("ranges", "range", "list", "array"):
        items = coq_items[kind]
        for k in range(0, len(items), CH):
            part = items[k:k + CH]
            if kind == "ranges":
                body = ("Definition cs : list (Z*Z*Z*list (Z*Z)) := %s.\n"
                        "Eval vm_compute in (bad (case_agrees FromStart) cs).\n"
                        "Eval vm_compute in (bad (case_agrees FromZero) cs).\n" % cm.clist(part))
            else:
                body = ("Definition cs : list (Z*Z*Z*Z*list (list Z)) := %s.\n"
                        "Definition agrees (v:variant) (c : Z*Z*Z*Z*list (list Z)) : bool :=\n"
                        "  let '(level,size,start,stop,impl) := c in\n"
                        "  eqb_list (eqb_list Z.eqb) (map (fun r => api_block level v size start stop (Z.of_nat r)) (seq 0 (Z.to_nat size))) impl.\n"
                        "Eval vm_compute in (bad (agrees FromStart) cs).\n"
                        "Eval vm_compute in (bad (agrees FromZero) cs).\n" % cm.clist(part))
            shards.append(cm.HEADER + "From QV Require Import Model.C20.\n" + body)
            index.append((kind, k))
    results = cm.coq_eval(PID, shards)
    for (kind, k), (rc, out) in zip(index, results):
        if rc != 0:
            chk.violation("correspondence:coq_error", "coqc failed on cases of kind %s: %s" % (kind, out[-800:]),
                          "correspondence", {"kind": kind}, found_input=False)
            continue
        vals = cm.parse_evals(out)
        bad_fixed = cm.parse_natlist(vals[0])
        bad_zero = cm.parse_natlist(vals[1])
        n = min(CH, len(coq_items[kind]) - k)
        chk.corr["cases"] += n
        chk.corr["disagreements"] += len(bad_fixed)
        chk.corr["agree_with_pinned_variant_only"] = chk.corr.get("agree_with_pinned_variant_only", 0) + \
            len([i for i in bad_fixed if i not in bad_zero])
        for i in bad_fixed[:3]:
            c = meta[kind][k + i]
            which = "it agrees with the FromZero (start ignored) variant" if i not in bad_zero else \
                "it agrees with neither model variant"
            # the monitors above have already evaluated the property on this very case
            chk.violation("correspondence:%s" % kind,
                          "implementation output differs from Model.C20 (FromStart) on %s; %s" % (c, which),
                          "correspondence", c, found_input=False)


def reduce_end_to_end(chk, tier):
    """`callers sum-reduce over blocks`: run the Redfield rate kernel once serially and once per
    rank of a simulated parallel run; the rank-summed result must equal the serial one."""
    import numpy
    from quantarhei.core.managers import Manager
    from quantarhei.implementations.python import redfieldrates as rr
    r = cm.rng("reduce")

    from quantarhei.core.parallel import DistributedConfiguration

    class Conf(StubConf):
        def __init__(self, size, rank, outer=0):
            StubConf.__init__(self, size, rank)
            self.parallel_level = outer if size > 1 else 0
            self.parallel_region = outer
            self.reduced = False

        def start_parallel_region(self):
            if self.size > 1:
                self.parallel_level += 1
            self.parallel_region += 1

        def finish_parallel_region(self):
            if self.size > 1:
                self.parallel_level -= 1
            self.parallel_region -= 1

        def allreduce(self, A, operation="sum"):
            if self.parallel_level != 1:
                return DistributedConfiguration.allreduce(self, A, operation)
            self.reduced = True      # the harness sums the partial results over ranks
            return None

        def reduce(self, A, operation="sum"):
            if self.parallel_level != 1:
                return DistributedConfiguration.reduce(self, A, operation)
            self.reduced = True
            return A
    for trial in range(4 if tier == "quick" else 40):
        Na = r.randint(2, 4)
        Nk = r.randint(1, 5)
        size = r.randint(1, 6)
        KI = numpy.zeros((Nk, Na, Na))
        for k in range(Nk):
            a = numpy.array([[r.randint(-2, 2) for _ in range(Na)] for _ in range(Na)], dtype=float)
            KI[k] = a + a.T
        cc = numpy.array([[[float(r.randint(0, 3)) for _ in range(Na)] for _ in range(Na)] for _ in range(Nk)])

        def kernel():
            rates = numpy.zeros((Na, Na))
            werror = numpy.zeros(2, dtype=int)
            rr.ssRedfieldRateMatrix(Na, Nk, KI, cc, 1.0e-6, werror, rates)
            return rates
        m = Manager()
        old = m.parallel_conf
        try:
            m.parallel_conf = Conf(1, 0)
            serial = kernel()
            # offdiagonal parts sum over ranks; the diagonal is recomputed from column sums per rank
            total = numpy.zeros((Na, Na))
            for rank in range(size):
                m.parallel_conf = Conf(size, rank)
                part = kernel()
                total += part if (m.parallel_conf.reduced or rank == 0) else 0.0
            # the same kernel called from inside an outer parallel region (nested): nothing may be shared
            for rank in range(size):
                m.parallel_conf = Conf(size, rank, outer=1)
                part = kernel()
                if not numpy.array_equal(part, serial):
                    chk.violation("reduce:nested_not_serial", "ssRedfieldRateMatrix inside an outer parallel region "
                                  "(size=%d rank=%d Nk=%d) differs from the serial result: max dev %g"
                                  % (size, rank, Nk, float(numpy.max(numpy.abs(part - serial)))), "monitor",
                                  {"Na": Na, "Nk": Nk, "size": size, "rank": rank, "KI": KI.tolist(), "cc": cc.tolist()})
                    break
        except Exception as e:
            chk.violation("reduce:exception", "ssRedfieldRateMatrix under simulated ranks raised %r" % (e,), "monitor",
                          {"Na": Na, "Nk": Nk, "size": size})
            continue
        finally:
            m.parallel_conf = old
        chk.case(("reduce", trial, Na, Nk, size), size >= 2 and Nk >= 2)
        chk.count("kind:reduce_end_to_end")
        if not numpy.array_equal(total, serial):
            chk.violation("reduce:not_serial", "rank-summed ssRedfieldRateMatrix differs from serial for size=%d Nk=%d: "
                          "max dev %g" % (size, Nk, float(numpy.max(numpy.abs(total - serial)))), "monitor",
                          {"Na": Na, "Nk": Nk, "size": size, "KI": KI.tolist(), "cc": cc.tolist()})


def main():
    chk = cm.Check(PID, args.tier)
    chk.rule = ("exhaustive grid over (size, start, stop) for _calculate_ranges and for block_distributed_range, "
                "and over (size, length, return_index) for the list/array helpers, all ranks each; a case is "
                "non-trivial when the range is non-empty and size >= 2; distinct by (kind,size,a,b)")
    chk.assumptions = ["MPI transport (Reduce/Allreduce/Send/Recv) is not modelled: a rank is simulated by a stub "
                       "DistributedConfiguration(size, rank, parallel_level=1) installed in the Manager",
                       "Python's // and % on ints with positive divisor are Z.div / Z.modulo"]
    chk.prove()
    import translate
    translate.static_tie(cm, chk, PID, cm.REPO)      # second, static tie: model regenerated from the current source
    if args.replay:
        rep = json.load(open(args.replay))
        cases = [rep["input"]] if isinstance(rep.get("input"), dict) and "kind" in rep["input"] else []
    else:
        cases = []
        for (size, start, stop) in grid(args.tier):
            cases.append({"kind": "ranges", "size": size, "a": start, "b": stop})
        sub = list(grid(args.tier))
        for (size, start, stop) in sub[::3]:
            cases.append({"kind": "range", "size": size, "a": start, "b": stop})
        maxlen = 20 if args.tier == "quick" else 40
        for size in range(1, 9 if args.tier == "quick" else 17):
            for ln in range(0, maxlen + 1):
                for ri in (0, 1):
                    cases.append({"kind": "list", "size": size, "a": ln, "b": ri})
                    cases.append({"kind": "array", "size": size, "a": ln, "b": ri})
        for (size, start, stop) in sub[::7]:
            for level in (0, 2, 3):
                cases.append({"kind": "range", "size": size, "a": start, "b": stop, "level": level})
        for size in (1, 2, 3, 5):
            for ln in (0, 1, 2, 4, 7):
                for ri in (0, 1):
                    for level in (0, 2):
                        cases.append({"kind": "list", "size": size, "a": ln, "b": ri, "level": level})
                        cases.append({"kind": "array", "size": size, "a": ln, "b": ri, "level": level})
        chk.extra["exhaustive"] = True
    run(chk, cases)
    if not args.replay:
        reduce_end_to_end(chk, args.tier)
    chk.finish()


main()
