#!/bin/sh
# usage: seed_confirm.sh <seed dir containing patch.diff demo.py meta.json> <name>
# Confirms in a scratch worktree (removed afterwards) that (1) the demo passes on the clean tree,
# (2) fails with the patch, (3) the unit suite has the baseline's failures only. Prints one summary line.
sd="$1"; name="$2"
wt="/tmp/confirm_$name"
export HOME="/tmp/confirm_home_$name" MPLBACKEND=Agg PYTHONWARNINGS=ignore
mkdir -p "$HOME"
git -C /repo worktree add -q --detach "$wt" HEAD || exit 2
cp "$sd/demo.py" "$wt/demo_seed.py"
( cd "$wt" && PYTHONPATH="$wt" timeout 900 /venv/bin/python -W ignore demo_seed.py >/tmp/confirm_$name.clean.log 2>&1 ); rc_clean=$?
( cd "$wt" && git apply "$sd/patch.diff" ) || { echo "SEED $name patch-does-not-apply"; git -C /repo worktree remove --force "$wt"; exit 1; }
( cd "$wt" && PYTHONPATH="$wt" timeout 900 /venv/bin/python -W ignore demo_seed.py >/tmp/confirm_$name.mut.log 2>&1 ); rc_mut=$?
( cd "$wt" && PYTHONPATH="$wt" timeout 3000 /venv/bin/python -m pytest -q -p no:cacheprovider --timeout=900 --continue-on-collection-errors tests/unit 2>&1 | tail -12 > /tmp/confirm_$name.tests.log )
summary=$(grep -E "passed|failed" /tmp/confirm_$name.tests.log | tail -1)
fails=$(grep -E "^(FAILED|ERROR)" /tmp/confirm_$name.tests.log | sed 's/ - .*//' | sort | tr '\n' ' ')
git -C /repo worktree remove --force "$wt"
rm -rf "$HOME"
echo "SEED $name demo_clean_rc=$rc_clean demo_mutated_rc=$rc_mut tests: $summary | $fails"
