#!/bin/sh
# usage: seed_try.sh <patch.diff> <property id> [tier]   -- applies a seeded change to /repo, runs the check, undoes it
p="$1"; id="$2"; tier="${3:-quick}"
echo "seed_try.sh patches /repo itself: make sure no other check is running (prefer seed_process.sh / VERIF_REPO on a scratch worktree)"; cd /repo || exit 2
if [ -n "$(git status --porcelain --untracked-files=no)" ]; then echo "/repo not clean"; exit 2; fi
git apply "$p" || { echo "patch does not apply"; exit 2; }
( cd /verif && ./check "$id" --tier "$tier" 2>&1 | tail -6 )
git -C /repo checkout -- .
