# -*- coding: utf-8 -*-
"""Static tie for C13: the model of Model/C13.v regenerated from the current source (DESIGN.md section 12).

Translated on every run (fail-closed: anything outside the fragment raises Untranslatable):

* quantarhei/core/time.py:TimeAxis.get_FrequencyAxis and quantarhei/core/frequency.py:FrequencyAxis.get_TimeAxis - whole bodies, by a
  small typed interpreter of straight-line code with `if self.atype == ...` dispatch, `if cond: raise`, `with energy_units("int")`:
  Python ints -> nat (only + * // % int(a/b) len() on non-negative quantities; `-` is outside the fragment), floats -> an abstract field K
  (2.0*numpy.pi -> tp), numpy arrays of axis values -> (length, element function) with numpy.fft.fftfreq / fftshift / scalar*array,
  every array access a[i] fallible (IndexError -> None).  The generated `gen_freq_axis_of` / `gen_time_axis_of` are proved equal to
  Model.C13.freq_axis_of / time_axis_of for every axis (Proofs/C13gen.v: aget_shift_fftfreq is the semantic lemma).
* quantarhei/core/dfunction.py:DFunction.get_Fourier_transform / get_inverse_Fourier_transform - statement template (node for node) with
  holes for the eight array expressions (shift / transform / shift order, scale factors), the Hermitian completion (zeros length, slice
  bounds, loop bounds, target and source index) and the cuts Y[a:b]; the generated definitions are proved equal to Model.C13.ft_time /
  ift_freq / ift_time / ft_freq with the Repaired variant (Proofs/C13gen.v: herm_skel_is_model, slice_is_upper_part, zeros_assign_all).
"""
import ast

from translate import Untranslatable, Expr, _src_of
from translate2 import unify, _live, _strip

RESERVED = {"at", "as", "in", "end", "fun", "fix", "cofix", "let", "match", "with", "then", "else", "if", "return", "using", "where", "for",
            "forall", "exists", "exists2", "Type", "Set", "Prop", "SProp", "IsSucc", "by", "mod", "t", "K", "tp", "R", "fdata", "w"}


def coqname(n):
    """Gallina binder for a Python local (keywords and the names the generated sections use are suffixed)"""
    return n + "_" if n in RESERVED else n


PI2 = {"2.0 * numpy.pi", "numpy.pi * 2.0", "2 * numpy.pi", "numpy.pi * 2"}


# =============================================================================================== axes
class Val:
    """typed Gallina term: ty in K (pure field element), oK (option K), nat, arr, bool"""

    def __init__(self, ty, term):
        self.ty, self.term = ty, term


class AxisExpr:
    def __init__(self, conj_attr, env):
        self.conj_attr = conj_attr            # "frequency_start" on a TimeAxis, "time_start" on a FrequencyAxis
        self.env = dict(env)                  # python name -> Val

    # -- coercions
    def toK(self, v):
        """pure or fallible field element; ints are embedded with ofnat"""
        if v.ty in ("K", "oK"):
            return v
        if v.ty == "nat":
            return Val("K", "(ofnat K %s)" % v.term)
        raise Untranslatable("a %s where a number is expected: %s" % (v.ty, v.term))

    @staticmethod
    def opt(v):
        return v.term if v.ty == "oK" else "(Some %s)" % v.term

    def arith(self, op, a, b):
        a, b = self.toK(a), self.toK(b)
        if a.ty == "K" and b.ty == "K":
            return Val("K", "(f%s K %s %s)" % (op, a.term, b.term))
        return Val("oK", "(o%s %s %s)" % (op, self.opt(a), self.opt(b)))

    def e(self, node):
        u = ast.unparse(node)
        if u in PI2:
            return Val("K", "tp")
        if isinstance(node, ast.Name):
            if node.id not in self.env:
                raise Untranslatable("unknown name %r" % node.id)
            return self.env[node.id]
        if isinstance(node, ast.Constant):
            if isinstance(node.value, bool) or not isinstance(node.value, int) or node.value < 0:
                raise Untranslatable("constant %r" % (node.value,))
            return Val("nat", "%d%%nat" % node.value)
        if isinstance(node, ast.Attribute):
            tab = {"self.length": Val("nat", "(a_len t)"), "self.step": Val("K", "(a_step t)"), "self.start": Val("K", "(a_start t)"),
                   "self.min": Val("K", "(a_start t)"), "self.data": Val("arr", "(axis_data t)"),
                   "self." + self.conj_attr: Val("K", "(a_conj t)")}
            if u in tab:
                return tab[u]
            raise Untranslatable("attribute %s" % u)
        if isinstance(node, ast.Call):
            f = ast.unparse(node.func)
            if node.keywords:
                raise Untranslatable("keyword arguments in %s" % u[:60])
            a = node.args
            if f == "numpy.fft.fftfreq" and len(a) == 2:
                n, d = self.e(a[0]), self.toK(self.e(a[1]))
                if n.ty != "nat" or d.ty != "K":
                    raise Untranslatable("fftfreq arguments %s" % u[:80])
                return Val("arr", "(arr_fftfreq %s %s)" % (n.term, d.term))
            if f in ("numpy.fft.fftshift", "numpy.fft.ifftshift") and len(a) == 1:
                x = self.e(a[0])
                if x.ty != "arr":
                    raise Untranslatable("%s of a %s" % (f, x.ty))
                return Val("arr", "(%s %s)" % ("arr_shift" if f.endswith(".fftshift") else "arr_ishift", x.term))
            if f == "len" and len(a) == 1:
                x = self.e(a[0])
                if x.ty != "arr":
                    raise Untranslatable("len of a %s" % x.ty)
                return Val("nat", "(arr_len %s)" % x.term)
            if f == "int" and len(a) == 1 and isinstance(a[0], ast.BinOp) and isinstance(a[0].op, ast.Div):
                # int(a / b) on non-negative ints (below 2**53) is a // b
                x, y = self.e(a[0].left), self.e(a[0].right)
                if x.ty == "nat" and y.ty == "nat":
                    return Val("nat", "(%s / %s)%%nat" % (x.term, y.term))
            raise Untranslatable("call %s" % u[:80])
        if isinstance(node, ast.Subscript):
            x, i = self.e(node.value), self.e(node.slice) if not isinstance(node.slice, (ast.Slice, ast.Tuple)) else None
            if i is None or x.ty != "arr" or i.ty != "nat":
                raise Untranslatable("subscript %s" % u[:80])
            return Val("oK", "(arr_get %s %s)" % (x.term, i.term))
        if isinstance(node, ast.BinOp):
            a, b = self.e(node.left), self.e(node.right)
            op = type(node.op)
            if a.ty == "nat" and b.ty == "nat":
                tab = {ast.Add: "+", ast.Mult: "*", ast.FloorDiv: "/", ast.Mod: "mod"}
                if op in tab:
                    return Val("nat", "(%s %s %s)%%nat" % (a.term, tab[op], b.term))
                if op is ast.Div:                     # true division of ints: a float
                    return self.arith("div", a, b)
                raise Untranslatable("integer operator %s in %s (subtraction of ints is outside the fragment)" % (op.__name__, u[:60]))
            if op is ast.Mult and "arr" in (a.ty, b.ty):
                c, x = (a, b) if b.ty == "arr" else (b, a)
                c = self.toK(c)
                if x.ty != "arr" or c.ty != "K":
                    raise Untranslatable("array product %s" % u[:80])
                return Val("arr", "(arr_scale %s %s)" % (c.term, x.term))
            tab = {ast.Add: "add", ast.Sub: "sub", ast.Mult: "mul", ast.Div: "div"}
            if op in tab and "arr" not in (a.ty, b.ty):
                return self.arith(tab[op], a, b)
            raise Untranslatable("operator %s in %s" % (op.__name__, u[:60]))
        raise Untranslatable("expression %s" % u[:80])

    def cond(self, node):
        if isinstance(node, ast.Compare) and len(node.ops) == 1:
            a, b = self.e(node.left), self.e(node.comparators[0])
            if a.ty != "nat" or b.ty != "nat":
                raise Untranslatable("comparison of non-integers %s" % ast.unparse(node)[:60])
            tab = {ast.Eq: "(Nat.eqb %s %s)", ast.NotEq: "(negb (Nat.eqb %s %s))", ast.Lt: "(Nat.ltb %s %s)", ast.LtE: "(Nat.leb %s %s)",
                   ast.Gt: "(Nat.ltb %s %s)", ast.GtE: "(Nat.leb %s %s)"}
            op = type(node.ops[0])
            if op not in tab:
                raise Untranslatable("comparison %s" % op.__name__)
            if op in (ast.Gt, ast.GtE):
                a, b = b, a
            return tab[op] % (a.term, b.term)
        raise Untranslatable("condition %s" % ast.unparse(node)[:60])


ATYPES = {"complete": "Complete", "upper-half": "UpperHalf"}


def _atype_test(test):
    """`self.atype == 'complete'` (either order) -> 'complete'"""
    if isinstance(test, ast.Compare) and len(test.ops) == 1 and isinstance(test.ops[0], ast.Eq):
        l, r = test.left, test.comparators[0]
        for a, b in ((l, r), (r, l)):
            if ast.unparse(a) == "self.atype" and isinstance(b, ast.Constant) and b.value in ATYPES:
                return b.value
    return None


def _is_raise(stmts):
    s = _live(stmts)
    return len(s) == 1 and isinstance(s[0], ast.Raise)


def axis_program(fn, conj_attr, ctor, conj_kw):
    """body of get_FrequencyAxis / get_TimeAxis -> Gallina term of type option (axis K) in the variable t"""
    fresh = [0]

    def ctor_call(call, ex, atype):
        if not (isinstance(call, ast.Call) and isinstance(call.func, ast.Name) and call.func.id == ctor and len(call.args) == 3):
            raise Untranslatable("expected %s(start, length, step, atype=..., %s=...), found %s" % (ctor, conj_kw, ast.unparse(call)[:80]))
        kws = {k.arg: k.value for k in call.keywords}
        if set(kws) != {"atype", conj_kw} or ast.unparse(kws["atype"]) != "self.atype":
            raise Untranslatable("keywords of the %s call: %s" % (ctor, ast.unparse(call)[:100]))
        if atype is None:
            raise Untranslatable("%s constructed outside the dispatch on self.atype" % ctor)
        start, n, step, conj = ex.toK(ex.e(call.args[0])), ex.e(call.args[1]), ex.toK(ex.e(call.args[2])), ex.toK(ex.e(kws[conj_kw]))
        if n.ty != "nat":
            raise Untranslatable("axis length %s" % ast.unparse(call.args[1]))
        binds, names = [], []
        for v in (start, step, conj):
            if v.ty == "K":
                names.append(v.term)
            else:
                fresh[0] += 1
                nm = "x%d" % fresh[0]
                binds.append("obind %s (fun %s => " % (v.term, nm))
                names.append(nm)
        return "".join(binds) + "Some (mkAxis %s %s %s %s %s)" % (names[0], n.term, names[1], atype, names[2]) + ")" * len(binds)

    def block(stmts, ex, atype, depth):
        stmts = _live(stmts)
        ind = "  " * depth
        if not stmts:
            raise Untranslatable("the function ends without returning an axis")
        s, rest = stmts[0], stmts[1:]
        u = ast.unparse(s)
        if isinstance(s, ast.ImportFrom):
            if u not in ("from .frequency import FrequencyAxis", "from .time import TimeAxis"):
                raise Untranslatable("import %s" % u)
            return block(rest, ex, atype, depth)
        if isinstance(s, ast.With):
            if not (len(s.items) == 1 and s.items[0].optional_vars is None and ast.unparse(s.items[0].context_expr) in
                    ('energy_units("int")', "energy_units('int')")):
                raise Untranslatable("context %s" % u[:60])
            return block(list(s.body) + rest, ex, atype, depth)           # internal units: conversions are the identity
        if isinstance(s, ast.If):
            a = _atype_test(s.test)
            if a is not None:
                if atype is not None:
                    raise Untranslatable("second dispatch on self.atype")
                branches, cur = {}, s
                while True:
                    a = _atype_test(cur.test)
                    if a is None or a in branches:
                        raise Untranslatable("dispatch on self.atype: %s" % ast.unparse(cur.test))
                    branches[a] = list(cur.body)
                    orelse = _live(cur.orelse)
                    if len(orelse) == 1 and isinstance(orelse[0], ast.If):
                        cur = orelse[0]
                        continue
                    if not _is_raise(orelse):
                        raise Untranslatable("the dispatch on self.atype does not end in `else: raise`")
                    break
                if set(branches) != set(ATYPES):
                    raise Untranslatable("axis types handled: %s" % sorted(branches))
                out = ["match a_type t with"]
                for a in ("complete", "upper-half"):
                    out.append("%s| %s =>\n%s  %s" % (ind, ATYPES[a], ind, block(branches[a] + rest, AxisExpr(ex.conj_attr, ex.env), ATYPES[a], depth + 1)))
                out.append("%send" % ind)
                return "\n".join(out)
            if _is_raise(s.body) and not _live(s.orelse):
                return "if %s then None else\n%s%s" % (ex.cond(s.test), ind, block(rest, ex, atype, depth))
            raise Untranslatable("if statement %s" % u[:80])
        if isinstance(s, ast.Return):
            if rest:
                raise Untranslatable("statements after return")
            if isinstance(s.value, ast.Name):
                v = ex.e(s.value)
                if v.ty != "axis":
                    raise Untranslatable("returns a %s" % v.ty)
                return v.term
            return ctor_call(s.value, ex, atype)
        if isinstance(s, ast.Assign) and len(s.targets) == 1 and isinstance(s.targets[0], ast.Name):
            nm = s.targets[0].id
            if isinstance(s.value, ast.Call) and isinstance(s.value.func, ast.Name) and s.value.func.id == ctor:
                ex.env[nm] = Val("axis", ctor_call(s.value, ex, atype))
                return block(rest, ex, atype, depth)
            v = ex.e(s.value)
            cn = coqname(nm)
            if v.ty == "oK":          # may raise here: bind
                ex.env[nm] = Val("K", cn)
                return "obind %s (fun %s =>\n%s%s)" % (v.term, cn, ind, block(rest, ex, atype, depth))
            ex.env[nm] = Val(v.ty, cn)
            return "let %s := %s in\n%s%s" % (cn, v.term, ind, block(rest, ex, atype, depth))
        raise Untranslatable("statement %s" % u[:80])

    if [a.arg for a in fn.args.args] != ["self"]:
        raise Untranslatable("signature of %s" % fn.name)
    return block(fn.body, AxisExpr(conj_attr, {}), None, 2)


AXES_TEXT = """
Section GenAxes.
  Variable K : Fld.
  Variable tp : K.
  Add Field KfGenAxes : (fth K).
  (* time.py:TimeAxis.get_FrequencyAxis *)
  Definition gen_freq_axis_of (t : axis K) : option (axis K) :=
    %(freq)s.
  (* frequency.py:FrequencyAxis.get_TimeAxis *)
  Definition gen_time_axis_of (t : axis K) : option (axis K) :=
    %(time)s.
  Lemma gen_freq_axis_of_is_model : forall t, gen_freq_axis_of t = freq_axis_of K tp t.
  Proof. intros t. unfold gen_freq_axis_of, freq_axis_of. destruct (a_type t); axis_tie K. Qed.
  Lemma gen_time_axis_of_is_model : forall t, gen_time_axis_of t = time_axis_of K tp t.
  Proof. intros t. unfold gen_time_axis_of, time_axis_of. destruct (a_type t); axis_tie K. Qed.
End GenAxes.
"""


def axes(repo):
    f = axis_program(_src_of(repo + "/quantarhei/core/time.py", "TimeAxis.get_FrequencyAxis"), "frequency_start", "FrequencyAxis", "time_start")
    t = axis_program(_src_of(repo + "/quantarhei/core/frequency.py", "FrequencyAxis.get_TimeAxis"), "time_start", "TimeAxis", "frequency_start")
    return AXES_TEXT % {"freq": f, "time": t}, ["time.py:TimeAxis.get_FrequencyAxis (whole body)", "frequency.py:FrequencyAxis.get_TimeAxis (whole body)"]


# =============================================================================================== values
T_FT = '''
def get_Fourier_transform(self, window=None):
    t = self.axis
    y = self.data
    if isinstance(t, TimeAxis):
        if window is None:
            winfce = DFunction(self.axis, numpy.ones(self.axis.length, dtype=REAL))
        else:
            winfce = window
        y = y * winfce.data
        w = t.get_FrequencyAxis()
        if t.atype == "complete":
            Y = H_tc
        elif t.atype == "upper-half":
            yy = numpy.zeros(H_zl, dtype=y.dtype)
            yy[H_slo:H_shi] = y
            for k in range(H_klo, H_khi):
                yy[H_idx] = numpy.conj(y[H_src])
            Y = H_tu
        else:
            raise H_exc1
        F = DFunction(w, Y)
    elif isinstance(t, FrequencyAxis):
        w = t
        t = w.get_TimeAxis()
        with energy_units("int"):
            wstep = w.step
        Y = H_fy
        if w.atype == "complete":
            F = DFunction(t, Y)
        elif w.atype == "upper-half":
            Y = Y[H_ca:H_cb]
            F = DFunction(t, Y)
        else:
            raise H_exc2
    else:
        raise H_exc3
    return F
'''

T_IFT = '''
def get_inverse_Fourier_transform(self):
    t = self.axis
    y = self.data
    if isinstance(t, TimeAxis):
        w = t.get_FrequencyAxis()
        if t.atype == "complete":
            Y = H_tc
        elif t.atype == "upper-half":
            yy = numpy.zeros(H_zl, dtype=y.dtype)
            yy[H_slo:H_shi] = y
            for k in range(H_klo, H_khi):
                yy[H_idx] = numpy.conj(y[H_src])
            Y = H_tu
        else:
            raise H_exc1
        F = DFunction(w, Y)
    elif isinstance(t, FrequencyAxis):
        w = t
        t = w.get_TimeAxis()
        with energy_units("int"):
            wstep = w.step
        Y = H_fy
        if t.atype == "complete":
            F = DFunction(t, Y)
        elif t.atype == "upper-half":
            y = numpy.zeros(H_zl2, dtype=numpy.complex128)
            y[H_a1:H_b1] = Y[H_ca:H_cb]
            F = DFunction(t, y)
        else:
            raise H_exc2
    else:
        pass
    return F
'''


def _range_args(fn):
    """`range(n)` is `range(0, n)`: normalised before unification"""
    class R(ast.NodeTransformer):
        def visit_Call(self, node):
            self.generic_visit(node)
            if isinstance(node.func, ast.Name) and node.func.id == "range" and len(node.args) == 1 and not node.keywords:
                node.args = [ast.Constant(0), node.args[0]]
            return node
    return R().visit(fn)


def _match(path, qual, template):
    fn = _range_args(_src_of(path, qual))
    tfn = ast.parse(template).body[0]
    env = {}
    unify([a.arg for a in tfn.args.args], [a.arg for a in fn.args.args], env, qual + ".args")
    unify(tfn.body, fn.body, env, qual)
    return env


class ValueExpr:
    """numpy expressions over the value arrays -> (base list term, elementwise scalar function of z)"""

    def __init__(self, arrays, scalars):
        self.arrays, self.scalars = dict(arrays), dict(scalars)

    def scalar(self, node):
        u = ast.unparse(node)
        if u in self.scalars:
            return self.scalars[u]
        if isinstance(node, ast.Constant) and not isinstance(node.value, bool) and isinstance(node.value, (int, float)):
            if node.value == 2:
                return "two"
            if node.value == 1:
                return "1"
            raise Untranslatable("scale constant %r" % (node.value,))
        if isinstance(node, ast.BinOp) and isinstance(node.op, ast.Mult):
            a, b = self.scalar(node.left), self.scalar(node.right)
            if a is not None and b is not None:
                return "(%s * %s)" % (a, b)
        return None

    def arr(self, node):
        """-> (base, f) with f(z) the scalar expression applied elementwise"""
        u = ast.unparse(node)
        if isinstance(node, ast.Name):
            if node.id in self.arrays:
                return self.arrays[node.id], None
            raise Untranslatable("array name %s" % node.id)
        if isinstance(node, ast.Call) and not node.keywords and len(node.args) == 1:
            tab = {"numpy.fft.fftshift": "fftshift", "numpy.fft.ifftshift": "ifftshift", "numpy.fft.fft": "fft", "numpy.fft.ifft": "ifft"}
            f = ast.unparse(node.func)
            if f in tab:
                return "(%s %s)" % (tab[f], self.term(node.args[0])), None
            raise Untranslatable("call %s" % u[:60])
        if isinstance(node, ast.BinOp) and isinstance(node.op, ast.Mult):
            sl, sr = self.scalar(node.left), self.scalar(node.right)
            if sl is not None and sr is None:
                base, f = self.arr(node.right)
                return base, (lambda z, f=f, c=sl: "(%s * %s)" % (c, f(z) if f else z))
            if sr is not None and sl is None:
                base, f = self.arr(node.left)
                return base, (lambda z, f=f, c=sr: "(%s * %s)" % (f(z) if f else z, c))
            raise Untranslatable("product %s" % u[:80])
        if isinstance(node, ast.BinOp) and isinstance(node.op, ast.Div):
            if ast.unparse(node.right) in PI2 and self.scalars.get("1/2pi"):
                base, f = self.arr(node.left)
                return base, (lambda z, f=f: "(%s * %s)" % (f(z) if f else z, self.scalars["1/2pi"]))
            raise Untranslatable("division %s" % u[:80])
        raise Untranslatable("array expression %s" % u[:80])

    def term(self, node):
        base, f = self.arr(node)
        return base if f is None else "(map (fun z => %s) %s)" % (f("z"), base)


def _nat(node, attrs):
    """non-negative Python int expression (no subtraction) -> nat term"""
    u = ast.unparse(node)
    if u in attrs:
        return attrs[u]
    if isinstance(node, ast.Constant) and isinstance(node.value, int) and not isinstance(node.value, bool) and node.value >= 0:
        return "%d%%nat" % node.value
    if isinstance(node, ast.BinOp) and type(node.op) in (ast.Add, ast.Mult, ast.FloorDiv):
        op = {ast.Add: "+", ast.Mult: "*", ast.FloorDiv: "/"}[type(node.op)]
        return "(%s %s %s)%%nat" % (_nat(node.left, attrs), op, _nat(node.right, attrs))
    raise Untranslatable("length / slice bound %s (only + * // of lengths and literals)" % u[:60])


def _herm(env, nat_attrs, z_attrs):
    ez = Expr("Z", {"k": "k"}, attrs=z_attrs)
    ez0 = Expr("Z", {}, attrs=z_attrs)
    return "(herm_skel %s %s %s %s%%Z %s%%Z (fun k => %s%%Z) (fun k => %s%%Z) y)" % (
        _nat(env["H_zl"], nat_attrs), _nat(env["H_slo"], nat_attrs), _nat(env["H_shi"], nat_attrs),
        ez0.e(env["H_klo"]), ez0.e(env["H_khi"]), ez.e(env["H_idx"]), ez.e(env["H_src"]))


VALUES_TEXT = """
Section GenValues.
  Context {R : StarRing}.
  Add Ring RrGenValues : (rth R).
  Open Scope sr_scope.
  Variables fft ifft : list R -> list R.
  (* tlen = t.length, wlen = w.length (Python ints), d = t.step, dw = w.step in internal units, itp = 1/(2 pi) *)

  (* ---- get_Fourier_transform, function on a TimeAxis *)
  Definition gen_ft_tc (tlen wlen : nat) (d : R) (y : list R) : list R := %(ft_tc)s.
  Definition gen_ft_tu (tlen wlen : nat) (d : R) (y : list R) : list R :=
    let yy := %(ft_herm)s in %(ft_tu)s.
  (* ---- get_Fourier_transform, function on a FrequencyAxis *)
  Definition gen_ft_fy (tlen wlen : nat) (dw itp : R) (y : list R) : list R := %(ft_fy)s.
  Definition gen_ft_fu (tlen wlen : nat) (dw itp : R) (y : list R) : list R :=
    let Y := gen_ft_fy tlen wlen dw itp y in slice_n %(ft_ca)s %(ft_cb)s Y.
  (* ---- get_inverse_Fourier_transform, function on a TimeAxis *)
  Definition gen_ift_tc (tlen wlen : nat) (d : R) (y : list R) : list R := %(ift_tc)s.
  Definition gen_ift_tu (tlen wlen : nat) (d : R) (y : list R) : list R :=
    let yy := %(ift_herm)s in %(ift_tu)s.
  (* ---- get_inverse_Fourier_transform, function on a FrequencyAxis *)
  Definition gen_ift_fy (tlen wlen : nat) (dw itp : R) (y : list R) : list R := %(ift_fy)s.
  Definition gen_ift_fu (tlen wlen : nat) (dw itp : R) (y : list R) : list R :=
    let Y := gen_ift_fy tlen wlen dw itp y in slice_assign (zeros_n %(ift_zl2)s) %(ift_a1)s %(ift_b1)s (slice_n %(ift_ca)s %(ift_cb)s Y).

  (* complete axes: the axis lengths are the number of values (w.length = t.length = len(y)) *)
  Lemma gen_ft_tc_is_model : forall d y, gen_ft_tc (length y) (length y) d y = ft_time ifft Repaired Complete d y.
  Proof. intros. unfold gen_ft_tc, ft_time. scale_eq. Qed.
  Lemma gen_ift_tc_is_model : forall d y, gen_ift_tc (length y) (length y) d y = ift_time fft Repaired Complete d y.
  Proof. intros. unfold gen_ift_tc, ift_time. scale_eq. Qed.
  Lemma gen_ft_fy_is_model : forall dw itp y, gen_ft_fy (length y) (length y) dw itp y = ft_freq ifft Repaired Complete dw itp y.
  Proof. intros. unfold gen_ft_fy, ft_freq. scale_eq. Qed.
  Lemma gen_ift_fy_is_model : forall dw itp y, gen_ift_fy (length y) (length y) dw itp y = ift_freq fft Repaired Complete dw itp y.
  Proof. intros. unfold gen_ift_fy, ift_freq. scale_eq. Qed.

  (* upper-half time axis of N = len(y) points: w.length = 2 N (C13gen.upper_freq_len) *)
  Lemma gen_ft_tu_is_model : forall d y, length y <> 0%%nat -> gen_ft_tu (length y) (2 * length y) d y = ft_time ifft Repaired UpperHalf d y.
  Proof. intros d y Hy. unfold gen_ft_tu, ft_time. cbv zeta. rewrite (herm_skel_is_model (length y)) by herm_side. scale_eq. Qed.
  Lemma gen_ift_tu_is_model : forall d y, length y <> 0%%nat -> gen_ift_tu (length y) (2 * length y) d y = ift_time fft Repaired UpperHalf d y.
  Proof. intros d y Hy. unfold gen_ift_tu, ift_time. cbv zeta. rewrite (herm_skel_is_model (length y)) by herm_side. scale_eq. Qed.

  (* upper-half frequency axis of len(y) = 2 n points: t.length = n (C13gen.upper_time_len; odd lengths are refused) *)
  Lemma gen_ft_fu_is_model : forall dw itp y, length y = (2 * (length y / 2))%%nat ->
    gen_ft_fu (length y / 2) (length y) dw itp y = ft_freq ifft Repaired UpperHalf dw itp y.
  Proof.
    intros dw itp y Hev. unfold gen_ft_fu, gen_ft_fy, ft_freq. cbv zeta. rewrite (slice_is_upper_part (length y / 2)) by lia. apply f_equal. first [reflexivity | scale_eq].
  Qed.
  Lemma gen_ift_fu_is_model : forall dw itp y, (forall x, length (fft x) = length x) -> length y = (2 * (length y / 2))%%nat ->
    gen_ift_fu (length y / 2) (length y) dw itp y = ift_freq fft Repaired UpperHalf dw itp y.
  Proof.
    intros dw itp y Hfft Hev. unfold gen_ift_fu, gen_ift_fy, ift_freq. cbv zeta. rewrite (slice_is_upper_part (length y / 2)) by lia.
    rewrite zeros_assign_all by
      first [lia | apply upper_part_length; rewrite map_length, fftshift_length, Hfft, ?ifftshift_length, ?fftshift_length; lia].
    apply f_equal. first [reflexivity | scale_eq].
  Qed.
End GenValues.
"""


def values(repo):
    path = repo + "/quantarhei/core/dfunction.py"
    out = {}
    nat_attrs = {"w.length": "wlen", "t.length": "tlen"}
    z_attrs = {"w.length": "(Z.of_nat wlen)", "t.length": "(Z.of_nat tlen)"}
    sc_time = {"t.length": "(natR tlen)", "w.length": "(natR wlen)", "t.step": "d"}
    sc_freq = {"t.length": "(natR tlen)", "w.length": "(natR wlen)", "wstep": "dw", "1/2pi": "itp"}
    for tag, qual, tpl in (("ft", "DFunction.get_Fourier_transform", T_FT), ("ift", "DFunction.get_inverse_Fourier_transform", T_IFT)):
        env = _match(path, qual, tpl)
        out[tag + "_tc"] = ValueExpr({"y": "y"}, sc_time).term(env["H_tc"])
        out[tag + "_herm"] = _herm(env, nat_attrs, z_attrs)
        out[tag + "_tu"] = ValueExpr({"yy": "yy"}, sc_time).term(env["H_tu"])        # y itself is not used after the completion
        out[tag + "_fy"] = ValueExpr({"y": "y"}, sc_freq).term(env["H_fy"])
        out[tag + "_ca"], out[tag + "_cb"] = _nat(env["H_ca"], nat_attrs), _nat(env["H_cb"], nat_attrs)
        if tag == "ift":
            for h in ("zl2", "a1", "b1"):
                out["ift_" + h] = _nat(env["H_" + h], nat_attrs)
    what = ["dfunction.py:DFunction.get_Fourier_transform (statement template; array expressions, Hermitian completion, cut)",
            "dfunction.py:DFunction.get_inverse_Fourier_transform (statement template; array expressions, Hermitian completion, cut)"]
    return VALUES_TEXT % out, what


HEAD = """(* GENERATED on every run by harness/translate_c13.py from quantarhei/core/time.py:TimeAxis.get_FrequencyAxis,
   quantarhei/core/frequency.py:FrequencyAxis.get_TimeAxis and quantarhei/core/dfunction.py:DFunction.get_Fourier_transform /
   get_inverse_Fourier_transform.  The arithmetic content below is the code's. *)
From Coq Require Import ZArith List Bool Arith Lia ZifyNat Field.
From QV Require Import Base.Alg Base.Sums Base.Util Base.Dft Model.C13 Proofs.C13 Proofs.C13gen.
Import ListNotations.
"""


def static(repo):
    a, wa = axes(repo)
    v, wv = values(repo)
    return HEAD + a + v, wa + wv
