# -*- coding: utf-8 -*-
"""Static tie for C15 (DESIGN.md section 12): a fail-closed WRITE-SET / LAST-WRITE analysis of the API methods the effect
model of Model/C15.v transcribes.

For every shape of call the repeatability theorems quantify over (Model.C15.api), the current `ast` of the method and of
everything it calls on `self`, on objects reachable from `self` and on its arguments (resolved through a class index of
the package, method lookup along the base classes) is interpreted abstractly:

  values     sets of ORIGINS - what an expression may alias: a location (root object, attribute path) of the shared
             world, a fresh object, a fresh object that holds references to locations, a module-level name;
  state      for every location of the shared world written so far, the KINDS its last write may have had
             (any value / a literal constant / the value read from the same location before the call touched it,
             i.e. a restore / the two halves of the cut-off subtraction and its recovery), and whether it was written in place;
  control    if / for / while / try-except-finally / with / return / raise; conditions that the shape decides (which
             branch of a dispatch is taken for this kind of propagator or theory) are given per shape and prune branches,
             every other condition keeps both branches (join);
  calls      methods and module-level functions of the package are analysed in place (receiver and arguments bound to
             the caller's origins); library functions, constructors and a few methods are whitelisted, each with the
             reason stated in WHITELIST below; anything else raises Untranslatable.

The locations are mapped to the fields of Model.C15 by the same table the differential harness uses for its snapshots
(harness/c15.py:field_of) and emitted, per shape, as Coq lists; the generated file proves by computation that

  * every field the code may write is a field the model's program for that shape writes        (gen_written_included)
  * every field whose last write may leave it changed is one the model's symbolic run changes   (gen_changed_included)

so that the theorems of Props/C15.v, which are about the model's programs, cover what the code writes now.
"""
import ast
import os

from translate import Untranslatable

PKG = "/quantarhei"
FILES = ["/qm/propagators/rdmpropagator.py", "/qm/propagators/svpropagator.py", "/qm/propagators/poppropagator.py",
         "/qm/liouvillespace/heom.py", "/qm/liouvillespace/evolutionsuperoperator.py", "/builders/opensystem.py",
         "/builders/aggregate_base.py", "/builders/aggregates.py", "/builders/aggregate_pdeph.py",
         "/builders/aggregate_excitonanalysis.py", "/builders/aggregate_spectroscopy.py",
         "/qm/hilbertspace/hamiltonian.py", "/qm/hilbertspace/operators.py", "/core/managers.py", "/core/matrixdata.py",
         "/core/saveable.py", "/core/time.py", "/qm/liouvillespace/superoperator.py", "/core/dfunction.py"]

# ----------------------------------------------------------------------------------------------- whitelists (with reasons)
WHITELIST = {
    "pure_functions": "numpy / scipy / builtin functions called without `out=`: they return new arrays or scalars and do not "
                      "modify their arguments",
    "view_functions": "numpy.real / numpy.imag / numpy.asarray / numpy.transpose may return views: the result aliases the argument",
    "constructors": "constructors of the package create a new object that may keep references to its arguments; at the call they are "
                    "taken not to modify the arguments except as listed in CONSTRUCTOR_EFFECTS.  For the constructors of the relaxation "
                    "tensors and of the Redfield rate matrix this is no longer an assumption: harness/translate_c15ctor.py analyses "
                    "their __init__ with everything it calls and requires the locations written through (ham, sbi) to be exactly "
                    "CONSTRUCTOR_EFFECTS (lemma gen_ctor_writes_as_assumed at the end of this file).  Still assumed, by name: the "
                    "modified-Redfield and non-equilibrium Foerster tensors (outside Model.C15.api) and the small constructors of "
                    "results and operators from new arrays (listed with reasons at the end of this file)",
    "eigenbasis_of": "basis contexts are transparent and self-restoring (property C04, proved and tied there); the protected "
                     "Hamiltonian is transformed in and back",
    "energy_units": "unit contexts restore the units (property C05)",
    "reader_methods": "methods that only read their receiver (listed in READER_METHODS)",
    "fresh_receivers": "methods called on objects created inside the call: they may write the new object; the methods listed in "
                       "FRESH_METHODS are known not to write through the references the object holds",
    "external_field_branches": "propagation with external fields (has_Efield / has_EField) is not part of Model.C15: those branches "
                               "are pruned for every shape",
    "user_callbacks": "the caller's own function (hfce of StateVectorPropagator.propagate): it is handed the Hamiltonian matrix "
                      "and the current vector and is assumed to return a new matrix without writing its arguments - what it does is "
                      "the caller's code, not the package's",
    "logging": "print / debug / qr.log_* / printlog only write to the log",
}
PURE_PREFIXES = ("numpy.", "scipy.", "np.", "math.", "time.")
PURE_NAMES = {"range", "len", "isinstance", "print", "round", "int", "float", "complex", "abs", "min", "max", "str", "dict", "list",
              "tuple", "enumerate", "zip", "type", "debug", "bool", "sum", "Exception", "hasattr", "getattr", "printlog", "repr", "format"}
VIEW_FUNCS = {"numpy.real", "numpy.imag", "numpy.asarray", "numpy.transpose", "numpy.conj"}
# library functions that modify their first argument in place
MUTATING_FUNCS = {"numpy.copyto", "numpy.put", "numpy.fill_diagonal", "numpy.place", "numpy.putmask", "numpy.put_along_axis", "numpy.add.at",
                  "numpy.subtract.at", "numpy.multiply.at", "numpy.random.shuffle", "numpy.ndarray.sort", "numpy.ndarray.fill"}
LOG_PREFIXES = ("qr.log_", "qr.printlog", "qr.loglevels2bool")
# constructor name -> list of (argument index, attribute path written, kind) on the objects passed in
CONSTRUCTOR_EFFECTS = {
    "FoersterRelaxationTensor": [(1, ("CC", "_hofts"), "any")],
    "TDFoersterRelaxationTensor": [(1, ("CC", "_hofts"), "any")],
    "NEFoersterRelaxationTensor": [(1, ("CC", "_hofts"), "any")],
    "RedfieldFoersterRelaxationTensor": [],
    "TDRedfieldFoersterRelaxationTensor": [],
}
CONSTRUCTORS = {"ReducedDensityMatrixEvolution", "DensityMatrixEvolution", "StateVectorEvolution", "TimeAxis", "ReducedDensityMatrix",
                "ReducedDensityMatrixPropagator", "Hamiltonian", "RedfieldRelaxationTensor", "TDRedfieldRelaxationTensor",
                "ModRedfieldRelaxationTensor", "TDModRedfieldRelaxationTensor", "LindbladForm", "RedfieldRateMatrix", "EvolutionOperator",
                "DensityMatrix", "Manager"} | set(CONSTRUCTOR_EFFECTS)
READER_METHODS = {"nearest", "is_subset_of", "copy", "convert_2_internal_u", "convert_energy_2_internal_u", "convert_energy_2_current_u",
                  "convert_2_current_u", "unit_repr", "locate"}
FRESH_METHODS = {"secularize", "convert_2_tensor", "set_rwa", "remove_cutoff_coupling", "propagate", "append", "seek", "setDtRefinement"}
CONTEXTS = {"eigenbasis_of", "energy_units"}
CALLBACKS = {"hfce"}      # parameters that are the caller's functions


# ----------------------------------------------------------------------------------------------- class index
class Index:
    def __init__(self, repo):
        import warnings
        self.classes, self.functions, self.where = {}, {}, {}
        for f in FILES:
            path = repo + PKG + f
            if not os.path.exists(path):
                raise Untranslatable("source file %s not found" % f)
            with warnings.catch_warnings():
                warnings.simplefilter("ignore")
                tree = ast.parse(open(path).read())
            for node in tree.body:
                if isinstance(node, ast.ClassDef):
                    self.classes[node.name] = node
                    self.where[node.name] = f
                elif isinstance(node, ast.FunctionDef):
                    self.functions[(f, node.name)] = node

    def mro(self, cls):
        out, todo = [], [cls]
        while todo:
            c = todo.pop(0)
            if c in out or c not in self.classes:
                continue
            out.append(c)
            todo = [ast.unparse(b).split(".")[-1] for b in self.classes[c].bases] + todo
        return out

    def method(self, cls, name):
        if name.startswith("__") and not name.endswith("__"):       # name mangling: defined in the class that uses it
            pass
        for c in self.mro(cls):
            for s in self.classes[c].body:
                if isinstance(s, ast.FunctionDef) and s.name == name:
                    return c, s
        return None, None


# ----------------------------------------------------------------------------------------------- abstract values
FRESH = ("fresh",)
GLOB = ("glob",)


def loc(root, path, pristine=False):
    return ("loc", root, tuple(path), pristine)


class Tup:
    def __init__(self, items):
        self.items = list(items)


def flat(v):
    if isinstance(v, Tup):
        out = frozenset()
        for x in v.items:
            out |= flat(x)
        return out
    return v


def vjoin(a, b):
    if a is None:
        return b
    if b is None:
        return a
    if isinstance(a, Tup) and isinstance(b, Tup) and len(a.items) == len(b.items):
        return Tup([vjoin(x, y) for x, y in zip(a.items, b.items)])
    return flat(a) | flat(b)


class State:
    def __init__(self):
        self.env = {}
        self.last = {}          # (root, path) -> frozenset of kinds
        self.written = set()
        self.inplace = set()
        self.defined = set()    # locations rebound on every path so far (must)
        self.exposed = set()    # locations read while not yet rebound by this call (may): the value the call found there

    def copy(self):
        s = State()
        s.defined = set(self.defined)
        s.exposed = set(self.exposed)
        s.env = dict(self.env)
        s.last = dict(self.last)
        s.written = set(self.written)
        s.inplace = set(self.inplace)
        return s


def sjoin(a, b):
    if a is None:
        return b
    if b is None:
        return a
    s = State()
    for k in set(a.env) | set(b.env):
        s.env[k] = vjoin(a.env.get(k), b.env.get(k))
    for k in set(a.last) | set(b.last):
        s.last[k] = a.last.get(k, frozenset(["none"])) | b.last.get(k, frozenset(["none"]))
    s.written = a.written | b.written
    s.inplace = a.inplace | b.inplace
    s.defined = a.defined & b.defined
    s.exposed = a.exposed | b.exposed
    return s


def seq(a, b):
    return b if b is not None else a


class Flow:
    """result of a block: state on falling through (None: never), returned values/states, raised states"""

    def __init__(self, norm, rets=None, excs=None):
        self.norm, self.rets, self.excs = norm, rets or [], excs or []


# ----------------------------------------------------------------------------------------------- the analysis
class Analysis:
    def __init__(self, index, types, conds, raising=(), summaries=None, rec=None, model_raises=False):
        self.model_raises = model_raises   # True: `raise` statements (refused arguments) are exits whose states are collected
        self.rec = rec or {}          # function name -> conditions that hold in its recursive activation
        self.overlays = []
        self.pending = []             # exceptional states of calls that may also return
        self.ix = index
        self.types = types            # (root, path) -> class name   for the receivers of method calls
        self.conds = conds            # unparse(test) -> bool
        self.raising = set(raising)   # constructor names that raise for this shape
        self.summaries = summaries or {}
        self.stack = []
        self.notes = set()

    # ---- conditions
    def cond(self, test):
        key = ast.unparse(test)
        for ov in reversed(self.overlays):
            if key in ov:
                return ov[key]
        if key in self.conds:
            return self.conds[key]
        if isinstance(test, ast.UnaryOp) and isinstance(test.op, ast.Not):
            v = self.cond(test.operand)
            return None if v is None else (not v)
        if isinstance(test, ast.BoolOp):
            vs = [self.cond(v) for v in test.values]
            if isinstance(test.op, ast.And):
                if any(v is False for v in vs):
                    return False
                return True if all(v is True for v in vs) else None
            if any(v is True for v in vs):
                return True
            return False if all(v is False for v in vs) else None
        if isinstance(test, ast.Constant) and isinstance(test.value, bool):
            return test.value
        return None

    # ---- writes
    def write(self, st, origins, attr, kind, inplace=False, what=""):
        for o in flat(origins):
            if o[0] == "loc":
                key = (o[1], o[2] + ((attr,) if attr is not None else ()))
                if not key[1]:
                    raise Untranslatable("in-place modification of the object %s itself (%s)" % (key[0], what))
                st.written.add(key)
                st.last[key] = frozenset([kind])
                if inplace:
                    st.inplace.add(key)
            elif o[0] == "glob":
                raise Untranslatable("store into a module-level object (%s)" % what)
            elif o[0] == "freshobj" and inplace and attr is None:
                pass
            # fresh / freshobj: the object was created inside the call

    def kind_of_rhs(self, st, value_node, value, target_key):
        if isinstance(value_node, ast.Constant) and (value_node.value is None or isinstance(value_node.value, (bool, int, float))):
            return "const:%r" % (value_node.value,)
        fv = flat(value)
        if fv == frozenset([("loc", target_key[0], target_key[1], True)]) and target_key not in st.inplace:
            return "restore"
        return "any"

    # ---- expressions
    def ev(self, st, node, read=True):
        if node is None:
            return frozenset([FRESH])
        if isinstance(node, ast.Name):
            if node.id in st.env:
                return st.env[node.id]
            return frozenset([GLOB])
        if isinstance(node, (ast.Constant, ast.JoinedStr, ast.Compare)):
            for ch in ast.iter_child_nodes(node):
                if isinstance(ch, ast.expr):
                    self.ev(st, ch)
            return frozenset([FRESH])
        if isinstance(node, (ast.BinOp, ast.UnaryOp, ast.BoolOp)):
            for ch in ast.iter_child_nodes(node):
                if isinstance(ch, ast.expr):
                    self.ev(st, ch)
            if isinstance(node, ast.BoolOp):        # `a or b` returns one of its operands
                out = frozenset()
                for v in node.values:
                    out |= flat(self.ev(st, v))
                return out
            return frozenset([FRESH])
        if isinstance(node, ast.IfExp):
            self.ev(st, node.test)
            return vjoin(self.ev(st, node.body), self.ev(st, node.orelse))
        if isinstance(node, (ast.Tuple, ast.List)):
            return Tup([self.ev(st, e) for e in node.elts])
        if isinstance(node, ast.Dict):
            out = frozenset([FRESH])
            for v in node.values:
                out |= flat(self.ev(st, v))
            return out
        if isinstance(node, ast.Attribute):
            base = flat(self.ev(st, node.value))
            out = set()
            for o in base:
                if o[0] == "loc":
                    key = (o[1], o[2] + (node.attr,))
                    pristine = st.last.get(key, frozenset(["none"])) == frozenset(["none"])
                    out.add(("loc", key[0], key[1], pristine))
                    if read and not any((key[0], key[1][:n]) in st.defined for n in range(1, len(key[1]) + 1)):
                        st.exposed.add(key)
                elif o[0] == "freshobj":
                    out.add(o)                       # what a new object holds may be one of the references it keeps
                    out.add(FRESH)
                else:
                    out.add(o)
            return frozenset(out)
        if isinstance(node, ast.Subscript):
            self.ev(st, node.slice)
            v = self.ev(st, node.value, read)
            if isinstance(v, Tup) and isinstance(node.slice, ast.Constant) and isinstance(node.slice.value, int) \
                    and -len(v.items) <= node.slice.value < len(v.items):
                return v.items[node.slice.value]
            return frozenset(("loc", o[1], o[2], False) if o[0] == "loc" else o for o in flat(v))     # a view: not a pristine copy
        if isinstance(node, ast.Slice):
            for ch in (node.lower, node.upper, node.step):
                if ch is not None:
                    self.ev(st, ch)
            return frozenset([FRESH])
        if isinstance(node, ast.Call):
            return self.call(st, node)
        if isinstance(node, (ast.ListComp, ast.GeneratorExp)):
            st2 = st
            for g in node.generators:
                it = self.ev(st2, g.iter)
                self.bind(st2, g.target, frozenset(flat(it)))
                for c in g.ifs:
                    self.ev(st2, c)
            return frozenset(flat(self.ev(st2, node.elt)) | {FRESH})
        if isinstance(node, ast.Starred):
            return self.ev(st, node.value)
        raise Untranslatable("expression %s" % ast.dump(node)[:100])

    def bind(self, st, target, value):
        if isinstance(target, ast.Name):
            st.env[target.id] = value
        elif isinstance(target, (ast.Tuple, ast.List)):
            if isinstance(value, Tup) and len(value.items) == len(target.elts):
                for t, v in zip(target.elts, value.items):
                    self.bind(st, t, v)
            else:
                for t in target.elts:
                    self.bind(st, t, frozenset(flat(value)))
        else:
            raise Untranslatable("loop / comprehension target %s" % ast.unparse(target))

    # ---- calls
    def call(self, st, node):
        f = node.func
        fname = ast.unparse(f)
        args = [self.ev(st, a) for a in node.args]
        kws = {k.arg: self.ev(st, k.value) for k in node.keywords}
        if None in kws:
            raise Untranslatable("**kwargs in %s" % fname)
        allv = list(args) + list(kws.values())
        # logging
        if fname.startswith(LOG_PREFIXES) or fname in ("print", "debug"):
            self.notes.add("logging")
            return frozenset([FRESH])
        # library functions
        if fname in VIEW_FUNCS:
            self.notes.add("view_functions")
            out = frozenset()
            for v in (args[:1] if args else allv):      # the result may alias the array handed in (not the dtype / axes arguments)
                out |= flat(v)
            return out | {FRESH}
        if fname in MUTATING_FUNCS:
            if not args:
                raise Untranslatable("%s without a positional target" % fname)
            self.write(st, frozenset(o for o in flat(args[0]) if o[0] in ("loc", "glob")), None, "any", inplace=True, what=fname)
            return frozenset([FRESH])
        if fname.startswith(PURE_PREFIXES) or (isinstance(f, ast.Name) and f.id in PURE_NAMES and f.id not in st.env):
            if "out" in kws:
                raise Untranslatable("%s with out=" % fname)
            self.notes.add("pure_functions")
            return frozenset([FRESH])
        if isinstance(f, ast.Name) and f.id in CONTEXTS:
            self.notes.add(f.id)
            return frozenset([FRESH])
        if isinstance(f, ast.Name) and f.id in CALLBACKS and f.id in st.env and not kws:
            self.notes.add("user_callbacks")
            return frozenset([FRESH])
        # constructors
        if isinstance(f, ast.Name) and f.id == "Manager" and f.id not in st.env:
            return frozenset([GLOB])          # the singleton: reading its settings is fine, a store into it raises Untranslatable
        if isinstance(f, ast.Name) and f.id in CONSTRUCTORS and f.id not in st.env:
            self.notes.add("constructors")
            if f.id in self.raising:
                raise _Raise(None)
            for (k, path, kind) in CONSTRUCTOR_EFFECTS.get(f.id, []):
                if k < len(args):
                    for o in flat(args[k]):
                        if o[0] == "loc":
                            key = (o[1], o[2] + tuple(path))
                            st.written.add(key)
                            st.last[key] = frozenset([kind])
            held = frozenset(o for v in allv for o in flat(v) if o[0] in ("loc", "freshobj"))
            held = frozenset(x for o in held for x in (o[1] if o[0] == "freshobj" else [o]))
            return frozenset([("freshobj", held)]) if held else frozenset([FRESH])
        # module-level functions of the analysed files
        if isinstance(f, ast.Name) and f.id not in st.env:
            for (ff, nm), fn in self.ix.functions.items():
                if nm == f.id and ff == self.stack[-1][0]:
                    return self.inline(st, ff, None, fn, None, args, kws, node)
            raise Untranslatable("call of unknown function %s" % fname)
        # methods
        if isinstance(f, ast.Attribute):
            recv = self.ev(st, f.value)
            m = f.attr
            res = None
            handled = False
            for o in flat(recv):
                if o[0] == "loc":
                    key = (o[1], o[2])
                    cls = self.types.get(key)
                    if (cls, m) in self.summaries:
                        res = vjoin(res, self.summaries[(cls, m)](self, st, o, args, kws))
                        handled = True
                        continue
                    if m in READER_METHODS:
                        self.notes.add("reader_methods")
                        res = vjoin(res, frozenset([FRESH]))
                        handled = True
                        continue
                    if cls is None:
                        raise Untranslatable("method %s called on %s.%s whose class is not declared" % (m, key[0], ".".join(key[1])))
                    mm = m
                    if m.startswith("__") and not m.endswith("__"):
                        mm = m
                    c, fn = self.ix.method(cls, mm)
                    if fn is None:
                        raise Untranslatable("method %s.%s not found in the analysed files" % (cls, m))
                    res = vjoin(res, self.inline(st, self.ix.where[c], c, fn, frozenset([("loc", o[1], o[2], False)]), args, kws, node))
                    handled = True
                elif o[0] in ("fresh", "freshobj"):
                    held = o[1] if o[0] == "freshobj" else frozenset()
                    argl = frozenset(x for v in allv for x in flat(v) if x[0] == "loc")
                    if (held or argl) and m not in FRESH_METHODS and m not in READER_METHODS:
                        raise Untranslatable("method %s called on an object created in the call that holds references to shared objects" % m)
                    self.notes.add("fresh_receivers")
                    res = vjoin(res, frozenset([FRESH]) | held)
                    handled = True
                elif o[0] == "glob":
                    raise Untranslatable("call %s on a module-level object" % fname)
            if handled:
                return res
        raise Untranslatable("call %s" % fname)

    def inline(self, st, file_, cls, fn, recv, args, kws, node):
        key = (file_, cls, fn.name)
        depth = [s[:3] for s in self.stack].count(key)
        overlay = None
        if depth:
            if depth == 1 and fn.name in self.rec:
                overlay = self.rec[fn.name]      # the recursive activation runs under these conditions
            else:
                return frozenset([FRESH])        # recursion: the effects of the body are those of the analysis in progress
        if len(self.stack) > 12:
            raise Untranslatable("call depth")
        params = [a.arg for a in fn.args.args]
        if fn.args.vararg or fn.args.kwarg or fn.args.kwonlyargs:
            raise Untranslatable("signature of %s" % fn.name)
        saved_env = st.env
        env = {}
        pos = list(args)
        if recv is not None:
            env[params[0]] = recv
            params = params[1:]
        defaults = dict(zip(params[len(params) - len(fn.args.defaults):], fn.args.defaults))
        for k, p in enumerate(params):
            if k < len(pos):
                env[p] = pos[k]
            elif p in kws:
                env[p] = kws[p]
            elif p in defaults:
                env[p] = frozenset([FRESH])
            else:
                raise Untranslatable("argument %s of %s not supplied" % (p, fn.name))
        for k in kws:
            if k not in params:
                raise Untranslatable("unexpected keyword %s for %s" % (k, fn.name))
        st.env = env
        self.stack.append((file_, cls, fn.name, dict(defaults), set(kws) | set(params[:len(pos)])))
        if overlay is not None:
            self.overlays.append(overlay)
        try:
            flow = self.block(st, fn.body)
        finally:
            self.stack.pop()
            if overlay is not None:
                self.overlays.pop()
        # merge the exits back into the caller's state
        out = flow.norm
        ret = None
        for (v, s) in flow.rets:
            out = sjoin(out, s)
            ret = vjoin(ret, v)
        if flow.norm is not None:
            ret = vjoin(ret, frozenset([FRESH]))
        exc = None
        for s in flow.excs:
            exc = sjoin(exc, s)
        if exc is not None:
            exc = exc.copy()
            exc.env = dict(saved_env)
        if out is None:
            # the callee always raises
            st.env = saved_env
            if exc is None:
                raise Untranslatable("%s has no exit" % fn.name)
            raise _Raise(exc)
        if exc is not None:
            self.pending.append(exc)
        st.last, st.written, st.inplace, st.defined, st.exposed = out.last, out.written, out.inplace, out.defined, out.exposed
        st.env = saved_env
        return ret if ret is not None else frozenset([FRESH])

    # ---- statements
    def block(self, st, stmts):
        """analyses stmts starting in st (mutated); returns Flow"""
        rets, excs = [], []
        cur = st
        for s in stmts:
            if cur is None:
                break
            try:
                fl = self.stmt(cur, s)
            except _Raise as e:
                excs.append(e.state if e.state is not None else cur)
                excs += self.pending
                self.pending = []
                cur = None
                break
            excs += self.pending
            self.pending = []
            rets += fl.rets
            excs += fl.excs
            cur = fl.norm
        return Flow(cur, rets, excs)

    def stmt(self, st, s):
        if isinstance(s, ast.Expr):
            if isinstance(s.value, ast.Constant):
                return Flow(st)
            self.ev(st, s.value)
            return Flow(st)
        if isinstance(s, (ast.Pass, ast.Import, ast.ImportFrom, ast.Assert)):
            return Flow(st)
        if isinstance(s, ast.Assign):
            v = self.ev(st, s.value)
            for t in s.targets:
                self.assign(st, t, v, s.value)
            return Flow(st)
        if isinstance(s, ast.AugAssign):
            v = self.ev(st, s.value)
            t = s.target
            if isinstance(t, ast.Name):
                cur = st.env.get(t.id, frozenset([GLOB]))
                # in place for arrays: the objects the name may alias are modified
                self.write(st, frozenset(o for o in flat(cur) if o[0] == "loc"), None, "any", inplace=True, what=ast.unparse(s))
                return Flow(st)
            if isinstance(t, ast.Attribute):
                base = self.ev(st, t.value)
                self.write(st, base, t.attr, "any", inplace=True, what=ast.unparse(s))
                return Flow(st)
            if isinstance(t, ast.Subscript):
                self.ev(st, t.slice)
                base = self.ev(st, t.value)          # read-modify-write of the elements
                self.write(st, base, None, "any", inplace=True, what=ast.unparse(s))
                return Flow(st)
            raise Untranslatable("augmented assignment %s" % ast.unparse(s))
        if isinstance(s, ast.Return):
            v = self.ev(st, s.value) if s.value is not None else frozenset([FRESH])
            return Flow(None, [(v, st)])
        if isinstance(s, ast.Raise):
            # exceptions other than the one configured for the shape (a constructor that raises): in the main analysis the
            # path ends here; in the refusal analysis (model_raises) the state at the raise is an exceptional exit
            if self.model_raises:
                return Flow(None, [], [st])
            return Flow(None, [], [])
        if isinstance(s, ast.If):
            self.ev(st, s.test)
            c = self.cond(s.test)
            if c is True:
                return self.block(st, s.body)
            if c is False:
                return self.block(st, s.orelse)
            a = self.block(st.copy(), s.body)
            b = self.block(st.copy(), s.orelse)
            return Flow(sjoin(a.norm, b.norm), a.rets + b.rets, a.excs + b.excs)
        if isinstance(s, (ast.For, ast.While)):
            rets, excs = [], []
            cur = st
            if isinstance(s, ast.For):
                it = self.ev(cur, s.iter)
            for _ in range(6):
                body_in = cur.copy()
                if isinstance(s, ast.For):
                    self.bind(body_in, s.target, frozenset(flat(self.ev(body_in, s.iter))))
                else:
                    self.ev(body_in, s.test)
                fl = self.block(body_in, s.body)
                rets, excs = fl.rets, fl.excs
                nxt = sjoin(cur, fl.norm)
                if _same(nxt, cur):
                    cur = nxt
                    break
                cur = nxt
            else:
                raise Untranslatable("loop does not stabilise: %s" % ast.unparse(s)[:60])
            if s.orelse:
                fl2 = self.block(cur, s.orelse)
                return Flow(fl2.norm, rets + fl2.rets, excs + fl2.excs)
            return Flow(cur, rets, excs)
        if isinstance(s, ast.With):
            for it in s.items:
                v = self.ev(st, it.context_expr)
                if it.optional_vars is not None:
                    self.bind(st, it.optional_vars, frozenset([FRESH]))
            return self.block(st, s.body)
        if isinstance(s, ast.Try):
            entry = st.copy()
            body = self.block(st, s.body)
            rets, excs = list(body.rets), []
            norm = body.norm
            if s.handlers:
                # an exception may come from anywhere in the body: handlers start from the join of entry and the raised states
                hin = entry
                for e in body.excs:
                    hin = sjoin(hin, e)
                hin = sjoin(hin, body.norm)
                for h in s.handlers:
                    hs = hin.copy()
                    if h.name:
                        hs.env[h.name] = frozenset([FRESH])
                    fl = self.block(hs, h.body)
                    norm = sjoin(norm, fl.norm)
                    rets += fl.rets
                    excs += fl.excs
            else:
                excs += body.excs
            if s.orelse:
                if norm is not None:
                    fl = self.block(norm, s.orelse)
                    norm, rets, excs = fl.norm, rets + fl.rets, excs + fl.excs
            if s.finalbody:
                def fin(state):
                    fl = self.block(state.copy(), s.finalbody)
                    if fl.rets or fl.excs:
                        raise Untranslatable("return / raise inside finally")
                    return fl.norm
                norm = fin(norm) if norm is not None else None
                rets = [(v, fin(x)) for (v, x) in rets]
                excs = [fin(x) for x in excs]
            return Flow(norm, rets, excs)
        raise Untranslatable("statement %s" % type(s).__name__)

    def assign(self, st, target, value, value_node):
        if isinstance(target, ast.Name):
            st.env[target.id] = value
            return
        if isinstance(target, (ast.Tuple, ast.List)):
            if isinstance(value, Tup) and len(value.items) == len(target.elts):
                vn = value_node.elts if isinstance(value_node, (ast.Tuple, ast.List)) and len(value_node.elts) == len(target.elts) else [None] * len(target.elts)
                for t, v, n in zip(target.elts, value.items, vn):
                    self.assign(st, t, v, n)
            else:
                for t in target.elts:
                    self.assign(st, t, frozenset(flat(value)), None)
            return
        if isinstance(target, ast.Attribute):
            base = self.ev(st, target.value)
            for o in flat(base):
                if o[0] == "loc":
                    key = (o[1], o[2] + (target.attr,))
                    kind = self.kind_of_rhs(st, value_node, value, key)
                    st.written.add(key)
                    st.last[key] = frozenset([kind])
                    st.inplace.discard(key)
                    st.defined.add(key)
                elif o[0] == "glob":
                    raise Untranslatable("store into a module-level object (%s)" % ast.unparse(target))
            return
        if isinstance(target, ast.Subscript):
            self.ev(st, target.slice)
            base = self.ev(st, target.value, read=False)     # elements are stored, the array found there is not read
            self.write(st, base, None, "any", inplace=True, what=ast.unparse(target))
            return
        raise Untranslatable("assignment target %s" % ast.unparse(target))


class _Raise(Exception):
    def __init__(self, state):
        Exception.__init__(self)
        self.state = state


def _same(a, b):
    if a is None or b is None:
        return a is b
    if a.last != b.last or a.written != b.written or a.inplace != b.inplace or set(a.env) != set(b.env) or a.defined != b.defined \
            or a.exposed != b.exposed:
        return False
    for k in a.env:
        x, y = a.env[k], b.env[k]
        if flat(x) != flat(y):
            return False
    return True


def run(index, cls, meth, types, conds, argroles, raising=(), summaries=None, rec=None, want_reads=False, refusals=False):
    """analyses cls.meth with self = root 'self' and the arguments named in argroles bound to roots; other arguments fresh.
    Returns (written, last) over (root, path)."""
    an = Analysis(index, types, conds, raising, summaries, rec, model_raises=refusals)
    c, fn = index.method(cls, meth)
    if fn is None:
        raise Untranslatable("%s.%s not found" % (cls, meth))
    st = State()
    params = [a.arg for a in fn.args.args]
    st.env[params[0]] = frozenset([loc("self", ())])
    for p in params[1:]:
        st.env[p] = frozenset([loc("arg:" + p, ())]) if p in argroles else frozenset([FRESH])
    an.stack.append((index.where[c], c, fn.name, {}, set()))
    flow = an.block(st, fn.body)
    out = None
    if refusals:
        # the join of the states in which a `raise` statement is reached (None: no refusal on this shape's paths)
        for s in flow.excs:
            out = sjoin(out, s)
        return (set(), {}) if out is None else (out.written, out.last)
    if raising:
        for s in flow.excs:
            out = sjoin(out, s)
        if out is None:
            raise Untranslatable("%s.%s: the configured exception is never raised" % (cls, meth))
    else:
        out = flow.norm
        for (_, s) in flow.rets:
            out = sjoin(out, s)
        if out is None:
            raise Untranslatable("%s.%s never returns for this shape" % (cls, meth))
    if want_reads:
        return out.written, out.last, an.notes, out.exposed
    return out.written, out.last, an.notes


# ----------------------------------------------------------------------------------------------- shapes of Model.C15
TK = ["T", "TS", "O", "TD", "TDO", "F", "TDF", "CRF", "LF"]
PK = ["H"] + TK + ["PD", "PDG", "OPD"]
EK = TK + ["PD", "PDG"]
OWN_HAM = ("F", "TDF", "CRF")
NO_FIELD = {"self.has_Efield and self.has_Trdip": False, "self.has_EField and self.has_Trdip": False}


def _rt_of(k):          # tensor kind behind a propagator / superoperator kind
    return {"PD": "T", "PDG": "T", "OPD": "O"}.get(k, k)


def _ham_role(k):
    return "rh:" + k if k in OWN_HAM else "ham"


def dm_shape(k, big):
    t = _rt_of(k)
    conds = dict(NO_FIELD)
    conds.update({"Nref > 1": big, "self.has_relaxation": k != "H",
                  "isinstance(self.RelaxationTensor, TimeDependent)": t in ("TD", "TDO", "TDF"),
                  "self.RelaxationTensor.as_operators": t in ("O", "TDO", "LF"),
                  "self.has_PDeph": k in ("PD", "PDG", "OPD"),
                  "self.PDeph.dtype == 'Lorentzian'": k in ("PD", "OPD"), "self.PDeph.dtype == 'Gaussian'": k == "PDG",
                  # no tensor of Model.C15 has an initial term (BuildT sets TensIt = CFalse; the non-equilibrium Foerster tensor is
                  # outside the model), so the propagator's flag is false whenever it is read
                  "self.has_Iterm": False,
                  "not (isinstance(rhoi, ReducedDensityMatrix) or isinstance(rhoi, DensityMatrix))": False})
    roles = {("self", ()): "dm:" + k, ("self", ("Hamiltonian",)): _ham_role(t) if k != "H" else "ham", ("self", ("TimeAxis",)): "time",
             ("arg:rhoi", ()): "rho"}
    types = {("self", ()): "ReducedDensityMatrixPropagator", ("self", ("Hamiltonian",)): "Hamiltonian", ("self", ("TimeAxis",)): "TimeAxis"}
    if k != "H":
        roles[("self", ("RelaxationTensor",))] = "rt:" + t
    if k in ("PD", "OPD"):
        roles[("self", ("PDeph",))] = "pdeph"
    if k == "PDG":
        roles[("self", ("PDeph",))] = "pdephG"
    coq = "(DMProp %s %s)" % ({"H": "PH", "PD": "PPD", "PDG": "PPDG", "OPD": "POPD"}.get(k, "(PT %s)" % k), "true" if big else "false")
    return dict(coq=coq, cls="ReducedDensityMatrixPropagator", meth="propagate", args={"rhoi"}, conds=conds, roles=roles, types=types,
                rec={"propagate": {"Nref > 1": False}})


def sv_shape(hfce=False, nonlinear=False):
    # the three branches of StateVectorPropagator.propagate (plain, hfce, hfce + nonlinear) are one shape of the model: the
    # same objects are shared, and none of them may be written
    return dict(coq="SvProp", cls="StateVectorPropagator", meth="propagate", args={"psii"},
                conds={"hfce is not None": hfce, "nonlinear": nonlinear}, roles={("self", ()): "sv", ("self", ("ham",)): "ham", ("self", ("timeaxis",)): "time",
                                                          ("arg:psii", ()): "psi"},
                types={("self", ()): "StateVectorPropagator", ("self", ("ham",)): "Hamiltonian"})


def pop_shape():
    return dict(coq="PopProp", cls="PopulationPropagator", meth="propagate", args={"pini"},
                conds={}, roles={("self", ()): "popp", ("self", ("KK",)): "kk", ("self", ("timeAxis",)): "time", ("arg:pini", ()): "pop"},
                types={("self", ()): "PopulationPropagator"})


def heom_shape(report, free):
    return dict(coq="(Heom %s %s)" % ("true" if report else "false", "true" if free else "false"), cls="KTHierarchyPropagator", meth="propagate",
                args={"rhoi"}, conds={"report_hierarchy": report, "free_hierarchy": free},
                roles={("self", ()): "heom", ("self", ("hy",)): "hy", ("self", ("timeaxis",)): "time", ("arg:rhoi", ()): "rho",
                       ("self", ("hy", "ham")): "ham", ("self", ("hy", "sbi")): "sbi"},
                types={("self", ()): "KTHierarchyPropagator", ("self", ("hy",)): "KTHierarchy"})


def eso_shape(k):
    t = _rt_of(k)
    return dict(coq="(EsoCalc %s)" % {"PD": "EPD", "PDG": "EPDG"}.get(k, "(ET %s)" % k), cls="EvolutionSuperOperator", meth="calculate", args=set(),
                conds={"self.mode != 'all'": False, "self.mode == 'all' or save": True, "self.mode == 'jit'": False,
                       "self.pdeph is not None and self.pdeph.dtype == 'Gaussian'": k == "PDG",
                       "self.relt.is_time_dependent": t in ("TD", "TDO", "TDF"), "show_progress": False,
                       # the Hamiltonian that comes with the combined tensor is a new object without RWA (Model.C15.ham_has_rwa)
                       "self.ham.has_rwa": t != "CRF"},
                roles={("self", ()): "eso:" + k, ("self", ("ham",)): _ham_role(t), ("self", ("relt",)): "rt:" + t, ("self", ("time",)): "time",
                       ("self", ("pdeph",)): {"PD": "pdeph", "PDG": "pdephG"}.get(k, "pdeph")},
                types={("self", ()): "EvolutionSuperOperator", ("self", ("ham",)): "Hamiltonian", ("self", ("time",)): "TimeAxis",
                       ("self", ("dense_time",)): "TimeAxis"})


THEORY = {"T": "standard_Redfield", "TS": "standard_Redfield", "O": "standard_Redfield", "TD": "standard_Redfield", "TDO": "standard_Redfield",
          "F": "standard_Foerster", "TDF": "standard_Foerster", "CRF": "combined_RedfieldFoerster", "LF": "Lindblad_form"}
ALL_THEORIES = ["standard_Redfield", "modified_Redfield", "standard_Foerster", "noneq_Foerster", "combined_RedfieldFoerster",
                "combined_WeakStrong", "Lindblad_form", "electronic_Lindblad"]


def relt_shape(k, fail=None):
    th = THEORY[k] if fail is None else "combined_RedfieldFoerster"
    td = k in ("TD", "TDO", "TDF") if fail is None else True
    conds = {"relaxation_theory in theories['%s']" % t: (t == th) for t in ALL_THEORIES}
    conds.update({"self._built": True, "time_dependent": td, "secular_relaxation": k == "TS" and fail is None})
    agg_roles = {("self", ()): "agg", ("self", ("HamOp",)): "ham", ("self", ("sbi",)): "sbi", ("arg:timeaxis", ()): "time"}
    types = {("self", ()): "Aggregate", ("self", ("HamOp",)): "Hamiltonian", ("self", ("sbi",)): "SystemBathInteraction"}
    coq = "(RelT %s)" % k if fail is None else "(RelTFail FailCRFTD)"
    return dict(coq=coq, cls="Aggregate", meth="get_RelaxationTensor", args={"timeaxis"}, conds=conds, roles=agg_roles, types=types,
                raising=("TDRedfieldFoersterRelaxationTensor",) if fail else ())


def rate_shape():
    return dict(coq="RateM", cls="Aggregate", meth="get_RedfieldRateMatrix", args=set(), conds={"self._built": True},
                roles={("self", ()): "agg", ("self", ("HamOp",)): "ham", ("self", ("sbi",)): "sbi"},
                types={("self", ()): "Aggregate", ("self", ("HamOp",)): "Hamiltonian", ("self", ("sbi",)): "SystemBathInteraction"})


def all_shapes():
    out = [relt_shape(k) for k in TK if k != "LF"] + [relt_shape("CRF", fail=True), rate_shape()]
    out += [dm_shape(k, b) for k in PK for b in (False, True)]
    out += [sv_shape(), sv_shape(True, False), sv_shape(True, True), pop_shape()] + [heom_shape(r, f) for r in (False, True) for f in (False, True)]
    out += [eso_shape(k) for k in EK]
    return out


# ----------------------------------------------------------------------------------------------- the cut-off pair (summaries)
T_RECOVER = '''
def recover_cutoff_coupling(self):
    if self._has_remainder_coupling:
        self._data += self.JR
        self.JR[:, :] = H_zero
        self._has_remainder_coupling = False
'''


def cutoff_summaries(index):
    """Hamiltonian.subtract_cutoff_coupling / recover_cutoff_coupling are an inverse pair (Model.C15.recover_law, monitored on the
    real Hamiltonian by the check).  recover is matched statement by statement; subtract must write exactly _data (in place),
    JR and the flag.  Returns the summaries and the Gallina text of recover's effect."""
    from translate2 import unify
    c, fn = index.method("Hamiltonian", "recover_cutoff_coupling")
    if fn is None:
        raise Untranslatable("Hamiltonian.recover_cutoff_coupling not found")
    tfn = ast.parse(T_RECOVER).body[0]
    env = {}
    unify([a.arg for a in tfn.args.args], [a.arg for a in fn.args.args], env, "recover_cutoff_coupling.args")
    unify(tfn.body, fn.body, env, "recover_cutoff_coupling")
    z = env["H_zero"]
    if not (isinstance(z, ast.Constant) and z.value in (0, 0.0) and not isinstance(z.value, bool)):
        raise Untranslatable("recover_cutoff_coupling resets JR to %s" % ast.unparse(z))
    w, last, _ = run(index, "Hamiltonian", "subtract_cutoff_coupling", {("self", ()): "Hamiltonian"}, {}, set())
    want = {("self", ("_data",)), ("self", ("JR",)), ("self", ("_has_remainder_coupling",))}
    if w != want:
        raise Untranslatable("subtract_cutoff_coupling writes %s" % sorted(".".join(p) for _, p in w ^ want))
    if last[("self", ("_has_remainder_coupling",))] != frozenset(["const:True"]):
        raise Untranslatable("subtract_cutoff_coupling does not end with the remainder flag set")
    wx, _ = run(index, "Hamiltonian", "subtract_cutoff_coupling", {("self", ()): "Hamiltonian"}, {}, set(), refusals=True)
    if wx:
        raise Untranslatable("subtract_cutoff_coupling refuses a cut-off after having written %s" % sorted(".".join(p) for _, p in wx))

    def subtract(an, st, o, args, kws):
        if an.model_raises:
            an.pending.append(st.copy())      # a refused cut-off: raised before anything is written (checked above)
        for attr, kind in (("_data", "sub"), ("JR", "any"), ("_has_remainder_coupling", "const:True")):
            key = (o[1], o[2] + (attr,))
            st.written.add(key)
            st.last[key] = frozenset([kind])
            if attr == "_data":
                st.inplace.add(key)
                st.exposed.add(key)        # the couplings found there are read
            else:
                st.defined.add(key)
        return frozenset([FRESH])

    def recover(an, st, o, args, kws):
        kd = (o[1], o[2] + ("_data",))
        kf = (o[1], o[2] + ("_has_remainder_coupling",))
        flag = st.last.get(kf, frozenset(["none"]))
        if flag == frozenset(["const:True"]):
            # the guard holds: the three statements run
            st.last[kd] = frozenset(["addback"]) if st.last.get(kd) == frozenset(["sub"]) else frozenset(["any"])
            st.written.add(kd)
            for attr, kind in (("JR", "any"), ("_has_remainder_coupling", "const:False")):
                key = (o[1], o[2] + (attr,))
                st.written.add(key)
                st.last[key] = frozenset([kind])
        elif flag == frozenset(["none"]) or flag == frozenset(["const:False"]):
            pass                  # clean world: nothing pending, nothing done
        else:
            raise Untranslatable("recover_cutoff_coupling called with an undetermined remainder flag")
        return frozenset([FRESH])
    coq = ("Definition gen_recover : prog :=\n  [ (HamData, ap KAddBack [r HamData; r HamJR]); (HamJR, c CZeros); (HamHasRem, c CFalse) ].\n"
           "(* Hamiltonian.recover_cutoff_coupling, matched statement by statement: data += JR; JR[:,:] = 0; flag = False *)\n"
           "Lemma gen_recover_is_model : firstn 3 (skipn 6 (relt_body CRF)) = gen_recover.\nProof. reflexivity. Qed.\n")
    return {("Hamiltonian", "subtract_cutoff_coupling"): subtract, ("Hamiltonian", "recover_cutoff_coupling"): recover}, coq


# ----------------------------------------------------------------------------------------------- locations -> fields of Model.C15
def field_of_loc(sh, key, reading=False):
    import c15
    root, path = key
    best = None
    for (r, pref), role in sh["roles"].items():
        if r == root and path[:len(pref)] == pref and (best is None or len(pref) > len(best[0])):
            best = (pref, role)
    if best is None:
        raise Untranslatable("%s: write to %s.%s, which is no object of the model" % (sh["coq"], root, ".".join(path)))
    pref, role = best
    rest = path[len(pref):]
    if not rest:
        if reading:
            return None           # the reference to a shared object: what is read through it is reported separately
        raise Untranslatable("%s: the object %s itself is replaced" % (sh["coq"], role))
    if role == "agg" and rest[0] in ("RelaxationTensor", "RelaxationHamiltonian"):
        rest = ("#cache",)            # the record of the last tensor built (harness/c15.py:world_snapshot)
    if rest[0] == "data" and role.startswith(("eso:", "ham", "rh:", "rt:")):
        rest = ("_data",) + rest[1:]  # `data` is the basis-managed property of the stored `_data`
    f = c15.field_of(role + "." + ".".join(rest))
    if f in (None, "?"):
        raise Untranslatable("%s: no model field for %s.%s" % (sh["coq"], role, ".".join(rest)))
    return f


def coq_kind(k):
    if k.startswith("const:"):
        v = k[6:]
        return {"True": "(WConst CTrue)", "False": "(WConst CFalse)", "None": "(WConst CNone)", "1": "(WConst COne)"}.get(v, "WAny")
    return {"any": "WAny", "restore": "WRestore", "sub": "WSub", "addback": "WAddBack", "none": "WNone"}[k]


C15_FILE = """(* GENERATED on every run by harness/translate_c15.py: for every shape of call of Model.C15.api, the fields the current
   source of the method (and of everything it calls on the shared objects) may write, and the kinds of their last writes.
   Whitelisted (not analysed) and why:
%(notes)s *)
From Coq Require Import List Bool Arith.
From QV Require Import Model.C15 Proofs.C15 Proofs.C15gen.
Import ListNotations.

%(recover)s
Definition gen_code : list (shape * list field * list (field * list wkind)) :=
  [ %(items)s ].
(* refused calls: the fields written, and the kinds of their last writes, in the states in which a `raise` statement of the
   call's own code (a refused argument: an unknown theory, an unusable cut-off, a wrong type) is reached *)
Definition gen_refusals : list (shape * list (field * list wkind)) :=
  [ %(refusals)s ].
(* fields read while the call has not yet rebound them: the values the call finds on the shared objects *)
Definition gen_reads : list (shape * list field) :=
  [ %(reads)s ].

(* every field the code may write is written by the model's program of that shape *)
Lemma gen_written_included : forallb (fun x => written_ok (fst (fst x)) (snd (fst x))) gen_code = true.
Proof. vm_compute. reflexivity. Qed.
(* every field whose last write may leave it changed is changed by the model's symbolic run of that shape ... *)
Lemma gen_changed_included : forallb (fun x => changed_ok (fst (fst x)) (snd x)) gen_code = true.
Proof. vm_compute. reflexivity. Qed.
(* ... hence no call of the property leaves an input field changed, as far as this analysis of the code can see *)
Lemma gen_inputs_not_changed : forall s w l f ks, In (s, w, l) gen_code -> api s = true -> In (f, ks) l ->
  existsb (may_change f) ks = true -> is_input f = false.
Proof.
  intros s w l f ks Hin Hapi Hf Hch.
  pose proof gen_changed_included as H. rewrite forallb_forall in H. specialize (H _ Hin). cbn [fst snd] in H.
  exact (changed_ok_no_input s l Hapi H f ks Hf Hch).
Qed.
(* every value a call finds and reads is the value of an input field: hidden state left by earlier calls (auxiliary operators,
   dephasing factors, caches, flags) is never read before the call has set it itself *)
Lemma gen_reads_inputs_only : forallb (fun x => forallb is_input (snd x)) gen_reads = true.
Proof. vm_compute. reflexivity. Qed.
(* a call that refuses its arguments leaves no input field changed either *)
Lemma gen_refusals_leave_inputs :
  forallb (fun x => forallb (fun fk => negb (existsb (may_change (fst fk)) (snd fk)) || negb (is_input (fst fk))) (snd x)) gen_refusals = true.
Proof. vm_compute. reflexivity. Qed.
(* the shapes analysed are all the calls the theorems quantify over *)
Lemma gen_all_shapes : forallb (fun s => existsb (fun x => shape_eqb s (fst (fst x))) gen_code) api_shapes = true.
Proof. vm_compute. reflexivity. Qed.
(* the other direction: every field the model's program writes is one the code may write (the written sets are equal) *)
Lemma gen_written_equal : forallb (fun x => covers (fst (fst x)) (snd (fst x))) gen_code = true.
Proof. vm_compute. reflexivity. Qed.
"""


def static(repo):
    index = Index(repo)
    summaries, recover_text = cutoff_summaries(index)
    items, reads, what, notes, refusals = [], [], [], set(), []
    for sh in all_shapes():
        if not sh.get("raising"):
            wx, lastx = run(index, sh["cls"], sh["meth"], sh["types"], sh["conds"], sh["args"], (), summaries, sh.get("rec"), refusals=True)
            kx = {}
            for key in sorted(wx):
                f = field_of_loc(sh, key)
                kx.setdefault(f, [])
                for k in sorted(lastx.get(key, frozenset(["none"]))):
                    if coq_kind(k) not in kx[f]:
                        kx[f].append(coq_kind(k))
            refusals.append("(%s, [%s])" % (sh["coq"], "; ".join("(%s, [%s])" % (f, "; ".join(v)) for f, v in kx.items())))
        w, last, nt, exposed = run(index, sh["cls"], sh["meth"], sh["types"], sh["conds"], sh["args"], sh.get("raising", ()), summaries, sh.get("rec"),
                                   want_reads=True)
        notes |= nt
        rf = []
        for key in sorted(exposed):
            f = field_of_loc(sh, key, reading=True)
            if f is not None and f not in rf:
                rf.append(f)
        reads.append("(%s, [%s])" % (sh["coq"], "; ".join(rf)))
        fields, kinds = [], {}
        for key in sorted(w):
            f = field_of_loc(sh, key)
            if f not in fields:
                fields.append(f)
            kinds.setdefault(f, [])
            for k in sorted(last.get(key, frozenset(["none"]))):
                ck = coq_kind(k)
                if ck not in kinds[f]:
                    kinds[f].append(ck)
        items.append("(%s, [%s], [%s])" % (sh["coq"], "; ".join(fields), "; ".join("(%s, [%s])" % (f, "; ".join(kinds[f])) for f in fields)))
    lf = ["(RelT LF)"]
    what = ["opensystem.py:OpenSystem.get_RelaxationTensor (8 theories/forms + the construction that raises) and get_RedfieldRateMatrix, "
            "with Hamiltonian.subtract_cutoff_coupling / recover_cutoff_coupling / protect_basis / unprotect_basis",
            "rdmpropagator.py:ReducedDensityMatrixPropagator.propagate (13 kinds x with/without Nref) with setDtRefinement, "
            "__propagate_short_exp*, _INIT_EXP, _INIT_RWA, _CLOSE_RWA, _GET_IR, _BOOT_DEPH, _APPLY_DEPH, _COM, _TTI, _OTI",
            "svpropagator.py:StateVectorPropagator.propagate / _propagate_short_exp", "poppropagator.py:PopulationPropagator.propagate / _propagate_short_exp",
            "heom.py:KTHierarchyPropagator.propagate (report x free) with KTHierarchy.reset_ados, _ado_self_rhs, _ado_cros_rhs",
            "evolutionsuperoperator.py:EvolutionSuperOperator.calculate (11 kinds) with _initialize_data, _elemental_step_*, _all_steps_time_dep, "
            "_one_step_with_dense_TimeIndep, _calculate_remainig_using_first_interval"]
    note_text = "\n".join("     %s: %s" % (k, WHITELIST[k]) for k in sorted(notes | {"external_field_branches"}))
    import translate_c15ctor             # the constructors of the tensors: analysed, no longer assumed (harness/translate_c15ctor.py)
    ctor_text, ctor_what = translate_c15ctor.static(repo)
    return C15_FILE % {"notes": note_text, "recover": recover_text, "items": ";\n    ".join(items),
                       "reads": ";\n    ".join(reads), "refusals": ";\n    ".join(refusals)} + ctor_text, what + ctor_what


if __name__ == "__main__":
    import sys
    sys.path.insert(0, os.path.dirname(os.path.abspath(__file__)))
    print(static(sys.argv[1] if len(sys.argv) > 1 else "/repo")[0])
