# -*- coding: utf-8 -*-
"""C19 - two-dimensional response storage conserves what was added.

Proof: coq/theories/Props/C19.v.  Tie: random histories of _add_data / set_resolution / reads on a real
TwoDResponse; after every op the accepted flag and the read result, and at the end resolution,
initialisation flag and the whole store, are compared inside Coq with Model.C19.run (exact integers).
Monitors: after every op the total / signal / process / type / pathway views read from a deep copy
must equal the sum of the accepted additions belonging to them; refused ops must not change the store.
"""
import os
import sys
import json
import copy

sys.path.insert(0, os.path.dirname(os.path.abspath(__file__)))
import common as cm

PID = "C19"
work = cm.reexec_isolated(PID)
args = cm.parse_args(sys.argv[1:])

PT = ["R1g", "R2g", "R3g", "R4g", "R1fs", "R2fs", "R3fs", "R4fs"]
PR = ["GSB", "SE", "ESA", "DC"]
SG = ["REPH", "NONR", "DCS"]
LEVELS = ["off", "signals", "processes", "types", "pathways"]
LEVEL_COQ = {"off": "Off", "signals": "Signals", "processes": "Processes", "types": "Types", "pathways": "Pathways"}
PROC_TYPES = {"GSB": ["R1g", "R2g"], "SE": ["R3g", "R4g"], "ESA": ["R1fs", "R2fs"], "DC": ["R3fs", "R4fs"]}
SIG_TYPES = {"REPH": ["R2g", "R3g", "R1fs"], "NONR": ["R1g", "R4g", "R2fs"], "DCS": ["R3fs", "R4fs"]}


def pyname(d):
    import quantarhei as qr
    return {"REPH": qr.signal_REPH, "NONR": qr.signal_NONR, "DCS": qr.signal_DC, "TOT": qr.signal_TOTL,
            "UNK": "no_such_type"}.get(d, d)


def coq_dtype(d):
    if d in PT:
        return "(DP %s)" % d
    if d in PR:
        return "(DQ %s)" % {"GSB": "GSB", "SE": "SE", "ESA": "ESA", "DC": "DCp"}[d]
    if d in SG:
        return "(DS %s)" % {"REPH": "REPH", "NONR": "NONR", "DCS": "DCs"}[d]
    return {"TOT": "DTot", "UNK": "DUnknown"}[d]


def level_of(d):
    if d in PT:
        return 3
    if d in PR:
        return 2
    if d in SG:
        return 1
    return 0


def gen_history(r, k):
    n = r.choice([2, 4, 6, 10, 16, 24, 30])
    lvl = 4
    ops = []
    first_res = r.choice([None, None, None, "pathways", "types", "processes", "signals", "off"])
    for i in range(n):
        u = r.random()
        if u < 0.60:
            v = r.randint(-9, 20)
            if r.random() < 0.8:
                # an add fitting the (approximate) current level
                L = lvl if not (i == 0 and first_res) else LEVELS.index(first_res)
                if L == 4:
                    d, t = r.choice(PT[:4] + PT), r.choice([1, 1, 2, 3, 7, 0])
                elif L == 3:
                    d, t = r.choice(PT), None
                elif L == 2:
                    d, t = r.choice(PR), None
                elif L == 1:
                    d, t = r.choice(SG), None
                else:
                    d, t = "TOT", None
                reso = None if r.random() < 0.7 else LEVELS[L]
                if i == 0 and first_res:
                    reso = first_res
                    lvl = L
            else:
                d = r.choice(PT + PR + SG + ["TOT", "UNK"])
                t = r.choice([None, None, 1, 2, 0])
                reso = r.choice([None, "pathways", "types", "processes", "signals", "off"])
            ops.append({"op": "add", "v": v, "reso": reso, "d": d, "t": t, "real": (i + k) % 3 == 0})
        elif u < 0.75:
            new = r.choice(LEVELS + ["bogus"])
            if new in LEVELS and LEVELS.index(new) <= lvl and not (lvl == 2 and new == "signals"):
                lvl = LEVELS.index(new)
            ops.append({"op": "setres", "new": new})
        else:
            d = r.choice(PT + PR + SG + ["TOT", "TOT", "UNK"])
            as_list = r.random() < 0.3
            t = r.choice([None, 1, 2, 3, 0]) if as_list else None
            ops.append({"op": "read", "d": d, "t": t, "as_list": as_list})
    return {"ops": ops}


class Runner:
    def __init__(self):
        import numpy
        import quantarhei as qr
        from quantarhei.spectroscopy.twod2 import TwoDResponse
        self.numpy = numpy
        # axes of different lengths (2 and 3 points): the stored arrays are not square
        self.BASE = numpy.array([[1, 2, 4], [3, 5, 7]], dtype=complex)
        self.obj = TwoDResponse()
        self.obj.set_axis_1(qr.FrequencyAxis(0.0, 2, 1.0))
        self.obj.set_axis_3(qr.FrequencyAxis(0.0, 3, 1.0))

    def val(self, arr):
        """array -> integer coefficient, None, or raises if the array is not v*BASE"""
        numpy = self.numpy
        if arr is None:
            return None
        arr = numpy.asarray(arr)
        if arr.shape == (1, 1):
            if arr[0, 0] != 0:
                raise AssertionError("unexpected (1,1) array %r" % (arr,))
            return 0
        v = arr[0, 0]
        if v.imag != 0 or v.real != int(v.real) or not numpy.array_equal(arr, v * self.BASE):
            raise AssertionError("stored/read array is not a multiple of the base pattern: %r" % (arr,))
        return int(v.real)

    def store(self):
        """canonical content of _d__data"""
        o = self.obj
        res = o.storage_resolution
        dd = getattr(o, "_d__data", None)
        out = []
        if dd is None:
            return out
        if res == "pathways":
            for ti, typ in enumerate(PT):
                for tag, arr in dd.get(typ, {}).items():
                    out.append((ti, tag, self.val(arr)))
        elif res == "types":
            for ti, typ in enumerate(PT):
                if typ in dd:
                    out.append((ti, None, self.val(dd[typ])))
        elif res == "processes":
            for ti, typ in enumerate(PR):
                if typ in dd:
                    out.append((ti, None, self.val(dd[typ])))
        elif res == "signals":
            for ti, typ in enumerate(SG):
                if pyname(typ) in dd:
                    out.append((ti, None, self.val(dd[pyname(typ)])))
        elif res == "off":
            if pyname("TOT") in dd and dd[pyname("TOT")] is not None:
                out.append((0, None, self.val(dd[pyname("TOT")])))
        extra = set(dd.keys()) - set(PT + PR + [pyname(x) for x in SG + ["TOT"]])
        if extra:
            raise AssertionError("unexpected keys in the store: %r" % (extra,))
        return out

    def do(self, op):
        """returns (accepted, read result) with read result ('val', v|None) or ('err',)"""
        o = self.obj
        if op["op"] == "add":
            try:
                arr = op["v"] * self.BASE
                if op.get("real"):
                    arr = self.numpy.array(arr.real)          # a real-typed array (the values are the same)
                o._add_data(arr, resolution=op["reso"], dtype=pyname(op["d"]), tag=op["t"])
                return True, ("err",)
            except Exception:
                return False, ("err",)
        if op["op"] == "setres":
            try:
                o.set_resolution(op["new"])
                return True, ("err",)
            except Exception:
                return False, ("err",)
        if op["op"] == "read":
            o.set_data_flag([pyname(op["d"]), op["t"]] if op["as_list"] else pyname(op["d"]))
            try:
                arr = o.d__data
            except Exception:
                return True, ("err",)
            return True, ("val", self.val(None if arr is None else self.numpy.array(arr)))


def belongs(d, view):
    kind, name = view
    if kind == "total":
        return True
    if kind == "signal":
        return (d in PT and d in SIG_TYPES[name]) or d == name
    if kind == "process":
        return (d in PT and d in PROC_TYPES[name]) or d == name
    if kind == "type":
        return d == name
    return False


def monitor(run, log, c, k):
    """views read from a deep copy must equal the sums of the accepted additions"""
    o = run.obj
    if not o.storage_initialized:
        return None
    res = o.storage_resolution
    L = LEVELS.index(res)
    views = [("total", "TOT")]
    if L >= 3 or L == 1:
        views += [("signal", g) for g in SG]
    if L >= 3 or L == 2:
        views += [("process", q) for q in PR]
    if L >= 3:
        views += [("type", p) for p in PT]
    for view in views:
        cp = copy.deepcopy(o)
        cp.set_data_flag(pyname(view[1]))
        try:
            got = Runner.val(run, cp.d__data)
        except Exception as e:
            return "reading %s view at resolution %s after op %d raised %r" % (view, res, k, e)
        want = sum(v for (d, t, v) in log if belongs(d, view))
        if (got or 0) != want:
            return "%s view %s at resolution '%s' after op %d reads %r, sum of accepted additions is %r" % (
                view[0], view[1], res, k, got, want)
    if L == 4:
        for (d, t, v) in log:
            cp = copy.deepcopy(o)
            cp.set_data_flag([pyname(d), t])
            got = Runner.val(run, cp.d__data)
            want = sum(v2 for (d2, t2, v2) in log if d2 == d and t2 == t)
            if got != want:
                return "pathway [%s,%r] reads %r, added %r" % (d, t, got, want)
    return None


def run(chk, cases):
    items, meta = [], []
    for c in cases:
        try:
            rn = Runner()
            outs = []
            log = []
            viol = None
            for k, op in enumerate(c["ops"]):
                before = rn.store() if rn.obj.storage_initialized else None
                res_before = rn.obj.storage_resolution
                ok, rd = rn.do(op)
                outs.append((ok, rd))
                chk.count("op:%s:%s" % (op["op"], "ok" if ok else "refused"))
                if op["op"] == "add" and ok:
                    log.append((op["d"], op["t"], op["v"]))
                if (not ok) and before is not None:
                    if rn.store() != before or rn.obj.storage_resolution != res_before:
                        viol = viol or ("refused", "refused op %d %r changed the store: %r -> %r" % (k, op, before, rn.store()))
                if op["op"] == "read" and before is not None and rn.store() != before:
                    viol = viol or ("read_changes_store", "read op %d %r changed the store: %r -> %r" % (k, op, before, rn.store()))
                m = monitor(rn, log, c, k)
                if m and not viol:
                    viol = ("conservation", m)
            if viol:
                chk.violation("storage:" + viol[0], "TwoDResponse history: " + viol[1], "monitor", c)
            final = (rn.obj.storage_resolution, bool(rn.obj.storage_initialized), rn.store())
        except Exception as e:
            chk.violation("history:exception", "history raised %r" % (e,), "monitor", c)
            chk.case(c, False)
            continue
        ops_l = []
        for op in c["ops"]:
            if op["op"] == "add":
                ops_l.append("OAdd (%s : ZR) %s %s %s" % (cm.zlit(op["v"]),
                             "None" if op["reso"] is None else "(Some %s)" % LEVEL_COQ[op["reso"]], coq_dtype(op["d"]),
                             "None" if op["t"] is None else "(Some %s)" % cm.zlit(op["t"])))
            elif op["op"] == "setres":
                ops_l.append("@OSetRes ZR %s" % ("(Some %s)" % LEVEL_COQ[op["new"]] if op["new"] in LEVEL_COQ else "None"))
            else:
                ops_l.append("@ORead ZR %s %s %s" % (coq_dtype(op["d"]), "None" if op["t"] is None else "(Some %s)" % cm.zlit(op["t"]),
                                                 "true" if op["as_list"] else "false"))
        outs_l = []
        for ok, rd in outs:
            if rd[0] == "err":
                r_ = "(@RErr ZR)"
            elif rd[1] is None:
                r_ = "(@RVal ZR None)"
            else:
                r_ = "(@RVal ZR (Some %s))" % cm.zlit(rd[1])
            outs_l.append("(%s, %s)" % ("true" if ok else "false", r_))
        dump_l = ["(%d%%nat, %s, %s)" % (ti, "None" if tag is None else "(Some %s)" % cm.zlit(tag), cm.zlit(v))
                  for (ti, tag, v) in final[2]]
        if final[0] not in LEVEL_COQ:
            chk.violation("storage:bad_resolution", "storage_resolution became %r" % (final[0],), "monitor", c)
            continue
        items.append("(%s, %s, (%s, %s, %s))" % (cm.clist(ops_l), cm.clist(outs_l), LEVEL_COQ[final[0]],
                     "true" if final[1] else "false", cm.clist(dump_l)))
        meta.append(c)
        nacc = len(log)
        chk.case(c, nacc >= 2, sample={"ops": c["ops"][:8], "final": [final[0], final[1], final[2][:6]]})
    shards, index = [], []
    CH = 120
    for k in range(0, len(items), CH):
        shards.append(cm.HEADER + "From QV Require Import Base.Alg Base.Util Model.C19.\n"
                      "Definition cs : list case19 := %s.\n"
                      "Eval vm_compute in (bad (case_agrees NoneTagRefused) cs).\n"
                      "Eval vm_compute in (bad (case_agrees NoneTagStored) cs).\n" % cm.clist(items[k:k + CH]))
        index.append(k)
    for k, (rc, out) in zip(index, cm.coq_eval(PID, shards)):
        if rc != 0:
            chk.violation("correspondence:coq_error", "coqc failed: %s" % out[-800:], "correspondence", {}, found_input=False)
            continue
        vals = cm.parse_evals(out)
        badl, bad_old = cm.parse_natlist(vals[0]), cm.parse_natlist(vals[1])
        chk.corr["cases"] += min(CH, len(items) - k)
        chk.corr["disagreements"] += len(badl)
        chk.corr["agree_with_pinned_variant_only"] = chk.corr.get("agree_with_pinned_variant_only", 0) + \
            len([i for i in badl if i not in bad_old])
        for i in badl[:3]:
            which = "agrees with the pinned (None tag stored) variant" if i not in bad_old else "agrees with neither variant"
            chk.violation("correspondence:history", "implementation differs from Model.C19 (NoneTagRefused) on history %s; it %s"
                          % (json.dumps(meta[k + i])[:1500], which), "correspondence", meta[k + i], found_input=False)


def main():
    chk = cm.Check(PID, args.tier)
    chk.rule = ("random histories (<=30 ops) of _add_data (all five levels, fitting and unfitting dtype/tag/resolution, "
                "re-used tags), set_resolution (all levels and an unknown one) and reads (all dtypes, list and plain flags); "
                "non-trivial: >=2 accepted additions; distinct by the op list")
    chk.assumptions = ["data arrays are integer multiples of one 2x2 pattern, so array arithmetic is exact and every array maps to one integer",
                       "unknown resolution strings are not passed to _add_data (outside 'admissible storage resolution'; they leave "
                       "storage_resolution itself invalid)", "axes are set before use (xaxis/yaxis of length 2)"]
    chk.assumptions.append("static tie: the storage functions of twod2.py are transcribed node by node (harness/translate_c19.py, fail-closed) into "
                           "the Python-fragment semantics of Model/C19py.v and proved equal to Model/C19code.v, which Proofs/C19gen*.v prove to "
                           "refine Model/C19.v for every history; trusted: the transcriber, the fragment semantics (value semantics of arrays, "
                           "guarded by the transcriber's aliasing check), exception messages and array shapes are not modelled")
    chk.prove()
    import translate
    translate.static_tie(cm, chk, PID, cm.REPO)      # second, static tie: the model's refinement re-established for the current source
    if args.replay:
        rep = json.load(open(args.replay))
        cases = [rep["input"]] if isinstance(rep.get("input"), dict) and "ops" in rep["input"] else []
    else:
        r = cm.rng(PID)
        n = 400 if args.tier == "quick" else 6000
        cases = [{"ops": [{"op": "add", "v": 3, "reso": None, "d": "R1g", "t": 1},
                          {"op": "add", "v": 4, "reso": "types", "d": "R1g", "t": None},
                          {"op": "read", "d": "TOT", "t": None, "as_list": False}]},
                 {"ops": [{"op": "add", "v": 3, "reso": None, "d": "R1g", "t": 1},
                          {"op": "add", "v": 5, "reso": None, "d": "R1g", "t": 2},
                          {"op": "read", "d": "R1g", "t": None, "as_list": False},
                          {"op": "read", "d": "R1g", "t": 1, "as_list": True},
                          {"op": "add", "v": 9, "reso": None, "d": "R1g", "t": 1},
                          {"op": "read", "d": "TOT", "t": None, "as_list": False}]}]
        cases += [gen_history(r, k) for k in range(n)]
    run(chk, cases)
    chk.finish()


main()
