# -*- coding: utf-8 -*-
"""Static tie for C01, second part: the imperative completion loops and the glue around the tensor assembly.

`translate.py` regenerates `_loopit`, the time-dependent assembly body and the secular zeroing condition.  This module
adds, by template unification (translate2.unify) with the arithmetic content as holes:

  relaxationtensor.py  RelaxationTensor.updateStructure     both branches (4-index data; 5-index data, per time index)
  foerstertensor.py    FoersterRelaxationTensor.add_dephasing      final guarded in-place loop
  tdfoerstertensor.py  TDFoersterRelaxationTensor.add_dephasing    the same per time index
  redfieldfoerster.py  RedfieldFoersterRelaxationTensor._reference_implementation   "add the rates to the Redfield" loop
  redfieldtensor.py    RedfieldRelaxationTensor._convert_operators_2_tensor (Kd and the argument order of the _loopit call),
                       _implementation (Ld = conj(transpose(Lm))), _post_implementation (argument order)
  lindbladform.py      LindbladForm._implementation   (llm = rates*KK/2, lld = transpose(llm), argument order)

The generated definitions instantiate the sequential-write skeletons of Proofs/C01gen.v; the generated lemmas discharge
the side conditions ("the content is the expected one") from the code's own expressions and conclude equality with
Model/C01.v's update_structure / add_dephasing DephRepaired / rf_add / redfield_tensor / lindblad_tensor.
"""
import ast

from translate import Untranslatable, _src_of
from translate2 import unify, _live


def _idx_list(sl):
    return list(sl.elts) if isinstance(sl, ast.Tuple) else [sl]


def _is_full_slice(node):
    return isinstance(node, ast.Slice) and node.lower is None and node.upper is None and node.step is None


class NatExpr:
    """index arithmetic over loop variables: names, small constants, + ; self.dim / Na -> n"""

    def __init__(self, names, dims=("self.dim", "Na")):
        self.names, self.dims = dict(names), set(dims)

    def e(self, node):
        if isinstance(node, ast.Name):
            if node.id in self.names:
                return self.names[node.id]
            if node.id in self.dims:
                return "n"
            raise Untranslatable("index name %s" % node.id)
        if isinstance(node, ast.Attribute) and ast.unparse(node) in self.dims:
            return "n"
        if isinstance(node, ast.Constant) and isinstance(node.value, int) and not isinstance(node.value, bool) and 0 <= node.value < 100:
            return "%d" % node.value
        if isinstance(node, ast.BinOp) and isinstance(node.op, ast.Add):
            return "(%s + %s)" % (self.e(node.left), self.e(node.right))
        raise Untranslatable("index expression %s" % ast.unparse(node)[:80])

    def b(self, node):
        if isinstance(node, ast.Compare) and len(node.ops) == 1 and isinstance(node.ops[0], (ast.Eq, ast.NotEq)):
            t = "(Nat.eqb %s %s)" % (self.e(node.left), self.e(node.comparators[0]))
            return t if isinstance(node.ops[0], ast.Eq) else "(negb %s)" % t
        if isinstance(node, ast.UnaryOp) and isinstance(node.op, ast.Not):
            return "(negb %s)" % self.b(node.operand)
        raise Untranslatable("guard %s" % ast.unparse(node)[:80])


class RingExpr:
    """ring expressions over the tensor being updated (`U`), vectors and matrices given by name"""

    def __init__(self, nat, tensor_names, lead, vectors=None, matrices=None, scalars=None, vec_tail=()):
        self.nat = nat
        self.tensor_names = set(tensor_names)     # unparse text of the array holding the tensor (self._data / self.data)
        self.lead = lead                          # number of leading full slices (0: 4-index data, 1: time-dependent data)
        self.vectors = dict(vectors or {})        # python array name -> Coq function nat -> R ; trailing index must be in vec_tail
        self.matrices = dict(matrices or {})      # python array name -> Coq function nat -> nat -> R
        self.scalars = dict(scalars or {})        # python scalar name -> Coq term
        self.vec_tail = set(vec_tail)

    def tens(self, node):
        idx = _idx_list(node.slice)
        if len(idx) != 4 + self.lead or not all(_is_full_slice(i) for i in idx[:self.lead]):
            raise Untranslatable("tensor subscript %s" % ast.unparse(node))
        return idx[self.lead:]

    def e(self, node):
        if isinstance(node, ast.Subscript):
            base = ast.unparse(node.value)
            if base in self.tensor_names:
                return "(U %s)" % " ".join(self.nat.e(i) for i in self.tens(node))
            if base in self.vectors:
                idx = _idx_list(node.slice)
                if len(idx) == 2 and (ast.unparse(idx[1]) in self.vec_tail or (_is_full_slice(idx[1]) and ":" in self.vec_tail)):
                    return "(%s %s)" % (self.vectors[base], self.nat.e(idx[0]))
                raise Untranslatable("vector subscript %s" % ast.unparse(node))
            if base in self.matrices:
                idx = _idx_list(node.slice)
                if len(idx) == 2:
                    return "(%s %s %s)" % (self.matrices[base], self.nat.e(idx[0]), self.nat.e(idx[1]))
            raise Untranslatable("subscript %s" % ast.unparse(node))
        if isinstance(node, ast.Name) and node.id in self.scalars:
            return self.scalars[node.id]
        if isinstance(node, ast.Call):
            f = ast.unparse(node.func)
            if f == "numpy.conj" and len(node.args) == 1 and not node.keywords:
                return "(cj R %s)" % self.e(node.args[0])
            if f == "numpy.trace" and len(node.args) == 1 and isinstance(node.args[0], ast.Subscript) \
                    and ast.unparse(node.args[0].value) in self.tensor_names:
                idx = _idx_list(node.args[0].slice)
                kw = {k.arg: ast.unparse(k.value) for k in node.keywords}
                # numpy.trace over the two axes that follow the leading (time) axes
                if kw != ({} if self.lead == 0 else {"axis1": str(self.lead), "axis2": str(self.lead + 1)}):
                    raise Untranslatable("trace axes %s" % kw)
                if len(idx) != 4 + self.lead or not all(_is_full_slice(i) for i in idx[:self.lead + 2]):
                    raise Untranslatable("trace argument %s" % ast.unparse(node.args[0]))
                c, d = (self.nat.e(i) for i in idx[self.lead + 2:])
                return "(sum n (fun i_ => U i_ i_ %s %s))" % (c, d)
            raise Untranslatable("call %s" % f)
        if isinstance(node, ast.Constant) and isinstance(node.value, (int, float)) and not isinstance(node.value, bool) and node.value == 0:
            return "(r0 R)"
        if isinstance(node, ast.UnaryOp) and isinstance(node.op, ast.USub):
            return "(ropp R %s)" % self.e(node.operand)
        if isinstance(node, ast.BinOp):
            if isinstance(node.op, ast.Div):
                if isinstance(node.right, ast.Constant) and node.right.value in (2, 2.0):
                    return "(rmul R half %s)" % self.e(node.left)
                raise Untranslatable("division %s" % ast.unparse(node)[:60])
            op = {ast.Add: "radd R", ast.Sub: "rsub R", ast.Mult: "rmul R"}.get(type(node.op))
            if op is None:
                raise Untranslatable("operator %s" % type(node.op).__name__)
            return "(%s %s %s)" % (op, self.e(node.left), self.e(node.right))
        raise Untranslatable("expression %s" % ast.unparse(node)[:80])


def _tuple4(nat, idx):
    return "(%s, %s, %s, %s)" % tuple(nat.e(i) for i in idx)


def _parse_stmts(src):
    return ast.parse(src).body


def _unify_stmts(template_src, stmts, what):
    env = {}
    unify(_parse_stmts(template_src), stmts, env, what)
    return env


# ------------------------------------------------------------------------------------------- updateStructure
T_UPDATE_BRANCH = '''
for nn in range(H_dn):
    H_arr1[H_t1] -= H_d1
for nn in range(H_en):
    for mm in range(H_lo, H_hi):
        H_arr2[H_t2] = H_r2
        H_arr3[H_t3] = H_r3
'''


def _update_branch(stmts, lead, tag):
    env = _unify_stmts(T_UPDATE_BRANCH, stmts, "updateStructure[%s]" % tag)
    for a in ("H_arr1", "H_arr2", "H_arr3"):
        if ast.unparse(env[a]) != "self._data":
            raise Untranslatable("updateStructure writes to %s" % ast.unparse(env[a]))
    n1 = NatExpr({"nn": "nn"})
    n2 = NatExpr({"nn": "nn", "mm": "mm"})
    r1 = RingExpr(n1, {"self._data"}, lead)
    r2 = RingExpr(n2, {"self._data"}, lead)

    def tgt(nat, hole):
        fake = ast.Subscript(value=ast.parse("self._data", mode="eval").body, slice=env[hole])
        return _tuple4(nat, r2.tens(fake) if nat is n2 else r1.tens(fake))
    d = dict(tag=tag,
             dn=n1.e(env["H_dn"]), en=n1.e(env["H_en"]), lo=n1.e(env["H_lo"]), hi=n1.e(env["H_hi"]),
             t1=tgt(n1, "H_t1"), d1=r1.e(env["H_d1"]),
             t2=tgt(n2, "H_t2"), r2=r2.e(env["H_r2"]), t3=tgt(n2, "H_t3"), r3=r2.e(env["H_r3"]))
    return """
  Definition u%(tag)s_dn : nat := %(dn)s.
  Definition u%(tag)s_t1 (nn : nat) : idx4 := %(t1)s.
  Definition u%(tag)s_d1 (U : @tens R) (nn : nat) : R := %(d1)s.
  Definition u%(tag)s_en : nat := %(en)s.
  Definition u%(tag)s_lo (nn : nat) : nat := %(lo)s.
  Definition u%(tag)s_hi : nat := %(hi)s.
  Definition u%(tag)s_t2 (nn mm : nat) : idx4 := %(t2)s.
  Definition u%(tag)s_r2 (U : @tens R) (nn mm : nat) : R := %(r2)s.
  Definition u%(tag)s_t3 (nn mm : nat) : idx4 := %(t3)s.
  Definition u%(tag)s_r3 (U : @tens R) (nn mm : nat) : R := %(r3)s.
  Definition gen_update%(tag)s (T : @tens R) : @tens R :=
    deph_skel u%(tag)s_en u%(tag)s_lo u%(tag)s_hi u%(tag)s_t2 u%(tag)s_t3 u%(tag)s_r2 u%(tag)s_r3 (depop_skel u%(tag)s_dn u%(tag)s_t1 u%(tag)s_d1 T).
  Lemma gen_update%(tag)s_is_model T a b c d : (a < n)%%nat -> (b < n)%%nat ->
    gen_update%(tag)s T a b c d = update_structure n half T a b c d.
  Proof.
    intros Ha Hb. unfold gen_update%(tag)s.
    apply (update_skel_is_model n half); try assumption; intros;
      unfold u%(tag)s_dn, u%(tag)s_t1, u%(tag)s_d1, u%(tag)s_en, u%(tag)s_lo, u%(tag)s_hi, u%(tag)s_t2, u%(tag)s_r2, u%(tag)s_t3, u%(tag)s_r3;
      first [reflexivity | lia | ring | (f_equal; lia)].
  Qed.
""" % d


def update_structure(repo):
    fn = _src_of(repo + "/quantarhei/qm/liouvillespace/relaxationtensor.py", "RelaxationTensor.updateStructure")
    body = _live(fn.body)
    if len(body) != 1 or not isinstance(body[0], ast.If) or ast.unparse(body[0].test) not in ("self._data.ndim == 4", "4 == self._data.ndim"):
        raise Untranslatable("updateStructure: expected a single `if self._data.ndim == 4: ... else: ...`")
    return _update_branch(_live(body[0].body), 0, "4") + _update_branch(_live(body[0].orelse), 1, "5")


# ------------------------------------------------------------------------------------------- add_dephasing
T_DEPH_LOOP = '''
for aa in range(H_n1):
    for bb in range(H_n2):
        if H_cond:
            H_arr[H_tgt] -= H_delta
'''


def _last_for(fn, what):
    fors = [s for s in _live(fn.body) if isinstance(s, ast.For)]
    if not fors:
        raise Untranslatable("%s: no loop" % what)
    return fors[-1]


def _add_dephasing(repo, path, qual, lead, tag):
    fn = _src_of(repo + path, qual)
    env = _unify_stmts(T_DEPH_LOOP, [_last_for(fn, qual)], qual)
    if ast.unparse(env["H_arr"]) != "self.data":
        raise Untranslatable("%s writes to %s" % (qual, ast.unparse(env["H_arr"])))
    nat = NatExpr({"aa": "aa", "bb": "bb"})
    rex = RingExpr(nat, {"self.data"}, lead, vectors={"ht": "h"}, vec_tail={"Nt - 1", ":"} if lead == 0 else {":"})
    fake = ast.Subscript(value=ast.parse("self.data", mode="eval").body, slice=env["H_tgt"])
    d = dict(tag=tag, n1=nat.e(env["H_n1"]), n2=nat.e(env["H_n2"]), cond=nat.b(env["H_cond"]),
             tgt=_tuple4(nat, rex.tens(fake)), delta=rex.e(env["H_delta"]))
    return """
  Definition d%(tag)s_n1 : nat := %(n1)s.
  Definition d%(tag)s_n2 : nat := %(n2)s.
  Definition d%(tag)s_cond (aa bb : nat) : bool := %(cond)s.
  Definition d%(tag)s_tgt (aa bb : nat) : idx4 := %(tgt)s.
  Definition d%(tag)s_delta (h : nat -> R) (aa bb : nat) : R := %(delta)s.
  Definition gen_dephasing%(tag)s (h : nat -> R) (T : @tens R) : @tens R :=
    gw_skel d%(tag)s_n1 d%(tag)s_n2 d%(tag)s_cond d%(tag)s_tgt (d%(tag)s_delta h) T.
  Lemma gen_dephasing%(tag)s_is_model h T a b c d : (a < n)%%nat -> (b < n)%%nat ->
    gen_dephasing%(tag)s h T a b c d = add_dephasing DephRepaired h T a b c d.
  Proof.
    intros Ha Hb. unfold gen_dephasing%(tag)s.
    apply (gw_skel_is_model n); try assumption; intros; unfold d%(tag)s_n1, d%(tag)s_n2, d%(tag)s_cond, d%(tag)s_tgt, d%(tag)s_delta;
      first [reflexivity | ring | (rewrite Nat.eqb_sym; reflexivity)].
  Qed.
""" % d


# ------------------------------------------------------------------------------------------- Redfield-Foerster
T_RF_LOOP = '''
for b in range(H_nb):
    gg = H_g0
    for a in range(H_na):
        H_arr1[H_t1] += H_i1
        gg += H_gi
    H_arr2[H_t2] += H_fin
'''


def rf_add(repo):
    qual = "RedfieldFoersterRelaxationTensor._reference_implementation"
    fn = _src_of(repo + "/quantarhei/qm/liouvillespace/redfieldfoerster.py", qual)
    # the loop sits inside `if calcFT:`; it is the last loop of that block
    blocks = [s for s in _live(fn.body) if isinstance(s, ast.If) and ast.unparse(s.test) == "calcFT"]
    if len(blocks) != 1:
        raise Untranslatable("%s: `if calcFT:` block not found" % qual)
    fors = [s for s in _live(blocks[0].body) if isinstance(s, ast.For)]
    if not fors:
        raise Untranslatable("%s: no loop in the Foerster block" % qual)
    env = _unify_stmts(T_RF_LOOP, [fors[-1]], qual)
    for a in ("H_arr1", "H_arr2"):
        if ast.unparse(env[a]) != "self.data":
            raise Untranslatable("%s writes to %s" % (qual, ast.unparse(env[a])))
    # KF must be the Foerster rate matrix:  KF = foerster_rates(...)
    kf = [s for s in _live(blocks[0].body) if isinstance(s, ast.Assign) and ast.unparse(s.targets[0]) == "KF"]
    if len(kf) != 1 or not (isinstance(kf[0].value, ast.Call) and ast.unparse(kf[0].value.func) == "foerster_rates"):
        raise Untranslatable("%s: KF is not the result of foerster_rates(...)" % qual)
    nat2 = NatExpr({"a": "a", "b": "b"})
    nat1 = NatExpr({"b": "b"})
    rex = RingExpr(nat2, {"self.data"}, 0, matrices={"KF": "KF"})
    rfin = RingExpr(nat1, {"self.data"}, 0, scalars={"gg": "g"})
    f1 = ast.Subscript(value=ast.parse("self.data", mode="eval").body, slice=env["H_t1"])
    f2 = ast.Subscript(value=ast.parse("self.data", mode="eval").body, slice=env["H_t2"])
    d = dict(nb=nat1.e(env["H_nb"]), na=nat1.e(env["H_na"]), g0=rfin.e(env["H_g0"]),
             t1=_tuple4(nat2, rex.tens(f1)), i1=rex.e(env["H_i1"]), gi=rex.e(env["H_gi"]),
             t2=_tuple4(nat1, rfin.tens(f2)), fin=rfin.e(env["H_fin"]))
    return """
  Definition rf_nb : nat := %(nb)s.
  Definition rf_na : nat := %(na)s.
  Definition rf_g0 : R := %(g0)s.
  Definition rf_t1 (a b : nat) : idx4 := %(t1)s.
  Definition rf_i1 (KF : @mat R) (a b : nat) : R := %(i1)s.
  Definition rf_gi (KF : @mat R) (a b : nat) : R := %(gi)s.
  Definition rf_t2 (b : nat) : idx4 := %(t2)s.
  Definition rf_fin (g : R) : R := %(fin)s.
  Definition gen_rf_add (KF : @mat R) (T : @tens R) : @tens R :=
    rf_skel rf_nb rf_na rf_g0 rf_t1 (rf_i1 KF) (rf_gi KF) rf_t2 rf_fin T.
  Lemma gen_rf_add_is_model KF T a b c d : (a < n)%%nat -> (c < n)%%nat -> gen_rf_add KF T a b c d = rf_add n KF T a b c d.
  Proof.
    intros Ha Hc. unfold gen_rf_add.
    apply (rf_skel_is_model n); try assumption; intros; unfold rf_nb, rf_na, rf_g0, rf_t1, rf_i1, rf_gi, rf_t2, rf_fin; first [reflexivity | ring].
  Qed.
""" % d


# ------------------------------------------------------------------------------------------- glue of the Redfield assembly
class MatFam:
    """numpy expressions over families of matrices indexed by one loop variable -> Mat.v terms"""

    def __init__(self, var, fams, mats=None):
        self.var, self.fams, self.mats = var, dict(fams), dict(mats or {})

    def m(self, node):
        if isinstance(node, ast.Name) and node.id in self.mats:
            return self.mats[node.id]
        if isinstance(node, ast.Subscript) and ast.unparse(node.value) in self.fams:
            idx = _idx_list(node.slice)
            if len(idx) == 3 and isinstance(idx[0], ast.Name) and idx[0].id == self.var and all(_is_full_slice(i) for i in idx[1:]):
                return "(%s %s)" % (self.fams[ast.unparse(node.value)], self.var)
            raise Untranslatable("family subscript %s" % ast.unparse(node))
        if isinstance(node, ast.Call) and not node.keywords:
            f = ast.unparse(node.func)
            if f == "numpy.transpose" and len(node.args) == 1:
                return "(mT %s)" % self.m(node.args[0])
            if f == "numpy.conj" and len(node.args) == 1:
                return "(fun i_ j_ => cj R (%s i_ j_))" % self.m(node.args[0])
            if f == "numpy.dot" and len(node.args) == 2:
                return "(mmul n %s %s)" % (self.m(node.args[0]), self.m(node.args[1]))
            raise Untranslatable("call %s" % f)
        raise Untranslatable("matrix expression %s" % ast.unparse(node)[:80])


def _loopit_params(repo):
    fn = _src_of(repo + "/quantarhei/qm/liouvillespace/redfieldtensor.py", "_loopit")
    return [a.arg for a in fn.args.args]


def redfield_glue(repo):
    f = repo + "/quantarhei/qm/liouvillespace/redfieldtensor.py"
    # _convert_operators_2_tensor: one loop over the bath components, Kd := transpose(Km[m]), call of _loopit
    fn = _src_of(f, "RedfieldRelaxationTensor._convert_operators_2_tensor")
    if [a.arg for a in fn.args.args] != ["self", "Km", "Lm", "Ld"]:
        raise Untranslatable("_convert_operators_2_tensor signature")
    fors = [s for s in _live(fn.body) if isinstance(s, ast.For)]
    if len(fors) != 1:
        raise Untranslatable("_convert_operators_2_tensor: %d loops" % len(fors))
    env = _unify_stmts("for m in H_range:\n    Kd = H_kd\n    _loopit(H_a1, H_a2, H_a3, H_a4, H_a5, H_a6, H_a7)\n", fors, "_convert_operators_2_tensor")
    rng = ast.unparse(env["H_range"])
    if rng not in ("block_distributed_range(0, Nb)", "range(Nb)", "range(0, Nb)"):
        raise Untranslatable("_convert_operators_2_tensor: loop range %s" % rng)
    nb = [s for s in _live(fn.body) if isinstance(s, ast.Assign) and ast.unparse(s.targets[0]) == "Nb"]
    if len(nb) != 1 or ast.unparse(nb[0].value) != "self.SystemBathInteraction.N":
        raise Untranslatable("_convert_operators_2_tensor: Nb is not self.SystemBathInteraction.N")
    mf = MatFam("m", {"Km": "Km", "Lm": "Lm", "Ld": "Ld"})
    kd = mf.m(env["H_kd"])
    params = _loopit_params(repo)
    args = [ast.unparse(env["H_a%d" % k]) for k in range(1, 8)]
    if len(params) != 7:
        raise Untranslatable("_loopit has %d parameters" % len(params))
    bind = dict(zip(params, args))          # parameter of _loopit -> argument of the call
    # translate.py's generated gen_loopit takes (K Kd L Ld): the parameters named Km, Kd, Lm, Ld of _loopit, read as X[m,..] / Kd[..]
    for p in ("Km", "Kd", "Lm", "Ld", "Na", "RR", "m"):
        if p not in bind:
            raise Untranslatable("_loopit parameter %s missing" % p)
    if bind["Na"] != "Na" or bind["RR"] != "RR" or bind["m"] != "m":
        raise Untranslatable("_loopit called with (Na, RR, m) = (%s, %s, %s)" % (bind["Na"], bind["RR"], bind["m"]))
    coq = {"Km": "(Km m)", "Lm": "(Lm m)", "Ld": "(Ld m)", "Kd": "Kd"}
    for p in ("Km", "Kd", "Lm", "Ld"):
        if bind[p] not in coq:
            raise Untranslatable("_loopit argument %s" % bind[p])
    conv = ("  Definition gen_convert (Nb : nat) (Km Lm Ld : nat -> @mat R) : @tens R :=\n"
            "    fun a b c d => sum Nb (fun m => let Kd := %s in loopit_m n %s %s %s %s a b c d).\n"
            % (kd, coq[bind["Km"]], coq[bind["Kd"]], coq[bind["Lm"]], coq[bind["Ld"]]))
    # _implementation: Ld[ms] += conj(transpose(Lm[ms])) on a zero array; _post_implementation(Km, Lm, Ld)
    fn = _src_of(f, "RedfieldRelaxationTensor._implementation")
    body = _live(fn.body)
    ldz = [s for s in body if isinstance(s, ast.Assign) and ast.unparse(s.targets[0]) == "Ld"]
    if len(ldz) != 1 or not ast.unparse(ldz[0].value).startswith("numpy.zeros("):
        raise Untranslatable("_implementation: Ld is not initialised by numpy.zeros")
    k0 = body.index(ldz[0])
    env = _unify_stmts("for ms in range(Nb):\n    Ld[ms, :, :] += H_ld\nself._post_implementation(H_p1, H_p2, H_p3)\n", body[k0 + 1:k0 + 3],
                       "_implementation (Ld loop and hand-over)")
    ld = MatFam("ms", {"Lm": "Lm"}).m(env["H_ld"])
    post = [ast.unparse(env["H_p%d" % k]) for k in (1, 2, 3)]
    fnp = _src_of(f, "RedfieldRelaxationTensor._post_implementation")
    pparams = [a.arg for a in fnp.args.args][1:]
    calls = [n for n in ast.walk(fnp) if isinstance(n, ast.Call) and ast.unparse(n.func) == "self._convert_operators_2_tensor"]
    if len(calls) != 1:
        raise Untranslatable("_post_implementation: call of _convert_operators_2_tensor")
    cargs = [ast.unparse(a) for a in calls[0].args]
    if len(pparams) != 3 or len(cargs) != 3 or any(c not in pparams for c in cargs):
        raise Untranslatable("_post_implementation: arguments %s" % cargs)
    pb = dict(zip(pparams, post))           # parameter of _post_implementation -> local of _implementation
    fin = [pb[c] for c in cargs]            # what reaches _convert_operators_2_tensor(Km, Lm, Ld)
    loc = {"Km": "Km", "Lm": "Lm", "Ld": "(fun ms => %s)" % ld}
    if any(x not in loc for x in fin):
        raise Untranslatable("_implementation hands over %s" % fin)
    impl = ("  Definition gen_redfield (Nb : nat) (Km Lm : nat -> @mat R) : @tens R := gen_convert Nb %s %s %s.\n"
            % tuple(loc[x] for x in fin))
    lem = """
  Lemma gen_convert_is_model Nb Km Lm Ld a b c d : gen_convert Nb Km Lm Ld a b c d = convert_ops n Nb Km Lm Ld a b c d.
  Proof. reflexivity. Qed.
  Lemma gen_redfield_is_model Nb Km Lm a b c d : gen_redfield Nb Km Lm a b c d = redfield_tensor n Nb Km Lm a b c d.
  Proof. reflexivity. Qed.
"""
    return conv + impl + lem


def lindblad_glue(repo):
    f = repo + "/quantarhei/qm/liouvillespace/lindbladform.py"
    fn = _src_of(f, "LindbladForm._implementation")
    body = _live(fn.body)
    loops = [s for s in ast.walk(fn) if isinstance(s, ast.For)]
    if len(loops) != 1:
        raise Untranslatable("LindbladForm._implementation: %d loops" % len(loops))
    env = _unify_stmts("for i in range(Nb):\n    llm[i, :, :] = H_llm\n    lld[i, :, :] = H_lld\n", loops, "LindbladForm._implementation")
    # llm = sbi.rates[i]*sbi.KK[i,:,:]/2.0   elementwise
    nat = NatExpr({"i": "i", "a": "a", "b": "b"})

    class _E(RingExpr):
        def e(self, node):
            if isinstance(node, ast.Subscript) and ast.unparse(node.value) == "sbi.rates":
                return "(rates %s)" % self.nat.e(node.slice)
            if isinstance(node, ast.Subscript) and ast.unparse(node.value) == "sbi.KK":
                idx = _idx_list(node.slice)
                if len(idx) == 3 and all(_is_full_slice(x) for x in idx[1:]):
                    return "(KK %s a b)" % self.nat.e(idx[0])
                raise Untranslatable("KK subscript %s" % ast.unparse(node))
            return RingExpr.e(self, node)
    llm = _E(nat, set(), 0).e(env["H_llm"])
    lld = MatFam("i", {"llm": "g_llm rates KK"}).m(env["H_lld"])
    last = body[-1]
    if not (isinstance(last, ast.Expr) and isinstance(last.value, ast.Call) and ast.unparse(last.value.func) == "self._post_implementation"):
        raise Untranslatable("LindbladForm._implementation does not end with _post_implementation(...)")
    post = [ast.unparse(a) for a in last.value.args]
    # KK handed over is sbi.KK (the branch sbi is None builds a zero operator: nothing to assemble)
    kk = [s for s in ast.walk(fn) if isinstance(s, ast.Assign) and ast.unparse(s.targets[0]) == "KK"]
    if sorted(ast.unparse(s.value) for s in kk) != sorted(["numpy.zeros((1, Na, Na), dtype=REAL)", "sbi.KK"]):
        raise Untranslatable("LindbladForm._implementation: KK assignments %s" % [ast.unparse(s.value) for s in kk])
    fnp = _src_of(repo + "/quantarhei/qm/liouvillespace/redfieldtensor.py", "RedfieldRelaxationTensor._post_implementation")
    pparams = [a.arg for a in fnp.args.args][1:]
    calls = [n for n in ast.walk(fnp) if isinstance(n, ast.Call) and ast.unparse(n.func) == "self._convert_operators_2_tensor"]
    cargs = [ast.unparse(a) for a in calls[0].args] if len(calls) == 1 else []
    if len(post) != 3 or len(cargs) != 3:
        raise Untranslatable("LindbladForm hand-over")
    pb = dict(zip(pparams, post))
    fin = [pb[c] for c in cargs]
    loc = {"KK": "KK", "llm": "(g_llm rates KK)", "lld": "(g_lld rates KK)"}
    if any(x not in loc for x in fin):
        raise Untranslatable("LindbladForm hands over %s" % fin)
    return """
  Definition g_llm (rates : nat -> R) (KK : nat -> @mat R) (i : nat) : @mat R := fun a b => %s.
  Definition g_lld (rates : nat -> R) (KK : nat -> @mat R) (i : nat) : @mat R := %s.
  Definition gen_lindblad (Nb : nat) (rates : nat -> R) (KK : nat -> @mat R) : @tens R := convert_ops n Nb %s %s %s.
  Lemma gen_lindblad_is_model Nb rates KK a b c d :
    gen_lindblad Nb rates KK a b c d = lindblad_tensor n Nb (fun m => rmul R half (rates m)) KK a b c d.
  Proof.
    unfold gen_lindblad, lindblad_tensor, convert_ops. apply sum_ext; intros m Hm.
    apply loopit_m_ext; intros x y; unfold g_lld, g_llm, lindblad_L, mscale, mT; ring.
  Qed.
""" % (llm, lld, loc[fin[0]], loc[fin[1]], loc[fin[2]])


# ------------------------------------------------------------------------------------------- Foerster tensors: initialize()
T_FILL_LOOP = """
for aa in range(H_n1):
    for bb in range(H_n2):
        if H_cond:
            H_arr[H_tgt] = H_val
"""


def _flat(stmts):
    """statements of a body with `with` blocks opened (their order of execution)"""
    out = []
    for st in _live(stmts):
        if isinstance(st, ast.With):
            out += _flat(st.body)
        else:
            out.append(st)
    return out


def _touches_data(st):
    for nd in ast.walk(st):
        if isinstance(nd, ast.Attribute) and isinstance(nd.value, ast.Name) and nd.value.id == "self" and nd.attr in ("data", "_data"):
            return True
        if isinstance(nd, ast.Call) and ast.unparse(nd.func) in ("self.updateStructure", "self.add_dephasing", "self.secularize"):
            return True
    return False


def _foerster_init(repo, path, qual, lead, tag, rates_name, always_dephasing):
    fn = _src_of(repo + path, qual)
    seq = [st for st in _flat(fn.body) if _touches_data(st)]
    # 1. the zeroed storage is allocated HERE, first
    if not seq or not (isinstance(seq[0], ast.Assign) and ast.unparse(seq[0].targets[0]) == "self.data"
                       and isinstance(seq[0].value, ast.Call) and ast.unparse(seq[0].value.func) == "numpy.zeros"):
        raise Untranslatable("%s: the first statement touching self.data is not `self.data = numpy.zeros(...)`" % qual)
    shape = seq[0].value.args[0]
    dims = [ast.unparse(x) for x in shape.elts] if isinstance(shape, ast.Tuple) else []
    if dims != (["Nt"] if lead else []) + ["Na"] * 4:
        raise Untranslatable("%s: zero tensor of shape %s" % (qual, ast.unparse(shape)))
    # 2. the fill loop
    if len(seq) < 3:
        raise Untranslatable("%s: %d statements touch the tensor" % (qual, len(seq)))
    env = _unify_stmts(T_FILL_LOOP, [seq[1]], qual)
    if ast.unparse(env["H_arr"]) != "self.data":
        raise Untranslatable("%s fills %s" % (qual, ast.unparse(env["H_arr"])))
    nat = NatExpr({"aa": "aa", "bb": "bb"})
    rex = RingExpr(nat, {"self.data"}, lead)
    fake = ast.Subscript(value=ast.parse("self.data", mode="eval").body, slice=env["H_tgt"])
    val = env["H_val"]
    # the value: rates[aa,bb] (static: frm.data[aa,bb]; time dependent: KK[:,aa,bb])
    if not (isinstance(val, ast.Subscript) and ast.unparse(val.value) == rates_name):
        raise Untranslatable("%s: filled with %s" % (qual, ast.unparse(val)))
    vidx = _idx_list(val.slice)
    if lead:
        if not (len(vidx) == 3 and _is_full_slice(vidx[0])):
            raise Untranslatable("%s: rate subscript %s" % (qual, ast.unparse(val)))
        vidx = vidx[1:]
    if len(vidx) != 2:
        raise Untranslatable("%s: rate subscript %s" % (qual, ast.unparse(val)))
    # 3. completion: updateStructure(), then the pure dephasing (always / if self.pure_dephasing)
    rest = seq[2:]
    if ast.unparse(rest[0]) != "self.updateStructure()":
        raise Untranslatable("%s: after the fill loop comes %s" % (qual, ast.unparse(rest[0])[:60]))
    deph = rest[1:]
    if always_dephasing:
        ok = len(deph) == 1 and ast.unparse(deph[0]) == "self.add_dephasing()"
    else:
        ok = (len(deph) == 1 and isinstance(deph[0], ast.If) and ast.unparse(deph[0].test) == "self.pure_dephasing"
              and [ast.unparse(x) for x in _live(deph[0].body)] == ["self.add_dephasing()"] and not deph[0].orelse)
    if not ok:
        raise Untranslatable("%s: completion statements %s" % (qual, [ast.unparse(x)[:40] for x in deph]))
    d = dict(tag=tag, n1=nat.e(env["H_n1"]), n2=nat.e(env["H_n2"]), cond=nat.b(env["H_cond"]), tgt=_tuple4(nat, rex.tens(fake)),
             val="(K %s %s)" % (nat.e(vidx[0]), nat.e(vidx[1])), upd="gen_update%s" % ("5" if lead else "4"), deph="gen_dephasing%s" % tag)
    return """
  Definition f%(tag)s_n1 : nat := %(n1)s.
  Definition f%(tag)s_n2 : nat := %(n2)s.
  Definition f%(tag)s_cond (aa bb : nat) : bool := %(cond)s.
  Definition f%(tag)s_tgt (aa bb : nat) : idx4 := %(tgt)s.
  Definition f%(tag)s_val (K : @mat R) (aa bb : nat) : R := %(val)s.
  (* initialize(): zero tensor, fill loop, updateStructure() *)
  Definition gen_foerster_init%(tag)s (K : @mat R) : @tens R :=
    %(upd)s (gs_skel f%(tag)s_n1 f%(tag)s_n2 f%(tag)s_cond f%(tag)s_tgt (f%(tag)s_val K) (fun _ _ _ _ => r0 R)).
  Lemma gen_foerster_fill%(tag)s_is_model K a b c d : (a < n)%%nat -> (c < n)%%nat ->
    gs_skel f%(tag)s_n1 f%(tag)s_n2 f%(tag)s_cond f%(tag)s_tgt (f%(tag)s_val K) (fun _ _ _ _ => r0 R) a b c d = rates_to_tensor K a b c d.
  Proof.
    intros Ha Hc. apply (gs_skel_is_model n); try assumption; intros; unfold f%(tag)s_n1, f%(tag)s_n2, f%(tag)s_cond, f%(tag)s_tgt, f%(tag)s_val;
      first [reflexivity | (rewrite Nat.eqb_sym; reflexivity)].
  Qed.
  Lemma gen_foerster_init%(tag)s_is_model K a b c d : (a < n)%%nat -> (b < n)%%nat -> (c < n)%%nat -> (d < n)%%nat ->
    gen_foerster_init%(tag)s K a b c d = foerster_tensor n half K a b c d.
  Proof.
    intros Ha Hb Hc Hd. unfold gen_foerster_init%(tag)s, foerster_tensor. rewrite %(upd)s_is_model by assumption.
    apply (update_structure_ext n half); try assumption.
    intros x y z w Hx Hy Hz Hw. apply gen_foerster_fill%(tag)s_is_model; assumption.
  Qed.
  (* ... and with the pure dephasing of add_dephasing() on top *)
  Definition gen_foerster_full%(tag)s (h : nat -> R) (K : @mat R) : @tens R := %(deph)s h (gen_foerster_init%(tag)s K).
  Lemma gen_foerster_full%(tag)s_is_model h K a b c d : (a < n)%%nat -> (b < n)%%nat -> (c < n)%%nat -> (d < n)%%nat ->
    gen_foerster_full%(tag)s h K a b c d = add_dephasing DephRepaired h (foerster_tensor n half K) a b c d.
  Proof.
    intros Ha Hb Hc Hd. unfold gen_foerster_full%(tag)s. rewrite %(deph)s_is_model by assumption.
    unfold add_dephasing. rewrite gen_foerster_init%(tag)s_is_model by assumption. reflexivity.
  Qed.
""" % d


def foerster_init(repo):
    return (_foerster_init(repo, "/quantarhei/qm/liouvillespace/foerstertensor.py", "FoersterRelaxationTensor.initialize", 0, "S", "frm.data", False)
            + _foerster_init(repo, "/quantarhei/qm/liouvillespace/tdfoerstertensor.py", "TDFoersterRelaxationTensor.initialize", 1, "T", "KK", True))


C01X_FILE = """
(* ---- second part, GENERATED by harness/translate_c01.py: completion loops and glue (skeletons of Proofs/C01gen.v) ---- *)
From Coq Require Import Lia.
From QV Require Import Proofs.C01gen.
Section Gen2.
  Context {R : StarRing}.
  Add Ring Rr2 : (rth R).
  Variable n : nat.
  Variable half : R.
%s
End Gen2.
"""


def extra(repo):
    parts = [update_structure(repo),
             _add_dephasing(repo, "/quantarhei/qm/liouvillespace/foerstertensor.py", "FoersterRelaxationTensor.add_dephasing", 0, "S"),
             _add_dephasing(repo, "/quantarhei/qm/liouvillespace/tdfoerstertensor.py", "TDFoersterRelaxationTensor.add_dephasing", 1, "T"),
             rf_add(repo), redfield_glue(repo), lindblad_glue(repo), foerster_init(repo)]
    what = ["relaxationtensor.py:RelaxationTensor.updateStructure (both branches: loops, targets, right-hand sides)",
            "foerstertensor.py:FoersterRelaxationTensor.add_dephasing (update loop)",
            "tdfoerstertensor.py:TDFoersterRelaxationTensor.add_dephasing (update loop)",
            "redfieldfoerster.py:RedfieldFoersterRelaxationTensor._reference_implementation (rate-adding loop)",
            "redfieldtensor.py:RedfieldRelaxationTensor._convert_operators_2_tensor / _implementation / _post_implementation (Kd, Ld, argument order)",
            "lindbladform.py:LindbladForm._implementation (llm, lld, hand-over)",
            "foerstertensor.py:FoersterRelaxationTensor.initialize / tdfoerstertensor.py:TDFoersterRelaxationTensor.initialize (zero allocation first, "
            "fill loop, updateStructure, pure dephasing)"]
    return C01X_FILE % "\n".join(parts), what
