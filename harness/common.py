# -*- coding: utf-8 -*-
"""Shared machinery of the /verif checks (see DESIGN.md section 3).

Everything a property check needs that is not specific to the property:

* environment isolation for the implementation under test (HOME, PYTHONPATH ...)
* deterministic PRNG derived from VERIF_SEED
* exact encoding of Python numbers as Coq literals (Z, Q, Gaussian integers / rationals)
* building the Coq development, re-checking ``Props/<id>.v`` and parsing the
  ``Print Assumptions`` blocks (= proof obligations of the property)
* evaluating generated ``cases_k.v`` files with ``coqc`` (``vm_compute`` inside Coq)
* verdict logic: violations, known findings, replay files, evidence files
"""
import os
import sys
import re
import json
import time
import hashlib
import random
import shutil
import subprocess
import fcntl
from fractions import Fraction

VERIF = os.path.dirname(os.path.dirname(os.path.abspath(__file__)))
REPO = os.environ.get("VERIF_REPO", "/repo")
COQDIR = os.path.join(VERIF, "coq")
WORK = os.path.join(VERIF, ".work")
if os.environ.get("VERIF_WORK"):       # a separate scratch root, so that a run against another tree cannot collide with a run against /repo
    WORK = os.environ["VERIF_WORK"]
PY = "/venv/bin/python"

FORBIDDEN = re.compile(
    r"\b(Admitted|admit|Axiom|Axioms|Parameter|Parameters|Conjecture|Conjectures|"
    r"Admit Obligations|bypass_check|Unset Guard Checking|Unset Positivity Checking|"
    r"Unset Universe Checking|native_compute)\b|type-in-type|impredicative-set")

# axioms of the Coq standard library that may appear (named in DESIGN.md section 5)
STDLIB_AXIOMS = {
    "ClassicalDedekindReals.sig_forall_dec",
    "ClassicalDedekindReals.sig_not_dec",
    "FunctionalExtensionality.functional_extensionality_dep",
    "Classical_Prop.classic",
}


# ----------------------------------------------------------------------------------------
#  environment
# ----------------------------------------------------------------------------------------

def reexec_isolated(pid):
    """Re-executes the running script under /venv's python with an isolated environment.

    quantarhei's Manager is a singleton that reads and writes ~/.quantarhei/*.json; HOME is
    therefore pointed to a scratch directory that is emptied for every run.
    """
    work = os.path.join(WORK, pid)
    if os.environ.get("VERIF_ISOLATED") == pid:
        return work
    shutil.rmtree(work, ignore_errors=True)
    os.makedirs(os.path.join(work, "home"), exist_ok=True)
    env = dict(os.environ)
    env.update({
        "VERIF_ISOLATED": pid,
        "VERIF_REALHOME": os.environ.get("HOME", "/root"),
        "HOME": os.path.join(work, "home"),
        "PYTHONPATH": REPO,
        "PYTHONHASHSEED": "0",
        "MPLBACKEND": "Agg",
        "PYTHONWARNINGS": "ignore",
        "PYTHONDONTWRITEBYTECODE": "1",
        "OMP_NUM_THREADS": "1",
        "OPENBLAS_NUM_THREADS": "1",
        "MKL_NUM_THREADS": "1",
        "QUANTARHEI_VERIF": "1",
    })
    os.execve(PY, [PY, "-W", "ignore"] + sys.argv, env)


def seed():
    try:
        return int(os.environ.get("VERIF_SEED", "20260926"))
    except ValueError:
        return 20260926


def rng(tag=""):
    h = hashlib.sha256(("%d/%s" % (seed(), tag)).encode()).hexdigest()
    return random.Random(int(h[:16], 16))


# ----------------------------------------------------------------------------------------
#  Coq literals
# ----------------------------------------------------------------------------------------

def zlit(n):
    n = int(n)
    return "(%d)" % n if n < 0 else "%d" % n


def nlit(n):
    return "%d" % int(n)


def frac(x):
    """exact rational value of a Python number (float, int, Fraction)"""
    if isinstance(x, Fraction):
        return x
    if isinstance(x, int):
        return Fraction(x)
    import numpy
    if isinstance(x, (numpy.integer,)):
        return Fraction(int(x))
    x = float(x)
    if x != x or x in (float("inf"), float("-inf")):
        raise ValueError("non-finite value cannot be encoded: %r" % x)
    return Fraction(*x.as_integer_ratio())


def qlit(x):
    """Coq term of type Q (num # den); the models normalise with Qred / Q2Qc"""
    f = frac(x)
    return "(Qmake %s %d)" % (zlit(f.numerator), f.denominator)


def gz(z):
    """Gaussian integer literal (re, im) : Z*Z from a python complex/float with integral parts"""
    z = complex(z)
    re_, im_ = z.real, z.imag
    if re_ != int(re_) or im_ != int(im_):
        raise ValueError("not a Gaussian integer: %r" % (z,))
    return "(%s,%s)" % (zlit(int(re_)), zlit(int(im_)))


def gq(z):
    z = complex(z)
    return "(%s,%s)" % (qlit(z.real), qlit(z.imag))


def clist(items):
    return "[" + "; ".join(items) + "]"


def mat_lit(a, elem=gz):
    """2-index array -> list (list C)"""
    return clist([clist([elem(x) for x in row]) for row in a])


def tens_lit(a, elem=gz):
    """n-index array -> nested lists"""
    import numpy
    a = numpy.asarray(a)
    if a.ndim == 1:
        return clist([elem(x) for x in a])
    return clist([tens_lit(a[i], elem) for i in range(a.shape[0])])


# ----------------------------------------------------------------------------------------
#  Coq build and evaluation
# ----------------------------------------------------------------------------------------

def _run(cmd, cwd=None, timeout=900, env=None):
    t0 = time.time()
    try:
        p = subprocess.run(cmd, cwd=cwd, stdout=subprocess.PIPE, stderr=subprocess.STDOUT,
                           timeout=timeout, env=env)
        return p.returncode, p.stdout.decode("utf-8", "replace"), time.time() - t0
    except subprocess.TimeoutExpired as e:
        out = (e.stdout or b"").decode("utf-8", "replace")
        return 124, out + "\nTIMEOUT after %s s" % timeout, time.time() - t0


def coq_env():
    env = dict(os.environ)
    env["HOME"] = os.environ.get("VERIF_REALHOME", "/root")
    return env


def ensure_makefile():
    mk = os.path.join(COQDIR, "Makefile")
    cp = os.path.join(COQDIR, "_CoqProject")
    if (not os.path.exists(mk)) or os.path.getmtime(mk) < os.path.getmtime(cp):
        _run(["coq_makefile", "-f", "_CoqProject", "-o", "Makefile"], cwd=COQDIR, env=coq_env())


def scan_forbidden():
    """greps the development for anything that would weaken the kernel's verdict"""
    hits = []
    for root, _, files in os.walk(os.path.join(COQDIR, "theories")):
        for f in sorted(files):
            if not f.endswith(".v"):
                continue
            path = os.path.join(root, f)
            text = open(path).read()
            # strip comments (non-nested is enough: we never nest)
            text_nc = re.sub(r"\(\*.*?\*\)", lambda m: " " * len(m.group(0)), text, flags=re.S)
            for m in FORBIDDEN.finditer(text_nc):
                line = text_nc.count("\n", 0, m.start()) + 1
                hits.append("%s:%d:%s" % (os.path.relpath(path, VERIF), line, m.group(0)))
            # Variable/Hypothesis outside a section
            depth = 0
            for ln, l in enumerate(text_nc.split("\n"), 1):
                s = l.strip()
                if re.match(r"^(Section|Module)\s", s):
                    if s.startswith("Section"):
                        depth += 1
                elif re.match(r"^End\s", s):
                    depth = max(0, depth - 1)
                elif depth == 0 and re.match(r"^(Variable|Variables|Hypothesis|Hypotheses|Context)\b", s):
                    hits.append("%s:%d:top-level %s" % (os.path.relpath(path, VERIF), ln, s.split()[0]))
    cp = open(os.path.join(COQDIR, "_CoqProject")).read()
    if FORBIDDEN.search(cp):
        hits.append("_CoqProject: forbidden flag")
    return hits


def coq_obligations(pid, allowed_axioms=()):
    """Builds Props/<pid>.vo (and what it needs), re-checks the file and parses the
    Print Assumptions output.  Returns a dict describing the obligations."""
    t0 = time.time()
    ensure_makefile()
    target = "theories/Props/%s.vo" % pid
    os.makedirs(WORK, exist_ok=True)
    os.makedirs(os.path.join(VERIF, ".work"), exist_ok=True)
    with open(os.path.join(VERIF, ".work", ".coqlock"), "w") as lock:
        fcntl.flock(lock, fcntl.LOCK_EX)
        # the property's theorem file and every executable model (the generated case files import models that the
        # theorem file does not depend on, e.g. Model/C04x, Model/C07: they must never be stale)
        import glob
        models = sorted("theories/Model/" + os.path.basename(f)[:-2] + ".vo"
                        for f in glob.glob(os.path.join(COQDIR, "theories", "Model", "*.v")))
        listed = set(l.strip() for l in open(os.path.join(COQDIR, "_CoqProject")) if l.strip().endswith(".v"))
        models = [m for m in models if m[:-1] in listed]
        rc, out, _ = _run(["timeout", "3000", "make", "-j8", target] + models, cwd=COQDIR,
                          timeout=3100, env=coq_env())
        fcntl.flock(lock, fcntl.LOCK_UN)
    src = os.path.join(COQDIR, "theories", "Props", pid + ".v")
    text = open(src).read()
    text_nc = re.sub(r"\(\*.*?\*\)", "", text, flags=re.S)
    theorems = re.findall(r"^\s*(?:Theorem|Corollary)\s+([A-Za-z0-9_']+)", text_nc, flags=re.M)
    printed = re.findall(r"^\s*Print Assumptions\s+([A-Za-z0-9_'.]+)\s*\.", text_nc, flags=re.M)
    res = {"property": pid, "theorems": theorems, "build_rc": rc, "build_tail": out[-3000:] if rc else "",
           "assumptions": {}, "forbidden": scan_forbidden(), "ok": False}
    if rc != 0:
        res["wall_s"] = time.time() - t0
        res["obligations"] = max(1, len(theorems))
        res["discharged"] = 0
        res["broken"] = ["build of %s failed" % target]
        return res
    # re-check the property file on its own to capture Print Assumptions
    outdir = os.path.join(WORK, pid)
    os.makedirs(outdir, exist_ok=True)
    rc2, out2, _ = _run(["timeout", "900", "coqc", "-Q", "theories", "QV", "-o",
                         os.path.join(outdir, pid + ".vo"), src], cwd=COQDIR,
                        timeout=1000, env=coq_env())
    blocks = []
    cur = None
    for line in out2.split("\n"):
        if line.startswith("Closed under the global context"):
            blocks.append([])
            cur = None
        elif line.startswith("Axioms:"):
            cur = []
            blocks.append(cur)
        elif cur is not None and line.strip():
            if re.match(r"^\S", line):
                m = re.match(r"^([A-Za-z0-9_'.]+)\s*:", line)
                if m:
                    cur.append(m.group(1))
    broken = []
    if rc2 != 0:
        broken.append("re-check of Props/%s.v failed: %s" % (pid, out2[-1500:]))
    if len(blocks) != len(printed):
        broken.append("Print Assumptions blocks %d != commands %d" % (len(blocks), len(printed)))
    allowed = set(allowed_axioms)
    discharged = 0
    notprinted = [t for t in theorems if t not in printed]
    for t in notprinted:
        broken.append("theorem %s has no Print Assumptions" % t)
    for name, ax in zip(printed, blocks):
        res["assumptions"][name] = ax
        bad = [a for a in ax if a not in allowed]
        if bad:
            broken.append("theorem %s depends on undeclared axioms %s" % (name, bad))
        elif name in theorems:
            discharged += 1
    if res["forbidden"]:
        broken.append("forbidden constructs: %s" % res["forbidden"][:5])
        discharged = 0
    res["obligations"] = len(theorems)
    res["discharged"] = discharged if not broken or discharged < len(theorems) else discharged
    res["broken"] = broken
    res["ok"] = (not broken) and discharged == len(theorems) and len(theorems) > 0
    res["wall_s"] = time.time() - t0
    return res


def coq_eval(pid, shards, timeout=1200, jobs=16):
    """Evaluates generated Coq files.  ``shards`` is a list of file contents; returns a list
    of (rc, output) in the same order.  The files live in .work/<pid>/ and are removed by the
    caller's cleanup."""
    outdir = os.path.join(WORK, pid, "cases")
    shutil.rmtree(outdir, ignore_errors=True)
    os.makedirs(outdir, exist_ok=True)
    procs = []
    results = [None] * len(shards)
    pending = list(enumerate(shards))
    running = []
    env = coq_env()
    while pending or running:
        while pending and len(running) < jobs:
            k, text = pending.pop(0)
            path = os.path.join(outdir, "cases_%d.v" % k)
            with open(path, "w") as f:
                f.write(text)
            logf = open(path + ".log", "w")
            p = subprocess.Popen(["timeout", str(timeout), "coqc", "-Q",
                                  os.path.join(COQDIR, "theories"), "QV", path],
                                 cwd=outdir, stdout=logf, stderr=subprocess.STDOUT, env=env)
            running.append((k, p, logf, path))
        still = []
        for (k, p, logf, path) in running:
            rc = p.poll()
            if rc is None:
                still.append((k, p, logf, path))
            else:
                logf.close()
                results[k] = (rc, open(path + ".log").read())
        running = still
        if running:
            time.sleep(0.05)
    # a shard killed by its time limit (an overloaded machine: the evaluations are deterministic and take seconds) is evaluated
    # once more, alone and with three times the limit, before its failure is believed
    for k, res in enumerate(results):
        if res is not None and res[0] == 124:
            path = os.path.join(outdir, "cases_%d.v" % k)
            with open(path + ".log", "w") as logf:
                rc = subprocess.call(["timeout", str(3 * timeout), "coqc", "-Q", os.path.join(COQDIR, "theories"), "QV", path],
                                     cwd=outdir, stdout=logf, stderr=subprocess.STDOUT, env=env)
            results[k] = (rc, open(path + ".log").read() + ("\nTIMEOUT (twice)" if rc == 124 else ""))
    return results


def parse_evals(out):
    """Splits coqc output into the values printed by successive ``Eval ... in`` commands.
    Returns the list of value strings (whitespace normalised, type annotation removed)."""
    vals = []
    cur = None
    for line in out.split("\n"):
        if line.startswith("     = "):
            if cur is not None:
                vals.append(cur)
            cur = line[7:]
        elif cur is not None:
            if line.startswith("     : "):
                vals.append(cur)
                cur = None
            else:
                cur += " " + line.strip()
    if cur is not None:
        vals.append(cur)
    return [re.sub(r"\s+", " ", v).strip() for v in vals]


def parse_natlist(v):
    v = v.strip()
    m = re.match(r"^\[(.*)\]$", v)
    if not m:
        raise ValueError("not a list: %r" % v[:200])
    body = m.group(1).strip()
    if not body:
        return []
    return [int(x.replace("%nat", "").replace("%Z", "").replace("%N", "").strip(" ()")) for x in body.split(";")]


HEADER = """From Coq Require Import ZArith List Bool QArith Qabs.
Import ListNotations.
Open Scope Z_scope.
"""


# ----------------------------------------------------------------------------------------
#  verdict
# ----------------------------------------------------------------------------------------

def load_known():
    p = os.path.join(VERIF, "known_findings.json")
    if not os.path.exists(p):
        return {"known": [], "fixed": []}
    return json.load(open(p))


class Check:
    """Accumulates what one run of one property check did and produces verdict, replay and
    evidence files."""

    def __init__(self, pid, tier, allowed_axioms=()):
        self.pid = pid
        self.tier = tier
        self.t0 = time.time()
        self.violations = []      # dicts: signature, what, kind, input, found_input(bool)
        self.evaluations = 0
        self.nontrivial = set()
        self.samples = []
        self.dist = {}
        self.notes = []
        self.assumptions = []
        self.rule = ""
        self.allowed_axioms = tuple(allowed_axioms)
        self.oblig = None
        self.extra = {}
        self.corr = {"cases": 0, "disagreements": 0}

    # -- bookkeeping ---------------------------------------------------------------
    def count(self, key, n=1):
        self.dist[key] = self.dist.get(key, 0) + n

    def case(self, canon, nontrivial=True, sample=None):
        self.evaluations += 1
        if nontrivial:
            self.nontrivial.add(hashlib.sha1(repr(canon).encode()).hexdigest())
        if sample is not None and len(self.samples) < 6:
            self.samples.append(sample)

    def violation(self, signature, what, kind, inp=None, found_input=True):
        self.violations.append({"signature": signature, "what": what, "kind": kind,
                                "input": inp, "found_input": found_input})

    def prove(self):
        self.oblig = coq_obligations(self.pid, self.allowed_axioms)
        if not self.oblig["ok"]:
            self.violation("proof:" + self.pid, "proof obligations of Props/%s.v no longer check: %s"
                           % (self.pid, "; ".join(self.oblig["broken"])[:1500]), "proof",
                           inp={"theorems": self.oblig["theorems"], "broken": self.oblig["broken"]},
                           found_input=False)
        return self.oblig

    # -- finish --------------------------------------------------------------------
    def finish(self):
        known = load_known()
        ksigs = {}
        for k in known.get("known", []):
            if k.get("property") == self.pid:
                ksigs[k["signature"]] = k
        real = []
        seen_known = {}
        for v in self.violations:
            if v["signature"] in ksigs:
                seen_known.setdefault(v["signature"], v)
            else:
                real.append(v)
        for sig, v in sorted(seen_known.items()):
            print("KNOWN-FINDING: property=%s %s [%s]" % (self.pid, ksigs[sig]["what"], sig))
        # an input-bearing violation supersedes 'no-failing-input-found' ones
        have_input = any(v["found_input"] for v in real)
        os.makedirs(os.path.join(VERIF, "replays"), exist_ok=True)
        by_sig = {}
        for v in real:
            by_sig.setdefault(v["signature"], v)
        lines = []
        for sig, v in sorted(by_sig.items()):
            h = hashlib.sha1((self.pid + sig + json.dumps(v["input"], sort_keys=True, default=str)).encode()).hexdigest()[:12]
            path = os.path.join(VERIF, "replays", "%s-%s.json" % (self.pid, h))
            with open(path, "w") as f:
                json.dump({"property": self.pid, "signature": sig, "kind": v["kind"], "what": v["what"],
                           "input": v["input"], "found_input": v["found_input"], "seed": seed(),
                           "tier": self.tier}, f, indent=1, default=str)
            tail = "" if (v["found_input"]) else " no-failing-input-found"
            if (not v["found_input"]) and have_input:
                # the broken correspondence is explained by a concrete failing input reported below
                continue
            lines.append("VIOLATION property=%s replay=%s%s" % (self.pid, path, tail))
            print("  what: " + v["what"][:600])
        self.write_evidence(len(by_sig), sorted(seen_known))
        for l in lines:
            print(l)
        status = 1 if lines else 0
        print("[%s] %s tier=%s evaluations=%d distinct_nontrivial=%d obligations=%s/%s wall=%.1fs"
              % (self.pid, "FAIL" if status else "ok", self.tier, self.evaluations, len(self.nontrivial),
                 self.oblig and self.oblig["discharged"], self.oblig and self.oblig["obligations"],
                 time.time() - self.t0))
        shutil.rmtree(os.path.join(WORK, self.pid), ignore_errors=True)
        sys.stdout.flush()
        sys.exit(status)

    def write_evidence(self, nviol, known_seen):
        ob = self.oblig or {"obligations": 0, "discharged": 0, "assumptions": {}, "theorems": []}
        tb = ["Coq 8.16.1 kernel + coqc; vm_compute (no native_compute)",
              "hand-written Gallina model coq/theories/Model/%s*.v tied to /repo by the correspondence "
              "check of this run (differential execution, reach = generator)" % self.pid,
              "python harness /verif/harness (generators, exact rational encoding, verdict)",
              "CPython/NumPy/SciPy executing the implementation"]
        for name, ax in sorted(ob.get("assumptions", {}).items()):
            tb.append("Print Assumptions %s: %s" % (name, ", ".join(ax) if ax else "Closed under the global context"))
        cov = {
            "obligations": ob["obligations"], "discharged": ob["discharged"],
            "checker_cmd": "make -C /verif/coq theories/Props/%s.vo && coqc -Q theories QV theories/Props/%s.v "
                           "(Print Assumptions parsed); coqc on generated cases_k.v for the correspondence" % (self.pid, self.pid),
            "trusted_base": tb,
            "theorems": ob.get("theorems", []),
            "evaluations": self.evaluations,
            "distinct_nontrivial": len(self.nontrivial),
            "rule": self.rule,
            "samples": self.samples if self.samples else ["(no case reached)"],
            "distribution": self.dist,
            "correspondence": self.corr,
            "known_findings_seen": known_seen,
            "notes": self.notes,
            "anchor_fingerprints": fingerprints(self.pid),
            "escalated_because_changed": list(ESCALATED),
        }
        cov.update(self.extra)
        ev = {"property_id": self.pid, "tier": self.tier, "seed": seed(), "level": "proof",
              "coverage": cov, "assumptions": self.assumptions, "wall_s": round(time.time() - self.t0, 2),
              "violations": nviol}
        # evidence describes runs against /repo itself; a run against another tree (VERIF_REPO: seeded changes, scratch
        # worktrees) writes its evidence under .work/ so that it can never be mistaken for (or committed as) the real one
        evdir = (os.path.join(VERIF, "evidence") if (os.path.realpath(REPO) == "/repo" and not REPLAYING)
                 else os.path.join(WORK, "evidence_other_tree" if not REPLAYING else "evidence_replay"))
        ev["repo"] = os.path.realpath(REPO)
        os.makedirs(evdir, exist_ok=True)
        with open(os.path.join(evdir, self.pid + ".json"), "w") as f:
            json.dump(ev, f, indent=1, default=str)


# ----------------------------------------------------------------------------------------
#  source fingerprints of the anchored files (DESIGN.md 3.2): a changed anchor deepens the run
# ----------------------------------------------------------------------------------------

def anchored_files(pid):
    for l in open(os.path.join(VERIF, "properties.jsonl")):
        d = json.loads(l)
        if d["id"] == pid:
            return list(d.get("anchors", {}).get("files", []))
    return []


def file_fingerprint(path):
    """hash of the file's AST (comments and layout do not count); of the bytes if it does not parse"""
    import ast
    try:
        src = open(path, "rb").read()
    except OSError:
        return "missing"
    try:
        import warnings
        with warnings.catch_warnings():
            warnings.simplefilter("ignore")
            return hashlib.sha1(ast.dump(ast.parse(src)).encode()).hexdigest()
    except Exception:
        return "raw:" + hashlib.sha1(src).hexdigest()


def fingerprints(pid):
    return {f: file_fingerprint(os.path.join(REPO, f)) for f in anchored_files(pid)}


def changed_anchors(pid):
    """anchored files whose AST differs from the one recorded in /verif/fingerprints.json (committed; written only by
    harness/fingerprints.py --update). No record -> no escalation."""
    p = os.path.join(VERIF, "fingerprints.json")
    if not os.path.exists(p):
        return []
    rec = json.load(open(p)).get(pid)
    if not rec:
        return []
    cur = fingerprints(pid)
    return sorted(f for f in cur if rec.get(f) != cur[f])


ESCALATED = []
REPLAYING = []


def parse_args(argv):
    import argparse
    ap = argparse.ArgumentParser()
    ap.add_argument("pid")
    ap.add_argument("--tier", default=os.environ.get("VERIF_TIER", "quick"), choices=["quick", "thorough"])
    ap.add_argument("--replay", default=None)
    a = ap.parse_args(argv)
    if a.replay:
        REPLAYING.append(a.replay)
    if a.tier == "quick" and not a.replay and os.environ.get("VERIF_NO_ESCALATE") != "1":
        ch = changed_anchors(a.pid)
        if ch:
            # the code this property is anchored in is not the code the model was last validated against:
            # explore with the thorough budget (a change that needs a rare input to manifest is the case to catch)
            # First the ordinary quick pass (in a child process): whatever it finds is reported at once.  Only when it is
            # clean does this process go on with the thorough budget.
            print("[%s] anchored source changed since the recorded fingerprints (%s): quick pass first, then the thorough budget"
                  % (a.pid, ", ".join(ch[:4]) + (" ..." if len(ch) > 4 else "")), flush=True)
            import subprocess
            pr = subprocess.Popen([sys.executable, "-W", "ignore", os.path.abspath(sys.argv[0])] + list(argv),
                                  env=dict(os.environ, VERIF_NO_ESCALATE="1"), stdout=subprocess.PIPE, text=True)
            vlines = []
            for line in pr.stdout:
                sys.stdout.write(line)
                sys.stdout.flush()
                if line.startswith("VIOLATION "):
                    vlines.append(line.strip())
            rc = pr.wait()
            if rc != 0 and not (vlines and all(v.endswith("no-failing-input-found") for v in vlines)):
                sys.exit(rc)
            if rc != 0:
                # only a proof obligation / the correspondence broke, no concrete input yet: the thorough budget goes on searching
                # for one (this run reports the broken obligation again, so the verdict stays a violation)
                print("[%s] quick pass reported broken obligations without a failing input: searching with the thorough budget" % a.pid,
                      flush=True)
            # the child removed the property's scratch directory when it finished; this process still needs its HOME
            if os.environ.get("VERIF_ISOLATED") == a.pid:
                os.makedirs(os.environ["HOME"], exist_ok=True)
            ESCALATED.extend(ch)
            if rc == 0:
                print("[%s] quick pass clean on the changed source: running with the thorough budget" % a.pid, flush=True)
            a.tier = "thorough"
    return a
