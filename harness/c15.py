# -*- coding: utf-8 -*-
"""C15 - propagation results are functions of their inputs only.

Proof: coq/theories/Props/C15.v - an effect model: every API call (tensor construction, propagate of the
density-matrix / state-vector / population / hierarchy propagators, EvolutionSuperOperator.calculate, rate
matrices) is a straight-line program over the fields of the shared objects, with the numerical kernels left
uninterpreted; theorems (for every interpretation of the kernels and every history of calls): input fields
keep their values, and the result of a call after any history equals its result before the history.

Tie: random histories of calls on ONE set of shared objects (system, Hamiltonian, system-bath interaction,
tensors, states, propagators, hierarchy, evolution superoperator).  Around every call a deep snapshot
(recursive attribute walk, arrays by value) of all shared objects is taken; the set of changed fields and
the equality classes of the results along the history are compared inside Coq with the model run on the
free term interpretation (exact).  Monitors: inputs bit-identical before/after every call; the result of
every call bit-identical to the same call on freshly built objects; unmodelled changed attribute -> violation.
"""
import os
import sys
import json
import hashlib
import traceback

sys.path.insert(0, os.path.dirname(os.path.abspath(__file__)))
import common as cm

PID = "C15"


# ========================================================================================
#  deep snapshot
# ========================================================================================

def _ahash(a):
    import numpy
    a = numpy.ascontiguousarray(a)
    return "A:%s:%s:%s" % (a.dtype.str, a.shape, hashlib.sha1(a.tobytes()).hexdigest()[:16])


SKIP_TYPES = None


def snapshot(roots, keep_arrays=False, skip=()):
    """roots: ordered dict name -> object.  Returns dict path -> value token (str); arrays by value.
    Objects reached twice are recorded as aliases of the first path (not descended again)."""
    import numpy
    import types
    import quantarhei as qr
    from quantarhei.core.managers import Manager
    out = {}
    arrays = {}
    seen = {}

    def walk(path, o, depth):
        if depth > 12:
            out[path] = "DEEP"
            return
        if o is None or isinstance(o, (bool, int, float, complex, str, bytes)):
            out[path] = "S:%r" % (o,)
            return
        if isinstance(o, (numpy.generic,)):
            out[path] = "S:%r" % (o.item(),)
            return
        if isinstance(o, numpy.ndarray):
            if o.dtype == object:
                for i, x in enumerate(o.ravel()):
                    walk("%s[%d]" % (path, i), x, depth + 1)
                out[path] = "OA:%s" % (o.shape,)
                return
            out[path] = _ahash(o)
            if keep_arrays:
                arrays[path] = o.copy()
            return
        if isinstance(o, Manager):
            out[path] = "MANAGER"
            return
        if isinstance(o, (types.FunctionType, types.MethodType, types.ModuleType, type, types.BuiltinFunctionType)):
            out[path] = "CALLABLE"
            return
        oid = id(o)
        if oid in seen:
            out[path] = "ALIAS:" + seen[oid]
            return
        seen[oid] = path
        if isinstance(o, (list, tuple)):
            out[path] = "%s:%d" % (type(o).__name__, len(o))
            for i, x in enumerate(o):
                walk("%s[%d]" % (path, i), x, depth + 1)
            return
        if isinstance(o, dict):
            out[path] = "dict:%d" % len(o)
            for k in sorted(o.keys(), key=repr):
                walk("%s{%r}" % (path, k), o[k], depth + 1)
            return
        if isinstance(o, (set, frozenset)):
            out[path] = "set:%r" % (sorted(map(repr, o)),)
            return
        d = getattr(o, "__dict__", None)
        if d is None:
            out[path] = "O:%s" % type(o).__name__
            return
        out[path] = "O:%s" % type(o).__name__
        for k in sorted(d.keys()):
            if (path, k) in skip:
                continue
            walk(path + "." + k, d[k], depth + 1)
        # class-level defaults (an instance attribute created with the default value is no change)
        for klass in type(o).__mro__:
            for k, v in vars(klass).items():
                if k.startswith("__") or k in d or (path + "." + k) in out:
                    continue
                if v is None or isinstance(v, (bool, int, float, str)):
                    out[path + "." + k] = "S:%r" % (v,)

    # root objects keep their root name wherever they are met first
    for name, o in roots.items():
        if getattr(o, "__dict__", None) is not None or isinstance(o, (list, dict)):
            seen.setdefault(id(o), name)
    for name, o in roots.items():
        if id(o) in seen and seen[id(o)] != name:
            out[name] = "ALIAS:" + seen[id(o)]
            continue
        seen.pop(id(o), None)
        walk(name, o, 0)
        seen[id(o)] = name
    if keep_arrays:
        return out, arrays
    return out


def manager_state():
    from quantarhei.core.managers import Manager
    m = Manager()
    st = {}
    # (_saved_units is the scratch slot of the units contexts themselves - also of the one the harness wraps a call in)
    for k in ("current_units", "basis_stack", "basis_transformations", "current_basis_operator",
              "basis_registered", "_in_eigenbasis_of_context", "_basis_stack", "basis_stack_ids",
              "transformation_matrices", "allowed_basis_ids"):
        if hasattr(m, k):
            v = getattr(m, k)
            try:
                st[k] = repr(v)[:300] if not isinstance(v, dict) else repr(sorted((repr(a), repr(b)[:80]) for a, b in v.items()))[:600]
            except Exception:
                st[k] = "?"
    st["cb"] = m.get_current_basis()
    return st


def diff(a, b):
    ch = []
    for k in sorted(set(a) | set(b)):
        if a.get(k) != b.get(k):
            ch.append(k)
    return ch


# ========================================================================================
#  the world of shared objects
# ========================================================================================

DMKINDS = ["H", "T", "TS", "O", "TD", "TDO", "PD", "PDG", "OPD", "LF", "F", "TDF", "CRF"]
TENSORS = {  # name -> (theory, kwargs)
    "T": ("stR", {}), "TS": ("stR", {"secular_relaxation": True}), "O": ("stR", {"as_operators": True}),
    "TD": ("stR", {"time_dependent": True}), "TDO": ("stR", {"time_dependent": True, "as_operators": True}),
    "F": ("stF", {}), "TDF": ("stF", {"time_dependent": True}), "CRF": ("cRF", {"coupling_cutoff": "CUT"}),
}


def gen_params(r):
    nmol = r.choice([2, 2, 3])
    p = {
        "nmol": nmol,
        "en": [12000 + r.randint(-300, 300) for _ in range(nmol)],
        "J": [[0 if i == j else None for j in range(nmol)] for i in range(nmol)],
        "reorg": r.choice([10, 20, 35, 50]), "cortime": r.choice([50, 80, 100, 150]), "T": r.choice([77, 200, 300]),
        "nsbi": r.choice([60, 80, 120]),
        "nt": r.choice([4, 6, 9, 12]), "step": r.choice([1.0, 2.0, 4.0]),
        "depth": r.choice([1, 2, 3]),
        # coupling cut-off 2^-cut (internal units: 83, 41, 21, 10 1/cm): with a power of two the
        # subtraction and re-addition of the cut-off are exact in floating point (recover law bit-exact)
        "cut": r.choice([6, 7, 8, 9]),
        "dense": r.choice([1, 2, 4]),
        "pd": r.choice([50.0, 100.0, 300.0]),
        "lrate": [round(1.0 / r.choice([50.0, 100.0, 200.0]), 6) for _ in range(2)],
        "seed": r.randint(0, 10 ** 6),
    }
    # initial configuration of the propagators: about half of them get their OWN time step refinement
    # (pr.setDtRefinement(k)) when they are built - part of the world, not a call of the history
    p["refine"] = {}
    for k in ["H", "T", "TS", "O", "TD", "TDO", "F", "TDF", "CRF", "LF", "PD", "PDG", "OPD", "sv"]:
        if r.random() < 0.5:
            opts = [2, 3, 4]
            if k in ("TD", "TDO", "TDF"):
                opts = [d for d in (2, 4) if p["step"] % d == 0]
            if opts:
                p["refine"][k] = r.choice(opts)
    for i in range(nmol):
        for j in range(i + 1, nmol):
            v = r.choice([-1, 1]) * r.randint(15, 160)
            p["J"][i][j] = v
            p["J"][j][i] = v
    return p


class World:
    """Shared objects, built on demand (object construction is itself a recorded call)."""

    def __init__(self, p):
        import numpy
        import quantarhei as qr
        self.p = p
        self.o = {}
        nm = p["nmol"]
        tsbi = qr.TimeAxis(0.0, p["nsbi"], 1.0)
        cpar = dict(ftype="OverdampedBrownian", reorg=p["reorg"], cortime=p["cortime"], T=p["T"])
        with qr.energy_units("1/cm"):
            cf = qr.CorrelationFunction(tsbi, cpar)
            mols = [qr.Molecule([0.0, float(p["en"][i])]) for i in range(nm)]
            for m in mols:
                m.set_transition_environment((0, 1), cf)
            agg = qr.Aggregate(molecules=mols)
            for i in range(nm):
                for j in range(i + 1, nm):
                    agg.set_resonance_coupling(i, j, float(p["J"][i][j]))
        agg.build()
        self.o["agg"] = agg
        self.o["ham"] = agg.get_Hamiltonian()
        self.o["sbi"] = agg.get_SystemBathInteraction()
        self.o["time"] = qr.TimeAxis(0.0, p["nt"], p["step"])
        n = self.o["ham"].dim
        rs = numpy.random.RandomState(p["seed"])
        a = rs.randn(n, n) + 1j * rs.randn(n, n)
        a[0, :] = 0
        a[:, 0] = 0
        rho = a.dot(a.conj().T)
        rho = rho / numpy.trace(rho)
        self.o["rho"] = qr.ReducedDensityMatrix(data=rho)
        v = rs.randn(n) + 1j * rs.randn(n)
        v = v / numpy.linalg.norm(v)
        self.o["psi"] = qr.StateVector(data=v)
        pp = numpy.abs(rs.randn(n))
        self.o["pop"] = pp / pp.sum()
        # further inputs: pure dephasing rates, a second interaction object with Lindblad operators
        for name in ("pdeph", "pdephG", "lsbi"):
            self.build(name)

    # ---- construction of derived objects (each one a call on the shared objects) -------------
    def build(self, name):
        import numpy
        import quantarhei as qr
        from quantarhei.qm import (ReducedDensityMatrixPropagator, StateVectorPropagator, KTHierarchy,
                                   KTHierarchyPropagator, EvolutionSuperOperator, PureDephasing, LindbladForm,
                                   SystemBathInteraction, Operator)
        from quantarhei.qm.propagators.poppropagator import PopulationPropagator
        o, p = self.o, self.p
        agg, ham, sbi, time = o["agg"], o["ham"], o["sbi"], o["time"]
        n = ham.dim
        if name.startswith("rt:") and name != "rt:LF":
            k = name[3:]
            th, kw = TENSORS[k]
            kw = dict(kw)
            if kw.get("coupling_cutoff") == "CUT":
                kw["coupling_cutoff"] = 2.0 ** (-p["cut"])
            rt, hh = agg.get_RelaxationTensor(time, relaxation_theory=th, **kw)
            o["rt:" + k] = rt
            o["rh:" + k] = hh
            return (rt, hh)
        if name == "pdeph" or name == "pdephG":
            dr = numpy.zeros((n, n))
            for i in range(n):
                for j in range(n):
                    if i != j:
                        dr[i, j] = 1.0 / p["pd"] if name == "pdeph" else (1.0 / p["pd"]) ** 2
            o[name] = PureDephasing(drates=dr, dtype="Lorentzian" if name == "pdeph" else "Gaussian")
            return o[name]
        if name == "lsbi":
            ops = []
            for k in range(2):
                kk = numpy.zeros((n, n))
                a, b = (1, 2) if k == 0 else (2, 1)
                kk[a, b] = 1.0
                ops.append(Operator(data=kk))
            o["lsbi"] = SystemBathInteraction(sys_operators=ops, rates=tuple(p["lrate"]))
            o["lsbi"].set_system(agg)
            return o["lsbi"]
        if name == "rt:LF":
            o["rt:LF"] = LindbladForm(ham, o["lsbi"])
            o["rh:LF"] = ham
            return o["rt:LF"]
        if name.startswith("dm:"):
            k = name[3:]
            if k == "H":
                pr = ReducedDensityMatrixPropagator(time, ham)
            elif k in ("PD", "PDG"):
                pr = ReducedDensityMatrixPropagator(time, o["rh:T"], RTensor=o["rt:T"],
                                                    PDeph=o["pdeph" if k == "PD" else "pdephG"])
            elif k == "OPD":
                pr = ReducedDensityMatrixPropagator(time, o["rh:O"], RTensor=o["rt:O"], PDeph=o["pdeph"])
            else:
                pr = ReducedDensityMatrixPropagator(time, o["rh:" + k], RTensor=o["rt:" + k])
            if p.get("refine", {}).get(k, 1) > 1:
                pr.setDtRefinement(p["refine"][k])
            o[name] = pr
            return pr
        if name == "sv":
            o["sv"] = StateVectorPropagator(time, ham)
            if p.get("refine", {}).get("sv", 1) > 1:
                o["sv"].setDtRefinement(p["refine"]["sv"])
            return o["sv"]
        if name == "kk":
            o["kk"] = agg.get_RedfieldRateMatrix()
            return o["kk"]
        if name == "popp":
            o["popp"] = PopulationPropagator(time, rate_matrix=o["kk"])
            return o["popp"]
        if name == "hy":
            o["hy"] = KTHierarchy(ham, sbi, p["depth"])
            return o["hy"]
        if name == "heom":
            o["heom"] = KTHierarchyPropagator(time, o["hy"])
            return o["heom"]
        if name.startswith("eso:"):
            k = name[4:]
            if k == "PDG":
                es = EvolutionSuperOperator(time, o["rh:T"], relt=o["rt:T"], pdeph=o["pdephG"])
            elif k == "PD":
                es = EvolutionSuperOperator(time, o["rh:T"], relt=o["rt:T"], pdeph=o["pdeph"])
            else:
                es = EvolutionSuperOperator(time, o["rh:" + k], relt=o["rt:" + k])
            es.set_dense_dt(p["dense"])
            o[name] = es
            return es
        raise KeyError(name)


def deps(name):
    """objects that have to exist before `name` can be built"""
    if name.startswith("dm:"):
        k = name[3:]
        return {"H": [], "PD": ["rt:T"], "PDG": ["rt:T"], "OPD": ["rt:O"]}.get(k, ["rt:" + k])
    if name.startswith("eso:"):
        k = name[4:]
        return {"PD": ["rt:T"], "PDG": ["rt:T"]}.get(k, ["rt:" + k])
    return {"popp": ["kk"], "heom": ["hy"]}.get(name, [])


def result_arrays(res):
    """canonical list of arrays of a call result (None -> [])"""
    import numpy
    out = []

    def add(x):
        if x is None:
            return
        if isinstance(x, (tuple, list)):
            for y in x:
                add(y)
            return
        if isinstance(x, numpy.ndarray):
            out.append(numpy.array(x))
            return
        for attr in ("_data", "data", "Km", "Lm", "Ld", "Iterm", "hpop"):
            d = getattr(x, "__dict__", {})
            if attr in d and isinstance(d[attr], numpy.ndarray):
                out.append(numpy.array(d[attr]))
        if hasattr(x, "__dict__") and "is_in_rwa" in x.__dict__:
            out.append(numpy.array([1.0 if x.is_in_rwa else 0.0]))
    add(res)
    return out


def do_call(w, c):
    """executes one call descriptor on world w; returns (outcome, result object)"""
    import quantarhei as qr
    o = w.o
    op = c["op"]
    try:
        if op == "build":
            return "ok", w.build(c["name"])
        if op == "reltensor":
            kw = dict(c.get("kw", {}))
            if kw.get("coupling_cutoff") == "CUT":
                kw["coupling_cutoff"] = w.p.get("cut_value", 2.0 ** (-w.p["cut"]))
            return "ok", o["agg"].get_RelaxationTensor(o["time"], relaxation_theory=c["theory"], **kw)
        if op == "dmprop":
            pr = o["dm:" + c["kind"]]
            kw = {}
            if c.get("nref", 0):
                kw["Nref"] = c["nref"]
            if c.get("method"):
                kw["method"] = c["method"]
            return "ok", pr.propagate(o["rho"], **kw)
        if op == "svprop":
            return "ok", o["sv"].propagate(o["psi"], L=c.get("L", 4))
        if op == "popprop":
            return "ok", o["popp"].propagate(o["pop"])
        if op == "ratematrix":
            return "ok", o["agg"].get_RedfieldRateMatrix()
        if op == "heom":
            return "ok", (o["heom"].propagate(o["rho"], report_hierarchy=bool(c.get("report")),
                                              free_hierarchy=bool(c.get("free"))),
                          o["hy"].hpop if c.get("report") else None)
        if op == "eso":
            es = o["eso:" + c["kind"]]
            es.calculate()
            return "ok", es
        raise KeyError(op)
    except Exception as e:
        return "raised:%s" % type(e).__name__, None


# ========================================================================================
#  fields of the model  (order = Model.C15.all_fields)
# ========================================================================================

TK = ["T", "TS", "O", "TD", "TDO", "F", "TDF", "CRF", "LF"]
PK = ["H"] + TK + ["PD", "PDG", "OPD"]
EK = TK + ["PD", "PDG"]
OWN_HAM = ("F", "TDF", "CRF")


def coq_pk(k):
    return {"H": "PH", "PD": "PPD", "PDG": "PPDG", "OPD": "POPD"}.get(k, "(PT %s)" % k)


def coq_ek(k):
    return {"PD": "EPD", "PDG": "EPDG"}.get(k, "(ET %s)" % k)


ALL_FIELDS = (["HamData", "HamJR", "HamHasRem", "HamProt", "HamRest", "Sbi", "CCHofts", "CCGofts", "CCTrans", "LSbi",
               "Time", "Rho", "Psi", "Pop", "PDephL", "PDephG", "Mgr", "SysCache"]
              + ["(Tens %s)" % k for k in TK] + ["(TensHam %s)" % k for k in TK] + ["(TensIt %s)" % k for k in TK]
              + ["(PConf %s)" % coq_pk(k) for k in PK] + ["(PIterm %s)" % coq_pk(k) for k in PK]
              + ["(PExpo %s)" % coq_pk(k) for k in PK] + ["(PRest %s)" % coq_pk(k) for k in PK]
              + ["SvConf", "KK", "PopConf", "HyDesc", "HyAdo", "HyHpop", "HeomConf", "HeomDesc"]
              + ["(EsoData %s)" % coq_ek(k) for k in EK] + ["(EsoRwa %s)" % coq_ek(k) for k in EK]
              + ["(EsoConf %s)" % coq_ek(k) for k in EK])
FIELD_POS = {f: i for i, f in enumerate(ALL_FIELDS)}


def is_input(f):
    """mirror of Model.C15.is_input"""
    if f in ("HamJR", "CCHofts", "CCGofts", "SysCache", "HyAdo", "HyHpop", "HeomConf"):
        return False
    if f.startswith("(PExpo") or f.startswith("(EsoData"):
        return False
    if f.startswith("(PIterm"):
        return not ("(PT TD)" in f or "(PT TDF)" in f)
    if f.startswith("(EsoRwa"):
        return "(ET CRF)" in f
    return True


def field_of(path):
    """model field of a snapshot path; None: not tracked (root alias entries); '?': unmodelled"""
    root, _, rest = path.partition(".")
    if "[" in root and not root.startswith(("rt:", "rh:", "dm:", "eso:")):
        root = root.split("[")[0]
    if root == "mgr":
        return "Mgr"
    if root == "ham":
        return {"_data": "HamData", "JR": "HamJR", "_has_remainder_coupling": "HamHasRem",
                "is_basis_protected": "HamProt"}.get(rest, "HamRest")
    if root == "agg":
        if rest.startswith("#cache") or rest in ("_has_relaxation_tensor", "_relaxation_theory", "has_Iterm"):
            return "SysCache"
        if rest.startswith("egcf_matrix._hofts"):
            return "CCHofts"
        if rest.startswith("egcf_matrix._gofts"):
            return "CCGofts"
        if rest.startswith("egcf_matrix._A4") or rest.startswith("egcf_matrix._is_transformed"):
            return "CCTrans"
        return "Sbi"
    if root == "sbi":
        if rest.startswith("CC._hofts"):
            return "CCHofts"
        if rest.startswith("CC._gofts"):
            return "CCGofts"
        if rest.startswith("CC._A4") or rest.startswith("CC._is_transformed"):
            return "CCTrans"
        return "Sbi"
    simple = {"time": "Time", "rho": "Rho", "psi": "Psi", "pop": "Pop", "pdeph": "PDephL", "pdephG": "PDephG",
              "lsbi": "LSbi", "sv": "SvConf", "kk": "KK", "popp": "PopConf"}
    if root in simple:
        return simple[root]
    if root.startswith("rt:"):
        k = root[3:]
        return "(TensIt %s)" % k if rest == "has_Iterm" else "(Tens %s)" % k
    if root.startswith("rh:"):
        k = root[3:]
        if k in OWN_HAM:
            return "(TensHam %s)" % k
        return None
    if root.startswith("dm:"):
        k = coq_pk(root[3:])
        if rest in ("Nref", "dt"):
            return "(PConf %s)" % k
        if rest == "has_Iterm":
            return "(PIterm %s)" % k
        if rest in ("expo", "t0"):
            return "(PExpo %s)" % k
        return "(PRest %s)" % k
    if root == "hy":
        return {"ado": "HyAdo", "hpop": "HyHpop"}.get(rest, "HyDesc")
    if root == "heom":
        return "HeomConf" if rest == "Nref" else "HeomDesc"
    if root.startswith("eso:"):
        k = coq_ek(root[4:])
        if rest == "_data":
            return "(EsoData %s)" % k
        if rest == "is_in_rwa":
            return "(EsoRwa %s)" % k
        return "(EsoConf %s)" % k
    return "?"


def own_fields(name):
    """fields of the object a build call creates (mirror of Model.C15.own)"""
    if name.startswith("rt:"):
        k = name[3:]
        return {"(Tens %s)" % k, "(TensHam %s)" % k, "(TensIt %s)" % k}
    if name.startswith("dm:"):
        k = coq_pk(name[3:])
        return {"(PConf %s)" % k, "(PIterm %s)" % k, "(PExpo %s)" % k, "(PRest %s)" % k}
    if name.startswith("eso:"):
        k = coq_ek(name[4:])
        return {"(EsoData %s)" % k, "(EsoRwa %s)" % k, "(EsoConf %s)" % k}
    return {"sv": {"SvConf"}, "kk": {"KK"}, "popp": {"PopConf"}, "hy": {"HyDesc", "HyAdo", "HyHpop"},
            "heom": {"HeomConf", "HeomDesc"}}[name]


def coq_shape(c):
    op = c["op"]
    if op == "build":
        n = c["name"]
        if n.startswith("rt:"):
            return "(BuildT %s)" % n[3:]
        if n.startswith("dm:"):
            return "(BuildP %s)" % coq_pk(n[3:])
        if n.startswith("eso:"):
            return "(BuildEso %s)" % coq_ek(n[4:])
        return {"sv": "BuildSv", "kk": "BuildKK", "popp": "BuildPop", "hy": "BuildHy", "heom": "BuildHeom"}[n]
    if op == "reltensor":
        if c["kind"] == "CRFTD":
            return "(RelTFail FailCRFTD)"
        if c["kind"] == "MR":
            return "(RelTFail FailMR)"
        return "(RelT %s)" % c["kind"]
    if op == "ratematrix":
        return "RateM"
    if op == "dmprop":
        return "(DMProp %s %s)" % (coq_pk(c["kind"]), "true" if c.get("nref", 0) > 1 else "false")
    if op == "svprop":
        return "SvProp"
    if op == "popprop":
        return "PopProp"
    if op == "heom":
        return "(Heom %s %s)" % ("true" if c.get("report") else "false", "true" if c.get("free") else "false")
    if op == "eso":
        return "(EsoCalc %s)" % coq_ek(c["kind"])
    raise KeyError(op)


METHOD_L = {None: 4, "short-exp": 4, "short-exp-2": 2, "short-exp-4": 4, "short-exp-6": 6}


def coq_call(c, p):
    L = c.get("L", METHOD_L.get(c.get("method"), 4))
    if c["op"] == "build" and c["name"].startswith("dm:"):
        return "(mkCall %s %d %d %d 0)" % (coq_shape(c), p.get("refine", {}).get(c["name"][3:], 1), L, int(p["cut"]))
    return "(mkCall %s %d %d %d %d)" % (coq_shape(c), max(0, c.get("nref", 0)), L, int(p["cut"]), UNITS_CODE[c.get("units")])


RELT_KW = {"T": ("stR", {}), "TS": ("stR", {"secular_relaxation": True}), "O": ("stR", {"as_operators": True}),
           "TD": ("stR", {"time_dependent": True}), "TDO": ("stR", {"time_dependent": True, "as_operators": True}),
           "F": ("stF", {}), "TDF": ("stF", {"time_dependent": True}), "CRF": ("cRF", {"coupling_cutoff": "CUT"}),
           "CRFTD": ("cRF", {"coupling_cutoff": "CUT", "time_dependent": True}), "MR": ("mR", {})}


# ========================================================================================
#  generator of histories
# ========================================================================================

def needed(name, have):
    out = []
    for d in deps(name):
        if d not in have and d not in out:
            for x in needed(d, have + out):
                if x not in out:
                    out.append(x)
            out.append(d)
    return out


def gen_history(r, k):
    p = gen_params(r)
    if p["step"] % p["dense"] != 0:
        p["dense"] = 1
    n_api = r.choice([5, 7, 9, 12])
    objs = []
    pool = (["dm:" + x for x in PK] + ["sv", "popp", "heom", "heom"] + ["eso:" + x for x in EK])
    focus = r.sample(pool, r.choice([2, 3, 4]))
    calls = []
    have = []

    def ensure(name):
        for d in needed(name, have) + ([name] if name not in have else []):
            if d not in have:
                calls.append({"op": "build", "name": d})
                have.append(d)

    def nref_for(kind):
        opts = [0, 0, 1, 2, 3, 4]
        if kind in ("TD", "TDO", "TDF"):
            opts = [0, 0, 1] + [d for d in (2, 4) if p["step"] % d == 0]
        return r.choice(opts)

    for i in range(n_api):
        u = r.random()
        if u < 0.55:
            o = r.choice(focus)
            ensure(o)
            if o.startswith("dm:"):
                kind = o[3:]
                c = {"op": "dmprop", "kind": kind, "nref": nref_for(kind)}
                m = r.choice([None, None, None, "short-exp-2", "short-exp-6", "short-exp-4"])
                if m:
                    c["method"] = m
                calls.append(c)
            elif o == "sv":
                calls.append({"op": "svprop", "L": r.choice([4, 4, 2, 6])})
            elif o == "popp":
                calls.append({"op": "popprop"})
            elif o == "heom":
                calls.append({"op": "heom", "report": int(r.random() < 0.25), "free": int(r.random() < 0.2)})
            else:
                calls.append({"op": "eso", "kind": o[4:]})
        elif u < 0.85:
            kind = r.choice(["T", "TS", "O", "TD", "TDO", "F", "TDF", "CRF", "CRF", "CRF", "CRFTD", "CRFTD", "MR"])
            c = {"op": "reltensor", "kind": kind}
            # the call may be made inside an energy-units context (cut-offs are then given in those units)
            if kind in ("CRF", "CRFTD"):
                un = r.choice([None, "1/cm", "1/cm"])
            elif kind == "MR":
                un = None
            else:
                un = r.choice([None, None, "1/cm", "eV"])
            if un:
                c["units"] = un
            if kind != "MR" and r.random() < 0.3:
                c["norecalc"] = 1
            calls.append(c)
        elif u < 0.92:
            c = {"op": "ratematrix"}
            un = r.choice([None, "1/cm", "eV"])
            if un:
                c["units"] = un
            calls.append(c)
        else:
            # repeat an earlier api call
            prev = [c for c in calls if c["op"] != "build"]
            if prev:
                calls.append(dict(r.choice(prev)))
    return {"params": p, "calls": calls}


CORPUS = [
    # hierarchy run twice; run after a free-hierarchy run (carry-over of auxiliary operators in the pinned tree)
    {"calls": [{"op": "build", "name": "hy"}, {"op": "build", "name": "heom"}, {"op": "heom"}, {"op": "heom"},
               {"op": "heom", "free": 1}, {"op": "heom"}, {"op": "heom", "report": 1}, {"op": "heom"}]},
    # Nref given once (sticky in the pinned tree)
    {"calls": [{"op": "build", "name": "rt:T"}, {"op": "build", "name": "dm:T"}, {"op": "dmprop", "kind": "T"},
               {"op": "dmprop", "kind": "T", "nref": 3}, {"op": "dmprop", "kind": "T"},
               {"op": "dmprop", "kind": "T", "nref": 1}, {"op": "dmprop", "kind": "T", "nref": 3}]},
    # propagators with their own refinement: per-call Nref must leave (Nref, dt) as configured
    {"refine": {"T": 3, "H": 2, "O": 4, "sv": 2},
     "calls": [{"op": "build", "name": "rt:T"}, {"op": "build", "name": "dm:T"}, {"op": "build", "name": "dm:H"},
               {"op": "build", "name": "rt:O"}, {"op": "build", "name": "dm:O"}, {"op": "build", "name": "sv"},
               {"op": "dmprop", "kind": "T"}, {"op": "dmprop", "kind": "T", "nref": 2}, {"op": "dmprop", "kind": "T"},
               {"op": "dmprop", "kind": "T", "nref": 3}, {"op": "dmprop", "kind": "H"}, {"op": "dmprop", "kind": "H", "nref": 4},
               {"op": "dmprop", "kind": "H"}, {"op": "dmprop", "kind": "O", "nref": 2}, {"op": "dmprop", "kind": "O"},
               {"op": "svprop"}, {"op": "dmprop", "kind": "O", "nref": 4}, {"op": "svprop"}]},
    # tensor constructions and rate matrices requested inside energy-units contexts
    {"calls": [{"op": "build", "name": "dm:H"}, {"op": "dmprop", "kind": "H"},
               {"op": "reltensor", "kind": "CRF", "units": "1/cm"}, {"op": "dmprop", "kind": "H"},
               {"op": "reltensor", "kind": "CRF", "units": "1/cm"}, {"op": "reltensor", "kind": "CRF"},
               {"op": "reltensor", "kind": "T", "units": "eV"}, {"op": "reltensor", "kind": "T"},
               {"op": "ratematrix", "units": "1/cm"}, {"op": "ratematrix"}, {"op": "ratematrix", "units": "1/cm"},
               {"op": "reltensor", "kind": "F", "units": "1/cm"}, {"op": "reltensor", "kind": "F"},
               {"op": "reltensor", "kind": "CRFTD", "units": "1/cm"}, {"op": "dmprop", "kind": "H"}]},
    # a tensor construction that raises, then propagation with the shared Hamiltonian
    {"calls": [{"op": "build", "name": "dm:H"}, {"op": "build", "name": "sv"}, {"op": "dmprop", "kind": "H"},
               {"op": "svprop"}, {"op": "reltensor", "kind": "CRFTD"}, {"op": "dmprop", "kind": "H"},
               {"op": "svprop"}, {"op": "reltensor", "kind": "T"}, {"op": "reltensor", "kind": "CRF"},
               {"op": "dmprop", "kind": "H"}]},
    # pure dephasing scratch, evolution superoperators, rate matrix
    {"calls": [{"op": "build", "name": "rt:T"}, {"op": "build", "name": "dm:PD"}, {"op": "build", "name": "dm:PDG"},
               {"op": "build", "name": "eso:PDG"}, {"op": "build", "name": "eso:T"}, {"op": "dmprop", "kind": "PD"},
               {"op": "dmprop", "kind": "PDG", "nref": 2}, {"op": "eso", "kind": "PDG"}, {"op": "eso", "kind": "T"},
               {"op": "ratematrix"}, {"op": "dmprop", "kind": "PD"}, {"op": "eso", "kind": "T"},
               {"op": "dmprop", "kind": "PDG"}]},
    # the same theory requested with different options, the later requests with recalculate=False
    {"calls": [{"op": "reltensor", "kind": "TS"}, {"op": "reltensor", "kind": "T", "norecalc": 1}, {"op": "reltensor", "kind": "O", "norecalc": 1},
               {"op": "reltensor", "kind": "TD", "norecalc": 1}, {"op": "reltensor", "kind": "T"}, {"op": "reltensor", "kind": "TS", "norecalc": 1},
               {"op": "reltensor", "kind": "F"}, {"op": "reltensor", "kind": "CRF", "norecalc": 1}, {"op": "reltensor", "kind": "F", "norecalc": 1}]},
    # modified Redfield cannot be constructed and leaves the correlation functions transformed (recorded finding)
    {"calls": [{"op": "build", "name": "rt:F"}, {"op": "build", "name": "dm:F"}, {"op": "dmprop", "kind": "F"},
               {"op": "reltensor", "kind": "MR"}, {"op": "dmprop", "kind": "F"}, {"op": "reltensor", "kind": "F"}]},
]


# ========================================================================================
#  running one history on the real classes
# ========================================================================================

def res_token(res, shared=()):
    """(token, arrays) of a call result: arrays and scalars found at depth <= 1; a shared input object
    returned as part of the result (the Hamiltonian) is an alias, its content is checked as an input"""
    import numpy
    arrs = []
    items = []

    def one(x, tag):
        if x is None:
            items.append((tag, "None"))
        elif isinstance(x, numpy.ndarray):
            items.append((tag, _ahash(x)))
            arrs.append(numpy.array(x))
        elif isinstance(x, (tuple, list)):
            for i, y in enumerate(x):
                one(y, "%s[%d]" % (tag, i))
        elif id(x) in shared:
            items.append((tag, "SHARED"))
        elif hasattr(x, "__dict__"):
            for k in sorted(x.__dict__):
                v = x.__dict__[k]
                if isinstance(v, numpy.ndarray) and v.dtype != object:
                    items.append((tag + "." + k, _ahash(v)))
                    arrs.append(numpy.array(v))
                elif v is None or isinstance(v, (bool, int, float, complex, str)):
                    items.append((tag + "." + k, repr(v)))
        else:
            items.append((tag, repr(x)))
    one(res, "r")
    if res is None:
        return "NONE", []
    return hashlib.sha1(repr(items).encode()).hexdigest()[:20], arrs


def close(a, b, tol):
    import numpy
    if len(a) != len(b):
        return False
    for x, y in zip(a, b):
        if x.shape != y.shape:
            return False
        sc = max(1.0, float(numpy.max(numpy.abs(x))) if x.size else 1.0)
        if x.size and float(numpy.max(numpy.abs(x - y))) > tol * sc:
            return False
    return True


def world_snapshot(w):
    import numpy
    roots = dict(w.o)
    skip = {("agg", "RelaxationTensor"), ("agg", "RelaxationHamiltonian")}
    snap, arrs = snapshot(roots, keep_arrays=True, skip=skip)
    agg = w.o["agg"]
    prim = {k: w.o[k] for k in ("ham", "sbi", "time", "lsbi") if k in w.o}
    prim["agg"] = agg
    sub = snapshot(dict(list(prim.items()) + [("cT", agg.RelaxationTensor), ("cH", agg.RelaxationHamiltonian)]))
    sub = {k: v for k, v in sub.items() if k.startswith(("cT", "cH"))}
    snap["agg.#cache"] = hashlib.sha1(repr(sorted(sub.items())).encode()).hexdigest()[:16]
    for k, v in manager_state().items():
        snap["mgr." + k] = v
    return snap, arrs


def call_sig(c):
    if c["op"] == "dmprop":
        return "dmprop:%s:%s" % (c["kind"], "Nref" if c.get("nref", 0) > 1 else "plain")
    if c["op"] == "reltensor":
        return "reltensor:%s" % c["kind"]
    if c["op"] == "heom":
        return "heom:%s" % ("free" if c.get("free") else "normal")
    if c["op"] == "eso":
        return "eso:%s" % c["kind"]
    if c["op"] == "build":
        return "build:%s" % c["name"].split(":")[0]
    return c["op"]


UNITS_CODE = {None: 0, "1/cm": 1, "eV": 2}


def cutoff_in_units(ham, k, units):
    """a cut-off value in `units` that the library converts to exactly 2^-k internal units (None if no
    float within a few ulps does): the cut-off subtraction and its recovery then stay bit-exact"""
    import numpy
    target = 2.0 ** (-k)
    x = float(ham.convert_2_current_u(target))
    cands = [x]
    lo = hi = x
    for _ in range(16):
        lo, hi = float(numpy.nextafter(lo, -numpy.inf)), float(numpy.nextafter(hi, numpy.inf))
        cands += [lo, hi]
    for v in cands:
        if float(ham.convert_2_internal_u(v)) == target:
            return v
    return None


def real_call(w, c):
    """executes the call; tensor constructions and the rate matrix may be made inside an energy-units
    context (the cut-off is then given in those units)"""
    import contextlib
    import quantarhei as qr
    cc = dict(c)
    units = c.get("units")
    ctx = qr.energy_units(units) if units else contextlib.nullcontext()
    with ctx:
        if c["op"] == "reltensor":
            th, kw = RELT_KW[c["kind"]]
            kw = dict(kw)
            if kw.get("coupling_cutoff") == "CUT":
                v = w.p.get("cut_value")
                if v is None:
                    v = cutoff_in_units(w.o["ham"], w.p["cut"], units) if units else 2.0 ** (-w.p["cut"])
                if v is None:
                    raise AssertionError("no exact cut-off value in units %s" % units)
                kw["coupling_cutoff"] = v
            if c.get("norecalc"):
                # the documented switch "do not recalculate": whatever it does, the result has to be the one of the same call on
                # untouched objects (the model does not know the switch: it must not be observable)
                kw["recalculate"] = False
            cc = {"op": "reltensor", "theory": th, "kw": kw}
        return do_call(w, cc)


def run_history(case):
    """-> dict(obs=[(changed fields, class)], viol=[(sig, what)], counts={}, drift=bool)"""
    import io
    import contextlib
    import numpy
    p, calls = case["params"], case["calls"]
    viol, counts = [], {}
    sink = io.StringIO()
    with contextlib.redirect_stdout(sink):
        w = World(p)
        h0 = w.o["ham"]._data.copy()
        obs, tokens, arrs_hist = [], [], []
        drift = False
        fresh_cache = {}
        expect_fail = {"CRFTD", "MR"}
        for idx, c in enumerate(calls):
            s0_, a0 = world_snapshot(w)
            outcome, res = real_call(w, c)
            s1_, a1 = world_snapshot(w)
            counts["call:" + call_sig(c)] = counts.get("call:" + call_sig(c), 0) + 1
            should_fail = c["op"] == "reltensor" and c["kind"] in expect_fail
            if (outcome != "ok") != should_fail:
                viol.append(("outcome:" + call_sig(c), "call %d %r: outcome %s, the model expects %s"
                             % (idx, c, outcome, "an exception" if should_fail else "a result")))
            # ---- changed fields
            ch = set()
            for path in diff(s0_, s1_):
                f = field_of(path)
                if f is None:
                    continue
                if f == "?":
                    viol.append(("unmodelled:" + call_sig(c), "call %d %r changed %s, which the model does not know" % (idx, c, path)))
                    continue
                if f == "HamData" and path == "ham._data":
                    d = float(numpy.max(numpy.abs(a0[path] - a1[path])))
                    if d <= 4e-16 * float(numpy.max(numpy.abs(a0[path]))):
                        drift = True
                        counts["ham_data_changed_by_one_rounding"] = counts.get("ham_data_changed_by_one_rounding", 0) + 1
                        continue
                if drift and path in a0 and path in a1 and a0[path].shape == a1[path].shape \
                        and a0[path].dtype.kind in "fc" and close([a0[path]], [a1[path]], 1e-10):
                    counts["array_equal_up_to_rounding_after_drift"] = counts.get("array_equal_up_to_rounding_after_drift", 0) + 1
                    continue
                ch.add(f)
            if c["op"] == "build":
                ch -= own_fields(c["name"])
            else:
                # monitor: inputs unchanged
                for f in sorted(ch):
                    if is_input(f):
                        known = (c["op"] == "reltensor" and c["kind"] == "MR" and f == "CCTrans")
                        sig = ("reltensor:mR:input_changed:CCTrans" if known else "inputs:%s:%s" % (call_sig(c), f.strip("()").split(" ")[0]))
                        paths = [q for q in diff(s0_, s1_) if field_of(q) == f][:4]
                        viol.append((sig, "call %d %r changed the input field %s (attributes %s)" % (idx, c, f, paths)))
            # ---- result
            tok, arrs = res_token(res if outcome == "ok" else None, {id(w.o["ham"])})
            if c["op"] == "build" and not c["name"].startswith("rt:") and c["name"] != "kk":
                tok, arrs = "NONE", []
            if c["op"] == "eso" and outcome == "ok":
                tok, arrs = res_token((res._data, bool(res.is_in_rwa)))
            cls = len(tokens)
            for j, t in enumerate(tokens):
                if t == tok or (drift and t != "NONE" and tok != "NONE" and close(arrs_hist[j], arrs, 1e-10)):
                    cls = j
                    break
            tokens.append(tok)
            arrs_hist.append(arrs)
            obs.append((sorted(ch, key=lambda f: FIELD_POS[f]), cls))
            # ---- monitor: result must not alias input arrays
            if outcome == "ok" and c["op"] in ("dmprop", "svprop", "popprop", "heom"):
                src = {"dmprop": w.o["rho"]._data, "heom": w.o["rho"]._data, "svprop": w.o["psi"].data, "popprop": w.o["pop"]}[c["op"]]
                r0 = res[0] if isinstance(res, tuple) else res
                ra = r0 if isinstance(r0, numpy.ndarray) else r0.__dict__.get("_data", r0.__dict__.get("data"))
                if ra is not None and numpy.shares_memory(ra, src):
                    viol.append(("alias:" + call_sig(c), "result of call %d %r shares memory with the initial state" % (idx, c)))
            # ---- monitor: same call on freshly built objects
            if c["op"] != "build" and outcome == "ok":
                key = json.dumps(c, sort_keys=True)
                if key not in fresh_cache:
                    fw = World(p)
                    target = {"dmprop": "dm:" + c.get("kind", ""), "svprop": "sv", "popprop": "popp", "heom": "heom",
                              "eso": "eso:" + c.get("kind", "")}.get(c["op"])
                    if target:
                        for d in needed(target, []) + [target]:
                            fw.build(d)
                    fo, fres = real_call(fw, c)
                    ft, fa = res_token(fres if fo == "ok" else None, {id(fw.o["ham"])})
                    if c["op"] == "eso" and fo == "ok":
                        ft, fa = res_token((fres._data, bool(fres.is_in_rwa)))
                    fresh_cache[key] = (ft, fa)
                ft, fa = fresh_cache[key]
                same = (ft == tok) or (drift and close(fa, arrs, 1e-10))
                if not same:
                    dev = [float(numpy.max(numpy.abs(x - y))) for x, y in zip(fa, arrs) if x.shape == y.shape and x.size]
                    viol.append(("repeat:" + call_sig(c), "call %d %r on the shared objects differs from the same call on freshly "
                                 "built objects (max deviation %s) after the history %r" % (idx, c, max(dev) if dev else "shape", calls[:idx])))
        # ---- monitor of the recover law with a generic (not dyadic) cut-off on fresh objects
        p2 = dict(p)
        p2["cut_value"] = 2.0 ** (-p["cut"]) * (1.0 + 0.37 * ((p["seed"] % 7) + 1) / 8.0)
        fw = World(p2)
        hb = fw.o["ham"]._data.copy()
        fo, _ = real_call(fw, {"op": "reltensor", "kind": "CRF"})
        dev = float(numpy.max(numpy.abs(fw.o["ham"]._data - hb))) / float(numpy.max(numpy.abs(hb)))
        counts["recover_law_generic_cutoff:" + ("exact" if dev == 0.0 else "one_rounding")] = 1
        if fo != "ok" or dev > 4e-16 or fw.o["ham"]._has_remainder_coupling or fw.o["ham"].is_basis_protected:
            viol.append(("inputs:reltensor:CRF:HamData", "get_RelaxationTensor('cRF', coupling_cutoff=%r) left the Hamiltonian "
                         "changed by %g relative (flags %r %r)" % (p2["cut_value"], dev, fw.o["ham"]._has_remainder_coupling,
                                                                 fw.o["ham"].is_basis_protected)))
    return {"obs": obs, "viol": viol, "counts": counts, "drift": drift}


def _worker(case):
    try:
        from quantarhei.core.managers import Manager
        out = run_history(case)
        out["error"] = None
        return out
    except Exception as e:
        return {"obs": None, "viol": [], "counts": {}, "drift": False, "error": "%r\n%s" % (e, traceback.format_exc()[-1500:])}


# ========================================================================================
#  main
# ========================================================================================

def coq_obs(obs):
    return cm.clist(["(%s, %d%%nat)" % (cm.clist(fl), k) for fl, k in obs])


def sv_option_monitor(chk, tier):
    """StateVectorPropagator.propagate with its options (hfce: Hamiltonian supplied by a function; nonlinear: the function also gets the
    current state): the state vector, Hamiltonian and time axis passed in stay as they were, a second call returns the same evolution,
    and both equal the call on freshly built objects.  (Outside the Coq effect model, which carries the plain call only.)"""
    import numpy as np
    import quantarhei as qr
    from quantarhei.qm.propagators.svpropagator import StateVectorPropagator
    r = cm.rng(PID + "svopt")
    for k in range(9 if tier == "quick" else 90):
        rs = np.random.RandomState(r.randrange(2 ** 31))
        n = int(rs.choice([2, 3, 4]))
        Hm = rs.randn(n, n) * 0.03
        Hm = Hm + Hm.T
        mode = ["plain", "hfce", "nonlinear"][k % 3]
        init = ["default_complex", "real_list", "complex_array"][(k // 3) % 3]
        L = int(rs.choice([2, 4, 6]))
        nref = int(rs.choice([1, 1, 2]))
        gg = 0.01
        c = {"kind": "svopt", "n": n, "mode": mode, "init": init, "L": L, "nref": nref, "k": k}

        def make():
            ta = qr.TimeAxis(0.0, 40, 1.0)
            ham = qr.Hamiltonian(data=Hm.copy())
            if init == "default_complex":
                psi = qr.StateVector(n)
                psi.data[n - 1] = 1.0
            elif init == "real_list":
                psi = qr.StateVector(data=[1.0 if i == n - 1 else 0.0 for i in range(n)])
            else:
                v = np.zeros(n, dtype=complex)
                v[0], v[n - 1] = 0.6, 0.8j
                psi = qr.StateVector(data=v)
            pr = StateVectorPropagator(ta, ham)
            if nref > 1:
                pr.setDtRefinement(nref)
            return ta, ham, psi, pr

        def call(pr, psi):
            if mode == "plain":
                return pr.propagate(psi, L=L)
            if mode == "hfce":
                return pr.propagate(psi, L=L, hfce=lambda t: Hm)
            return pr.propagate(psi, L=L, hfce=lambda HH, vec: HH + gg * np.diag(np.abs(vec) ** 2), nonlinear=True)
        try:
            ta, ham, psi, pr = make()
            before = (np.array(psi.data).copy(), np.array(ham.data).copy(), np.array(ta.data).copy())
            first = np.array(call(pr, psi).data).copy()
            after = (np.array(psi.data), np.array(ham.data), np.array(ta.data))
            chk.case(("svopt", k, mode, init, n, L, nref), True)
            chk.count("svopt:%s:%s" % (mode, init))
            for nm, b, a in zip(("initial state vector", "Hamiltonian", "time axis"), before, after):
                if not np.array_equal(a, b):
                    chk.violation("svopt:input_changed:" + mode, "StateVectorPropagator.propagate (%s, initial state %s) changed the %s passed in (max %g)"
                                  % (mode, init, nm, float(np.max(np.abs(a - b)))), "monitor", c)
            second = np.array(call(pr, psi).data)
            if not np.array_equal(first, second):
                chk.violation("svopt:not_repeatable:" + mode, "StateVectorPropagator.propagate (%s, initial state %s) called twice with the same inputs "
                              "returns different evolutions (max %g)" % (mode, init, float(np.max(np.abs(first - second)))), "monitor", c)
            ta2, ham2, psi2, pr2 = make()
            fresh = np.array(call(pr2, psi2).data)
            if not np.array_equal(first, fresh):
                chk.violation("svopt:differs_from_fresh:" + mode, "StateVectorPropagator.propagate (%s, initial state %s) differs from the same call on "
                              "freshly built objects (max %g)" % (mode, init, float(np.max(np.abs(first - fresh)))), "monitor", c)
        except Exception as e:
            chk.violation("svopt:exception:" + mode, "state-vector option monitor raised %r" % (e,), "monitor", c)


def refusal_monitor(chk, tier):
    """calls that refuse their arguments (raise before computing anything) also leave the shared objects as they were, and a
    propagation repeated afterwards returns what it returned before.  (The Coq effect model carries the calls that compute; this is
    the differential side of GenC15.gen_refusals_leave_inputs.)"""
    import io
    import contextlib
    import numpy as np
    import quantarhei as qr
    r = cm.rng(PID + "refuse")
    variants = [("cRF:negative_cutoff", dict(relaxation_theory="cRF", coupling_cutoff=-0.001)),
                ("cRF:list_cutoff", dict(relaxation_theory="cRF", coupling_cutoff=[0.001, 0.002])),
                ("cRF_TD:negative_cutoff", dict(relaxation_theory="cRF", time_dependent=True, coupling_cutoff=-0.001)),
                ("cRF_TD:list_cutoff", dict(relaxation_theory="cRF", time_dependent=True, coupling_cutoff=[0.001, 0.002])),
                ("unknown_theory", dict(relaxation_theory="no_such_theory"))]
    for k in range(2 if tier == "quick" else 12):
        prm = gen_params(r)
        c = {"kind": "refusal", "params": prm}
        try:
            with contextlib.redirect_stdout(io.StringIO()):
                w = World(prm)
                agg, ham, time = w.o["agg"], w.o["ham"], w.o["time"]

                def reference():
                    # an excitonic initial state propagated inside the eigenbasis context of the shared Hamiltonian
                    rt, hh = agg.get_RelaxationTensor(time, relaxation_theory="stR")
                    prop = qr.ReducedDensityMatrixPropagator(time, hh, rt)
                    with qr.eigenbasis_of(ham):
                        rho = qr.ReducedDensityMatrix(dim=ham.dim)
                        rho.data[ham.dim - 1, ham.dim - 1] = 1.0
                        out = prop.propagate(rho)
                    return np.array(out.data)
                ref0 = reference()
                for name, kw in variants:
                    s0_, _ = world_snapshot(w)
                    try:
                        agg.get_RelaxationTensor(time, **kw)
                        refused = False
                    except Exception:
                        refused = True
                    s1_, _ = world_snapshot(w)
                    chk.count("refusal:%s:%s" % (name, "raised" if refused else "returned"))
                    if not refused:
                        continue          # whether the argument is refused is not what this property is about
                    ch = sorted(f for f in set(field_of(pth) for pth in diff(s0_, s1_)) if f is not None and (f == "?" or is_input(f)))
                    if ch:
                        chk.violation("refusal:inputs_changed:" + name, "get_RelaxationTensor(%s) raised and left the shared objects changed: %s"
                                      % (", ".join("%s=%r" % kv for kv in sorted(kw.items())), ch), "monitor", dict(c, variant=name))
                    ref1 = reference()
                    # (every passage through a basis context rounds the Hamiltonian: repeated results agree to rounding, not bitwise)
                    if float(np.max(np.abs(ref0 - ref1))) > 1e-10:
                        chk.violation("refusal:not_repeatable:" + name, "after the refused get_RelaxationTensor(%s) the same propagation with the same "
                                      "inputs differs from the one before it by %g"
                                      % (", ".join("%s=%r" % kv for kv in sorted(kw.items())), float(np.max(np.abs(ref0 - ref1)))),
                                      "monitor", dict(c, variant=name))
                        ref0 = ref1
            chk.case(("refusal", k, json.dumps(prm, sort_keys=True)), True)
        except Exception as e:
            chk.violation("refusal:exception", "refusal monitor raised %r" % (e,), "monitor", c)


def main():
    import multiprocessing
    chk = cm.Check(PID, args.tier)
    chk.rule = ("random histories (builds as needed + 5..12 calls) of tensor constructions (stR tensor/secular/operators, TD stR "
                "tensor/operators, Foerster, TD Foerster, combined, the raising TD combined and modified Redfield), rate matrix, "
                "propagate of 13 density matrix propagator kinds (with/without Nref, orders 2/4/6), state vector, population and "
                "hierarchy propagate (report/free), EvolutionSuperOperator.calculate (11 kinds) on ONE set of shared objects of a "
                "random dimer/trimer; non-trivial: >= 3 calls of the property; distinct by parameters and call list")
    chk.assumptions = [
        "numerical kernels are uninterpreted in the model: the theorems are about data flow (which fields a call reads and writes)",
        "recover law (recover_cutoff_coupling undoes subtract_cutoff_coupling): the histories use cut-offs 2^-k (internal units), for "
        "which (|J|-c)+c is exact in floating point, so every comparison is bit-for-bit; with a generic cut-off the law is monitored on "
        "fresh objects for every history to hold within one rounding (<= 4e-16 relative; counts recover_law_generic_cutoff:*)",
        "Nref passed to the time dependent tensor path divides the ratio of time steps (otherwise propagate refuses)",
        "Hamiltonians come from Aggregate (RWA set); the caller has not protected the Hamiltonian (clean world of the theorems)",
        "modified Redfield cannot be constructed with the pinned SciPy (scipy.integrate.simps); the non-equilibrium Foerster tensor "
        "and field-driven propagation (not implemented upstream: raises) are not exercised",
    ]
    chk.assumptions.append(
        "static tie: a fail-closed write-set / last-write / exposed-read analysis of the current source of the API methods "
        "(harness/translate_c15.py) is compared inside Coq with the written and changed fields of Model.C15's programs for every shape "
        "of call; library functions, constructors (tensor kernels), basis and unit contexts and methods of objects created inside a "
        "call are whitelisted with the reasons printed in the generated file; the shape-deciding branch conditions are given per shape")
    chk.prove()
    import translate
    translate.static_tie(cm, chk, PID, cm.REPO)      # second, static tie: write sets of the current source against the model's
    if args.replay:
        rep = json.load(open(args.replay))
        inp = rep.get("input")
        cases = [inp] if isinstance(inp, dict) and "calls" in inp else []
    else:
        r = cm.rng(PID)
        n = 240 if args.tier == "quick" else 3000
        cases = []
        for cc in CORPUS:
            for _ in range(2 if args.tier == "quick" else 6):
                p = gen_params(r)
                if "refine" in cc:
                    p["refine"] = dict(cc["refine"])
                cases.append({"params": p, "calls": cc["calls"]})
        cases += [gen_history(r, k) for k in range(n)]
    import quantarhei  # noqa: imported before forking
    ctx = multiprocessing.get_context("fork")
    with ctx.Pool(min(14, max(1, len(cases)))) as pool:
        outs = pool.map(_worker, cases, chunksize=1)
    items, meta = [], []
    for case, out in zip(cases, outs):
        napi = len([c for c in case["calls"] if c["op"] != "build"])
        if out["error"]:
            chk.violation("harness:exception", "history raised in the harness: %s" % out["error"], "monitor", case)
            chk.case(case, False)
            continue
        for k, v in out["counts"].items():
            chk.count(k, v)
        for sig, what in out["viol"]:
            chk.violation(sig, what, "monitor", case)
        chk.case(case, napi >= 3, sample={"params": {k: case["params"][k] for k in ("nmol", "nt", "step", "depth")},
                                          "calls": [call_sig(c) for c in case["calls"]][:14],
                                          "observed": [(fl, k) for fl, k in out["obs"]][:14]})
        items.append("(%s, %s)" % (cm.clist([coq_call(c, case["params"]) for c in case["calls"]]), coq_obs(out["obs"])))
        meta.append((case, out))
    shards, index = [], []
    CH = max(1, (len(items) + 13) // 14)
    for k in range(0, len(items), CH):
        shards.append("From Coq Require Import List Bool Arith.\nImport ListNotations.\n"
                      "From QV Require Import Base.Util Model.C15.\n"
                      "Definition cs : list case15 := %s.\n"
                      "Eval vm_compute in (bad (case_agrees repaired) cs).\n"
                      "Eval vm_compute in (bad (case_agrees pinned) cs).\n" % cm.clist(items[k:k + CH]))
        index.append(k)
    for k, (rc, out) in zip(index, cm.coq_eval(PID, shards)):
        if rc != 0:
            chk.violation("correspondence:coq_error", "coqc failed: %s" % out[-800:], "correspondence", {}, found_input=False)
            continue
        vals = cm.parse_evals(out)
        badl, bad_old = cm.parse_natlist(vals[0]), cm.parse_natlist(vals[1])
        chk.corr["cases"] += min(CH, len(items) - k)
        chk.corr["disagreements"] += len(badl)
        chk.corr["agree_with_pinned_variant_only"] = chk.corr.get("agree_with_pinned_variant_only", 0) + \
            len([i for i in badl if i not in bad_old])
        for i in badl[:3]:
            case, o = meta[k + i]
            which = "agrees with the pinned variant of the model" if i not in bad_old else "agrees with neither variant"
            chk.violation("correspondence:history", "changed fields / result classes of the implementation differ from Model.C15 "
                          "(repaired) on history %s: observed %s; it %s"
                          % ([call_sig(c) for c in case["calls"]], o["obs"], which), "correspondence", case, found_input=False)
    if not args.replay:
        sv_option_monitor(chk, args.tier)
        refusal_monitor(chk, args.tier)
    chk.finish()


if __name__ == "__main__":
    work = cm.reexec_isolated(PID)
    args = cm.parse_args(sys.argv[1:])
    main()
