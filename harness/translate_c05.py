# -*- coding: utf-8 -*-
"""Static tie for C05 (GenC05.v): the units machinery of quantarhei is translated from its current source on every run and
proved equal to Model/C05.v.

  core/units.py      conversion_facs_energy / conversion_facs_length   -> tables over symbolic non-zero pi, c, e, hbar: one entry per
                                                                         model unit, every entry non-zero (the hypothesis of the
                                                                         conversion theorems), int = 1/fs = 1, nm reciprocal to 1/cm
  core/managers.py   Manager.units / allowed_utypes                     -> every unit of the model is a supported unit
                     Manager.convert_energy_2_internal_u / _2_current_u -> scalar path (except branch) = to_int / to_cur,
                                                                         array path (try branch, per element) = to_int_elt / to_cur_elt
                     Manager.convert_length_2_internal_u / _2_current_u -> to_int_l / to_cur_l
                     Manager.get/set/unset_current_units                -> Some (cur), set_e / set_l, unset_e   (utype propagated as a constant)
                     units_context_manager.__init__, energy_units.__init__/__enter__/__exit__, length_units.*, frequency_units
                                                                        -> enter_e / exit_e / set_l for every earlier state of the
                                                                           object's backup slot and both values of "left by an exception";
                                                                           with the `with` skeleton of Proofs/C05gen.v: exec (PWithE ..), exec (PWithL ..)
                     EnergyUnitsManaged / LengthUnitsManaged / UnitsManaged delegations
  utils/types.py     units_managed_property, units_managed_array_property, managed_array_property (getter and setter)
                                                                        -> stored = to_int(value), read = to_cur(stored): supply under u,
                                                                           read under v = convert u v
  core/units.py      convert, in_current_units                          -> convert
  builders/aggregate_base.py  AggregateBase.build                       -> PBuild ContextSwitch; no raw (un)set_current_units in the package

Fail-closed: any statement or expression outside the fragment raises Untranslatable.
"""
import ast
import os
import re
from fractions import Fraction

from translate import Untranslatable, _src_of
from translate2 import _strip

MANAGERS = "/quantarhei/core/managers.py"
UNITS = "/quantarhei/core/units.py"
TYPES = "/quantarhei/utils/types.py"
AGGBASE = "/quantarhei/builders/aggregate_base.py"

EUNITS = {"1/fs": "E_fs", "int": "E_int", "1/cm": "E_cm", "eV": "E_eV", "meV": "E_meV", "THz": "E_THz", "J": "E_J", "SI": "E_SI",
          "nm": "E_nm", "Ha": "E_Ha", "a.u.": "E_au"}
LUNITS = {"int": "L_int", "A": "L_A", "nm": "L_nm", "Bohr": "L_Bohr", "a.u.": "L_au", "m": "L_m", "SI": "L_SI"}
KINDS = {"energy": dict(cur="ce", saved="se", ty="eunit", lst="gen_units_energy", sfx="e", mem="emem", ctor=EUNITS),
         "length": dict(cur="cl", saved="sl", ty="lunit", lst="gen_units_length", sfx="l", mem="lmem", ctor=LUNITS)}


def _u(node):
    return ast.unparse(node)


def _module(path):
    import warnings
    with warnings.catch_warnings():
        warnings.simplefilter("ignore")
        return ast.parse(open(path).read())


# ----------------------------------------------------------------------------------------------- rationals
def qlit(v):
    if isinstance(v, bool) or not isinstance(v, (int, float)):
        raise Untranslatable("constant %r" % (v,))
    fr = Fraction(repr(v)) if isinstance(v, float) else Fraction(v)
    return "(%d # %d)" % (fr.numerator, fr.denominator) if fr >= 0 else "(- (%d # %d))" % (-fr.numerator, fr.denominator)


class QE:
    """rational expressions: + - * / unary -, numeric constants (their decimal value), whitelisted names and attributes"""

    def __init__(self, names, attrs=None, special=None):
        self.names, self.attrs, self.special = dict(names), dict(attrs or {}), special

    def e(self, node):
        if self.special is not None:
            r = self.special(node)
            if r is not None:
                return r
        if isinstance(node, ast.Constant):
            return qlit(node.value)
        if isinstance(node, ast.Name):
            if node.id in self.names:
                return self.names[node.id]
            raise Untranslatable("name %s in a rational expression" % node.id)
        if isinstance(node, ast.Attribute):
            if _u(node) in self.attrs:
                return self.attrs[_u(node)]
            raise Untranslatable("attribute %s in a rational expression" % _u(node))
        if isinstance(node, ast.UnaryOp) and isinstance(node.op, ast.USub):
            return "(- %s)" % self.e(node.operand)
        if isinstance(node, ast.BinOp):
            op = {ast.Add: "+", ast.Sub: "-", ast.Mult: "*", ast.Div: "/"}.get(type(node.op))
            if op is None:
                raise Untranslatable("operator %s" % type(node.op).__name__)
            return "(%s %s %s)" % (self.e(node.left), op, self.e(node.right))
        raise Untranslatable("rational expression %s" % _u(node)[:80])


# ----------------------------------------------------------------------------------------------- tables and unit lists
def _class_attr(tree, cls, name):
    for c in tree.body:
        if isinstance(c, ast.ClassDef) and c.name == cls:
            found = [s for s in c.body if isinstance(s, ast.Assign) and len(s.targets) == 1 and _u(s.targets[0]) == name]
            if len(found) != 1:
                raise Untranslatable("%s.%s assigned %d times in the class body" % (cls, name, len(found)))
            try:
                return ast.literal_eval(found[0].value)
            except Exception:
                raise Untranslatable("%s.%s is not a literal" % (cls, name))
    raise Untranslatable("class %s" % cls)


def unit_lists(repo):
    tree = _module(repo + MANAGERS)
    # the class attributes must not be rebound or modified anywhere else in the module
    for c in tree.body:
        inside = isinstance(c, ast.ClassDef) and c.name == "Manager"
        for n in ast.walk(c):
            tgt = None
            if isinstance(n, ast.Attribute) and isinstance(n.ctx, (ast.Store, ast.Del)) and n.attr in ("units", "allowed_utypes"):
                tgt = n
            if isinstance(n, ast.Subscript) and isinstance(n.ctx, (ast.Store, ast.Del)) and isinstance(n.value, ast.Attribute) \
                    and n.value.attr in ("units", "allowed_utypes"):
                tgt = n.value
            if isinstance(n, ast.Call) and isinstance(n.func, ast.Attribute) and n.func.attr in ("append", "remove", "pop", "extend", "insert", "clear", "update") \
                    and ((isinstance(n.func.value, ast.Attribute) and n.func.value.attr in ("units", "allowed_utypes"))
                         or (isinstance(n.func.value, ast.Subscript) and isinstance(n.func.value.value, ast.Attribute) and n.func.value.value.attr == "units")):
                tgt = n.func.value if isinstance(n.func.value, ast.Attribute) else n.func.value.value
            if tgt is not None and (inside or "anager" in _u(tgt.value)):
                raise Untranslatable("Manager.units / allowed_utypes are modified (%s)" % _u(n)[:60])
    units = _class_attr(tree, "Manager", "units")
    allowed = _class_attr(tree, "Manager", "allowed_utypes")
    out = []
    for key, info in sorted(KINDS.items()):
        if key not in units or not isinstance(units[key], list):
            raise Untranslatable("Manager.units[%r]" % key)
        names = []
        for x in units[key]:
            if x not in info["ctor"]:
                raise Untranslatable("unit %r of %s is not a unit of the model" % (x, key))
            names.append(info["ctor"][x])
        out.append("Definition %s : list %s := [%s]." % (info["lst"], info["ty"], "; ".join(names)))
    out.append("Lemma gen_units_cover : (forall u, emem u gen_units_energy = true) /\\ (forall u, lmem u gen_units_length = true) /\\\n"
               "  length gen_units_energy = length all_eunits /\\ length gen_units_length = length all_lunits.\n"
               "Proof. repeat split; try (intros u; destruct u; reflexivity). Qed.\n")
    return "\n".join(out), allowed


def _module_dict(tree, name):
    found = [s for s in tree.body if isinstance(s, ast.Assign) and len(s.targets) == 1 and _u(s.targets[0]) == name]
    if len(found) != 1 or not isinstance(found[0].value, ast.Dict):
        raise Untranslatable("%s is not assigned exactly once as a dict display" % name)
    return found[0].value


def tables(repo):
    tree = _module(repo + UNITS)
    src = open(repo + UNITS).read()
    if re.search(r"conversion_facs_(energy|length)\s*\[[^\]]*\]\s*=[^=]", src) or re.search(r"conversion_facs_(energy|length)\.(update|pop|setdefault|clear)", src):
        raise Untranslatable("a conversion table is modified after its definition")
    imp = [s for s in tree.body if isinstance(s, ast.Import) and any(a.name == "scipy.constants" and a.asname == "const" for a in s.names)]
    if len(imp) != 1:
        raise Untranslatable("`import scipy.constants as const` not found")
    qe = QE({}, attrs={"const.pi": "pi", "const.c": "c", "const.e": "e", "const.hbar": "hbar"})
    out = ["Section Table.\n  Variables (pi c e hbar : Q).\n  Hypotheses (Hpi : ~ pi == 0) (Hc : ~ c == 0) (He : ~ e == 0) (Hh : ~ hbar == 0)."]
    for name, g, info in (("conversion_facs_energy", "gen_fac_energy", KINDS["energy"]), ("conversion_facs_length", "gen_fac_length", KINDS["length"])):
        d = _module_dict(tree, name)
        rows, seen = [], set()
        for k, v in zip(d.keys, d.values):
            if not (isinstance(k, ast.Constant) and isinstance(k.value, str)):
                raise Untranslatable("key %s of %s" % (_u(k) if k else None, name))
            if k.value not in info["ctor"] or k.value in seen:
                raise Untranslatable("key %r of %s is not a unit of the model, or is repeated" % (k.value, name))
            seen.add(k.value)
            rows.append("    | %s => %s" % (info["ctor"][k.value], qe.e(v)))
        missing = set(info["ctor"]) - seen
        if missing:
            raise Untranslatable("%s has no entry for %s" % (name, sorted(missing)))
        out.append("  Definition %s (u : %s) : Q :=\n    match u with\n%s\n    end." % (g, info["ty"], "\n".join(rows)))
        out.append("  Lemma %s_nonzero : forall u, ~ %s u == 0.\n  Proof. intros u; destruct u; cbn [%s]; qnz. Qed." % (g, g, g))
    out.append("  (* internal units have factor one; a wavelength in nm is 10^7 over the wavenumber in 1/cm; synonyms agree *)\n"
               "  Lemma gen_fac_relations : gen_fac_energy E_fs == 1 /\\ gen_fac_energy E_int == 1 /\\ gen_fac_energy E_J == gen_fac_energy E_SI /\\\n"
               "    gen_fac_energy E_Ha == gen_fac_energy E_au /\\ gen_fac_energy E_nm * ((10000000 # 1) * gen_fac_energy E_cm) == 1 /\\\n"
               "    gen_fac_length L_int == 1 /\\ gen_fac_length L_A == 1.\n"
               "  Proof. cbn [gen_fac_energy gen_fac_length]. repeat split; try reflexivity; field; repeat split; assumption. Qed.\n"
               "  (* so the conversion theorem applies to the table the code defines *)\n"
               "  Lemma gen_table_conversion_exact : forall u v x, (is_nm u = true \\/ is_nm v = true -> ~ x == 0) ->\n"
               "    convert gen_fac_energy u v x ==\n"
               "      match is_nm u, is_nm v with\n"
               "      | false, false => x * gen_fac_energy u / gen_fac_energy v\n"
               "      | true, false => 1 / (x * gen_fac_energy u * gen_fac_energy v)\n"
               "      | false, true => 1 / (x * gen_fac_energy u * gen_fac_energy v)\n"
               "      | true, true => x * gen_fac_energy u / gen_fac_energy v\n"
               "      end.\n"
               "  Proof. exact (conv_exact gen_fac_energy gen_fac_energy_nonzero). Qed.\nEnd Table.\n")
    return "\n".join(out)


# ----------------------------------------------------------------------------------------------- converters
ZEROS = "ret = numpy.zeros(val.shape, dtype=val.dtype)"


def _unit_expr(node, key, alias):
    """is `node` the current unit of type `key`?  (self.current_units["energy"] or a local bound to it)"""
    return _u(node) == "self.current_units['%s']" % key or (isinstance(node, ast.Name) and node.id in alias)


def converter(repo, meth, key, table, gname):
    """-> (scalar definition body, elementwise definition body or None)"""
    fn = _src_of(repo + MANAGERS, "Manager." + meth)
    if [a.arg for a in fn.args.args] != ["self", "val"]:
        raise Untranslatable("%s signature" % meth)
    info = KINDS[key]
    alias = set()
    names = {"val": "x"}
    lets = []

    def table_lookup(node):
        if isinstance(node, ast.Subscript) and isinstance(node.value, ast.Name) and node.value.id.startswith("conversion_facs_"):
            if node.value.id != table:
                raise Untranslatable("%s reads %s, the table of another type of units" % (meth, node.value.id))
            if not _unit_expr(node.slice, key, alias):
                raise Untranslatable("%s indexes the table by %s" % (meth, _u(node.slice)))
            return "(fac u)"
        return None

    def path(stmts, elementwise):
        """straight-line statements ending in return -> Gallina term"""
        loc = dict(names)
        lines = []
        for s in _strip(stmts):
            if isinstance(s, ast.Return) and s.value is not None:
                return "".join(lines) + QE(loc, special=lambda n: special(n, loc, elementwise)).e(s.value)
            if elementwise and _u(s) == ZEROS:
                loc["ret"] = "ret"
                lines.append("let ret := (0 # 1) in ")
                continue
            if elementwise and isinstance(s, ast.Assign) and len(s.targets) == 1 and isinstance(s.targets[0], ast.Subscript) \
                    and _u(s.targets[0].value) == "ret" and "ret" in loc:
                m = mask(s.targets[0].slice)
                rhs = QE(loc, special=lambda n: special(n, loc, elementwise, m)).e(s.value)
                lines.append("let ret := (if %s then %s else ret) in " % (m, rhs))
                continue
            raise Untranslatable("%s: statement %s" % (meth, _u(s)[:80]))
        raise Untranslatable("%s: a path does not return" % meth)

    def mask(node):
        if isinstance(node, ast.Compare) and len(node.ops) == 1 and _u(node.left) == "val" and isinstance(node.comparators[0], ast.Constant) \
                and isinstance(node.ops[0], (ast.NotEq, ast.Eq)):
            t = "(Qeq_bool x %s)" % qlit(node.comparators[0].value)
            return "(negb %s)" % t if isinstance(node.ops[0], ast.NotEq) else t
        raise Untranslatable("%s: mask %s" % (meth, _u(node)))

    def special(node, loc, elementwise, cur_mask=None):
        r = table_lookup(node)
        if r is not None:
            return r
        if isinstance(node, ast.Subscript) and _u(node.value) == "val":
            if not elementwise or cur_mask is None or mask(node.slice) != cur_mask:
                raise Untranslatable("%s: %s read under another mask than the one assigned" % (meth, _u(node)))
            return "x"
        return None

    body = _strip(fn.body)
    k = 0
    while k < len(body) and isinstance(body[k], ast.Assign) and len(body[k].targets) == 1 and isinstance(body[k].targets[0], ast.Name):
        t, v = body[k].targets[0].id, body[k].value
        if _unit_expr(v, key, alias):
            alias.add(t)
        else:
            term = QE(names, special=table_lookup).e(v)
            names[t] = "v_" + t
            lets.append("let v_%s := %s in " % (t, term))
        k += 1
    rest = body[k:]
    pre = "".join(lets)
    if len(rest) == 1 and isinstance(rest[0], ast.Return):
        return pre + path(rest, False), None
    if not (len(rest) == 1 and isinstance(rest[0], ast.If)):
        raise Untranslatable("%s: body shape" % meth)
    test = rest[0].test
    if not (isinstance(test, ast.Compare) and len(test.ops) == 1 and isinstance(test.ops[0], ast.Eq)):
        raise Untranslatable("%s: condition %s" % (meth, _u(test)))
    a, b = test.left, test.comparators[0]
    if isinstance(a, ast.Constant):
        a, b = b, a
    if not (_unit_expr(a, key, alias) and isinstance(b, ast.Constant) and b.value in info["ctor"]):
        raise Untranslatable("%s: condition %s" % (meth, _u(test)))
    cond = "%s_eqb u %s" % (info["ty"], info["ctor"][b.value])
    thn = _strip(rest[0].body)
    if not (len(thn) == 1 and isinstance(thn[0], ast.Try) and len(thn[0].handlers) == 1 and thn[0].handlers[0].type is None
            and not thn[0].orelse and not thn[0].finalbody):
        raise Untranslatable("%s: the reciprocal branch is not try (arrays) / except (numbers)" % meth)
    arr = path(thn[0].body, True)
    sca = path(thn[0].handlers[0].body, False)
    els = path(rest[0].orelse, False)
    return (pre + "if %s then %s else %s" % (cond, sca, els), pre + "if %s then %s else %s" % (cond, arr, els))


CONV_PROOF = ("Proof.\n  intros Hf%(hx)s. pose proof (Hf u) as Hu. unfold %(g)s, %(m)s. destruct u; cbn [eunit_eqb lunit_eqb is_nm] in *; cbv zeta;\n"
              "  change (0 # 1) with 0; try destruct (Qeq_bool x 0) eqn:E; cbn [negb]; first [reflexivity | ring | field; auto].\nQed.\n")


def converters(repo):
    out = []
    for meth, g, model in (("convert_energy_2_internal_u", "gen_e2i", "to_int"), ("convert_energy_2_current_u", "gen_i2c", "to_cur")):
        sca, arr = converter(repo, meth, "energy", "conversion_facs_energy", g)
        if arr is None:
            raise Untranslatable("%s has no reciprocal branch" % meth)
        out.append("Definition %s (fac : eunit -> Q) (u : eunit) (x : Q) : Q :=\n  %s.\n" % (g, sca))
        out.append("Definition %s_elt (fac : eunit -> Q) (u : eunit) (x : Q) : Q :=\n  %s.\n" % (g, arr))
        out.append("Lemma %s_is_model fac u x : (forall u, ~ fac u == 0) -> (is_nm u = true -> ~ x == 0) -> %s fac u x == %s fac u x.\n" % (g, g, model)
                   + CONV_PROOF % {"hx": " Hx", "g": g, "m": model})
        out.append("Lemma %s_elt_is_model fac u x : (forall u, ~ fac u == 0) -> %s_elt fac u x == %s_elt fac u x.\n" % (g, g, model)
                   + CONV_PROOF % {"hx": "", "g": g + "_elt", "m": model + "_elt"})
    for meth, g, model in (("convert_length_2_internal_u", "gen_l2i", "to_int_l"), ("convert_length_2_current_u", "gen_i2l", "to_cur_l")):
        sca, arr = converter(repo, meth, "length", "conversion_facs_length", g)
        if arr is not None:
            raise Untranslatable("%s has a reciprocal branch the model does not carry" % meth)
        out.append("Definition %s (fac : lunit -> Q) (u : lunit) (x : Q) : Q :=\n  %s.\n" % (g, sca))
        out.append("Lemma %s_is_model fac u x : (forall u, ~ fac u == 0) -> %s fac u x == %s fac u x.\n" % (g, g, model)
                   + CONV_PROOF % {"hx": "", "g": g, "m": model})
    out.append("(* supplied under u, stored, read under v: the conversion the theorems are about *)\n"
               "Lemma gen_supply_then_read fac u v x : (forall u, ~ fac u == 0) -> (is_nm u = true \\/ is_nm v = true -> ~ x == 0) ->\n"
               "  gen_i2c fac v (gen_e2i fac u x) == convert fac u v x.\n"
               "Proof.\n  intros Hf Hx. pose proof (Hf u) as Hu. pose proof (Hf v) as Hv. unfold gen_i2c, gen_e2i, convert, to_cur, to_int.\n"
               "  destruct u; destruct v; cbn [eunit_eqb is_nm] in *; cbv zeta; first [reflexivity | ring | field; auto | (assert (~ x == 0) by auto; field; auto)].\nQed.\n"
               "Lemma gen_supply_then_read_length fac u v x : (forall u, ~ fac u == 0) -> gen_i2l fac v (gen_l2i fac u x) == convert_l fac u v x.\n"
               "Proof.\n  intros Hf. pose proof (Hf u) as Hu. pose proof (Hf v) as Hv. unfold gen_i2l, gen_l2i, convert_l, to_cur_l, to_int_l.\n"
               "  cbv zeta; first [reflexivity | ring | field; auto].\nQed.\n")
    return "\n".join(out)


# ----------------------------------------------------------------------------------------------- state translator
STATE = "(mkU ce cl se sl n f)"
OPEN = "let ce := cur_e %s in let cl := cur_l %s in let se := saved_e %s in let sl := saved_l %s in let n := count %s in let f := in_eu %s in\n  "


class SImp:
    """methods that read and write the units state of the Manager (and of a context object) -> Gallina over the six fields
    ce cl se sl n f (and o_units, o_backup).  The type of units (`utype`) is propagated as a constant."""

    def __init__(self, repo, allowed, mgr, mode, consts=None, vals=None, objty=None):
        self.repo, self.allowed, self.mgr, self.mode, self.objty = repo, allowed, mgr, mode, objty
        self.consts = dict(consts or {})        # expression text -> python str known at translation time
        self.vals = dict(vals or {})            # expression text -> (Coq term, kind)
        self.fresh = [0]
        self.units_set = False

    def fork(self):
        c = SImp(self.repo, self.allowed, self.mgr, self.mode, self.consts, self.vals, self.objty)
        c.fresh, c.units_set = self.fresh, self.units_set
        return c

    def new(self, base="v"):
        self.fresh[0] += 1
        return "%s%d" % (base, self.fresh[0])

    # ---- compile-time strings
    def cstr(self, node):
        if isinstance(node, ast.Constant) and isinstance(node.value, str):
            return node.value
        return self.consts.get(_u(node))

    def key(self, node, what):
        k = self.cstr(node)
        if k is None:
            raise Untranslatable("%s: the type of units %s is not a constant here" % (what, _u(node)))
        if k not in KINDS:
            raise Untranslatable("%s: units of type %r are not in the model" % (what, k))
        return k

    # ---- values
    def uval(self, node):
        """unit-valued (or optional unit-valued) expression without side effects -> (term, kind)"""
        t = _u(node)
        if t in self.vals:
            return self.vals[t]
        if isinstance(node, ast.Constant) and node.value is None:
            return "None", "none"
        if isinstance(node, ast.Subscript) and _u(node.value) == self.mgr + ".current_units":
            k = self.key(node.slice, t)
            return KINDS[k]["cur"], KINDS[k]["ty"]
        raise Untranslatable("value %s" % t[:80])

    def rhs(self, node, cont):
        """cont(term, kind) -> text; calls of get_current_units are bound through their option"""
        if isinstance(node, ast.Call) and _u(node.func) == self.mgr + ".get_current_units" and len(node.args) == 1 and not node.keywords:
            k = self.key(node.args[0], _u(node))
            v = self.new()
            return "match gen_get_%s %s with None => None | Some %s =>\n  %s end" % (KINDS[k]["sfx"], STATE, v, cont(v, KINDS[k]["ty"]))
        term, kind = self.uval(node)
        return cont(term, kind)

    def need(self, term, kind, ty, cont):
        """a value of kind `opt ty` (an attribute that may be missing / None) used where a unit is needed"""
        if kind == ty:
            return cont(term)
        if kind == "opt " + ty:
            v = self.new()
            return "match %s with None => None | Some %s =>\n  %s end" % (term, v, cont(v))
        raise Untranslatable("a value of kind %s where %s is needed" % (kind, ty))

    # ---- conditions
    def zterm(self, node):
        t = _u(node)
        if t == self.mgr + "._in_eu_count":
            return "n"
        if isinstance(node, ast.Constant) and isinstance(node.value, int) and not isinstance(node.value, bool):
            return "(%d)" % node.value
        if isinstance(node, ast.BinOp) and isinstance(node.op, (ast.Add, ast.Sub)):
            return "(%s %s %s)" % (self.zterm(node.left), "+" if isinstance(node.op, ast.Add) else "-", self.zterm(node.right))
        raise Untranslatable("integer expression %s" % t[:60])

    def cond(self, node):
        if isinstance(node, ast.BoolOp):
            return "(" + (" && " if isinstance(node.op, ast.And) else " || ").join(self.cond(v) for v in node.values) + ")"
        if isinstance(node, ast.UnaryOp) and isinstance(node.op, ast.Not):
            return "(negb %s)" % self.cond(node.operand)
        if isinstance(node, ast.Compare) and len(node.ops) == 1:
            op, a, b = node.ops[0], node.left, node.comparators[0]
            if isinstance(op, ast.In):
                if _u(b) == self.mgr + ".allowed_utypes":
                    k = self.cstr(a)
                    if k is None:
                        raise Untranslatable("membership of a non-constant in allowed_utypes")
                    return "true" if k in self.allowed else "false"
                if isinstance(b, ast.Subscript) and _u(b.value) == self.mgr + ".units":
                    k = self.key(b.slice, _u(node))
                    term, kind = self.uval(a)
                    if kind != KINDS[k]["ty"]:
                        raise Untranslatable("%s: a value of kind %s tested against the units of %s" % (_u(node), kind, k))
                    return "(%s %s %s)" % (KINDS[k]["mem"], term, KINDS[k]["lst"])
            if isinstance(op, (ast.Is, ast.IsNot)) and isinstance(b, ast.Constant) and b.value is None:
                if _u(a) == "ext_ty" and self.mode == "exit":
                    t = "(negb exc)"
                else:
                    term, kind = self.uval(a)
                    if not kind.startswith("opt "):
                        raise Untranslatable("`%s`: not an optional value" % _u(node))
                    t = "(is_none %s)" % term
                return t if isinstance(op, ast.Is) else "(negb %s)" % t
            tab = {ast.Eq: "(%s =? %s)%%Z", ast.NotEq: "(negb (%s =? %s)%%Z)", ast.Lt: "(%s <? %s)%%Z", ast.LtE: "(%s <=? %s)%%Z",
                   ast.Gt: "(%s >? %s)%%Z", ast.GtE: "(%s >=? %s)%%Z"}
            if type(op) in tab:
                return tab[type(op)] % (self.zterm(a), self.zterm(b))
        raise Untranslatable("condition %s" % _u(node)[:80])

    # ---- path ends
    def end(self, suppress="false"):
        if self.mode in ("set", "unset"):
            return "Some %s" % STATE
        if self.mode == "enter":
            return "Some (%s, %s)" % (STATE, self.vals["self.units_backup"][0])
        if self.mode == "exit":
            return "Some (%s, %s, %s)" % (STATE, self.vals["self.units_backup"][0], suppress)
        if self.mode == "init":
            if not self.units_set or "self.utype" not in self.consts:
                raise Untranslatable("__init__ ends without self.units / self.utype being set")
            return "Some (%s, %s)" % (self.vals["self.units"][0], self.vals["self.units_backup"][0])
        raise Untranslatable("the method can fall off its end")

    # ---- statements
    def block(self, stmts, k=None):
        k = k or (lambda tr: tr.end())
        stmts = _strip(stmts)
        if not stmts:
            return k(self)
        s, rest = stmts[0], stmts[1:]
        text = _u(s)
        M = self.mgr

        def go():
            return self.block(rest, k)
        if text == "self.manager = Manager()":
            return go()
        if isinstance(s, ast.Raise):
            return "None"
        if isinstance(s, ast.Return):
            if self.mode == "get":
                if s.value is None:
                    raise Untranslatable("get_current_units returns nothing")
                term, kind = self.uval(s.value)
                return "Some %s" % term
            if self.mode in ("exit", "enter"):
                if s.value is None or (isinstance(s.value, ast.Constant) and s.value.value in (None, False)):
                    return self.end("false")
                if isinstance(s.value, ast.Constant) and s.value.value is True:
                    return self.end("true")
            raise Untranslatable("return %s" % text)
        if isinstance(s, ast.If):
            c = self.cond(s.test)
            a, b = self.fork(), self.fork()
            ta = a.block(list(s.body) + rest, k)
            tb = b.block(list(s.orelse) + rest, k)
            return "(if %s\n   then %s\n   else %s)" % (c, ta, tb)
        if isinstance(s, ast.Try):
            # try: X = M._saved_units[K]   except KeyError: <raise ...>
            if (len(s.body) == 1 and isinstance(s.body[0], ast.Assign) and len(s.handlers) == 1 and not s.orelse and not s.finalbody
                    and s.handlers[0].type is not None and _u(s.handlers[0].type) == "KeyError"
                    and isinstance(s.body[0].value, ast.Subscript) and _u(s.body[0].value.value) == M + "._saved_units"
                    and isinstance(s.body[0].targets[0], ast.Name)):
                kk = self.key(s.body[0].value.slice, text)
                v = self.new("c")
                h = self.fork().block(list(s.handlers[0].body) + rest, k)
                self.vals[s.body[0].targets[0].id] = (v, KINDS[kk]["ty"])
                return "match %s with\n  | None => %s\n  | Some %s => %s\n  end" % (KINDS[kk]["saved"], h, v, go())
            raise Untranslatable("try statement %s" % text[:80])
        if isinstance(s, ast.AugAssign) and _u(s.target) == M + "._in_eu_count" and isinstance(s.op, (ast.Add, ast.Sub)):
            return "let n := (n %s %s)%%Z in\n  %s" % ("+" if isinstance(s.op, ast.Add) else "-", self.zterm(s.value), go())
        if isinstance(s, ast.Assign) and len(s.targets) == 1:
            t, tt = s.targets[0], _u(s.targets[0])
            if tt == M + "._saved_units" and _u(s.value) == "{}":
                return "let se := None in let sl := None in\n  %s" % go()
            if tt == M + "._in_energy_units_context" and isinstance(s.value, ast.Constant) and isinstance(s.value.value, bool):
                return "let f := %s in\n  %s" % ("true" if s.value.value else "false", go())
            if isinstance(t, ast.Subscript) and _u(t.value) == M + "._saved_units":
                kk = self.key(t.slice, tt)
                return self.rhs(s.value, lambda term, kind: self.need(term, kind, KINDS[kk]["ty"], lambda u: "let %s := Some %s in\n  %s"
                                                                      % (KINDS[kk]["saved"], u, go())))
            if isinstance(t, ast.Subscript) and _u(t.value) == M + ".current_units":
                kk = self.key(t.slice, tt)
                return self.rhs(s.value, lambda term, kind: self.need(term, kind, KINDS[kk]["ty"], lambda u: "let %s := %s in\n  %s"
                                                                      % (KINDS[kk]["cur"], u, go())))
            if tt == "self.utype" and self.mode == "init":
                c = self.cstr(s.value)
                if c is None:
                    raise Untranslatable("self.utype set to a non-constant")
                self.consts["self.utype"] = c
                return go()
            if tt == "self.units" and self.mode == "init":
                term, kind = self.uval(s.value)
                if kind not in ("eunit", "lunit"):
                    raise Untranslatable("self.units set to a value of kind %s" % kind)
                self.vals["self.units"] = (term, kind)
                self.units_set = True
                return go()
            if tt == "self.units_backup" and self.mode in ("init", "enter", "exit"):
                ty = self.vals["self.units"][1] if "self.units" in self.vals else self.objty

                def bind(term, kind):
                    v = self.new("b")
                    if kind == "none":
                        val = "(@None %s)" % ty
                    elif kind == ty:
                        val = "(Some %s)" % term
                    elif kind == "opt " + ty:
                        val = term
                    else:
                        raise Untranslatable("self.units_backup set to a value of kind %s" % kind)
                    self.vals["self.units_backup"] = (v, "opt " + ty)
                    return "let %s := %s in\n  %s" % (v, val, go())
                return self.rhs(s.value, bind)
            if isinstance(t, ast.Name):
                def bind(term, kind):
                    self.vals[t.id] = (term, kind)
                    return go()
                return self.rhs(s.value, bind)
            raise Untranslatable("assignment %s" % text[:80])
        if isinstance(s, ast.Expr) and isinstance(s.value, ast.Call):
            call = s.value
            f = _u(call.func)
            if f == M + ".set_current_units" and len(call.args) == 2 and not call.keywords and self.mode in ("enter", "exit"):
                kk = self.key(call.args[0], text)
                s1 = self.new("s")

                def doit(u):
                    return ("match gen_set_%s %s %s with None => None | Some %s =>\n  " % (KINDS[kk]["sfx"], STATE, u, s1)
                            + OPEN % ((s1,) * 6) + go() + " end")
                return self.rhs(call.args[1], lambda term, kind: self.need(term, kind, KINDS[kk]["ty"], doit))
            if f == "super().__init__" and self.mode == "init":
                base = _src_of(self.repo + MANAGERS, "units_context_manager.__init__")
                params = [a.arg for a in base.args.args][1:]
                given = {}
                for p, a in zip(params, call.args):
                    given[p] = a
                for kw in call.keywords:
                    given[kw.arg] = kw.value
                defaults = dict(zip(params[len(params) - len(base.args.defaults):], base.args.defaults))
                for p in params:
                    node = given.get(p, defaults.get(p))
                    c = self.cstr(node) if node is not None else None
                    if c is None:
                        raise Untranslatable("argument %s of the base __init__ is not a constant string" % p)
                    self.consts[p] = c
                return self.block(list(base.body) + rest, k)
        raise Untranslatable("statement %s" % text[:100])


def _method(repo, qual):
    return _src_of(repo + MANAGERS, qual)


def manager_state(repo, allowed):
    out = []
    for key in ("energy", "length"):
        info = KINDS[key]
        sfx, ty = info["sfx"], info["ty"]
        # get_current_units(utype)
        fn = _method(repo, "Manager.get_current_units")
        if [a.arg for a in fn.args.args] != ["self", "utype"]:
            raise Untranslatable("get_current_units signature")
        t = SImp(repo, allowed, "self", "get", consts={"utype": key}).block(fn.body)
        out.append("Definition gen_get_%s (s : ust) : option %s :=\n  %s%s.\n" % (sfx, ty, OPEN % (("s",) * 6), t))
        out.append("Lemma gen_get_%s_is_model s : gen_get_%s s = Some (cur_%s s).\nProof. destruct s; reflexivity. Qed.\n" % (sfx, sfx, sfx))
        # set_current_units(utype, units)
        fn = _method(repo, "Manager.set_current_units")
        if [a.arg for a in fn.args.args] != ["self", "utype", "units"]:
            raise Untranslatable("set_current_units signature")
        t = SImp(repo, allowed, "self", "set", consts={"utype": key}, vals={"units": ("units", ty)}).block(fn.body)
        out.append("Definition gen_set_%s (s : ust) (units : %s) : option ust :=\n  %s%s.\n" % (sfx, ty, OPEN % (("s",) * 6), t))
        out.append("Lemma gen_set_%s_is_model s u : gen_set_%s s u = Some (set_%s s u).\nProof. destruct s; destruct u; reflexivity. Qed.\n" % (sfx, sfx, sfx))
    fn = _method(repo, "Manager.unset_current_units")
    if [a.arg for a in fn.args.args] != ["self", "utype"]:
        raise Untranslatable("unset_current_units signature")
    t = SImp(repo, allowed, "self", "unset", consts={"utype": "energy"}).block(fn.body)
    out.append("Definition gen_unset_e (s : ust) : option ust :=\n  %s%s.\n" % (OPEN % (("s",) * 6), t))
    out.append("Lemma gen_unset_e_is_model s : gen_unset_e s = unset_e s.\nProof. destruct s as [ce cl [c|] sl n f]; [destruct c|]; reflexivity. Qed.\n")
    return "\n".join(out)


EXIT_PROOF = ("Proof.\n  destruct s as [ce cl se sl n f]. unfold gen_exit_%(x)s. cbn [cur_e cur_l saved_e saved_l count in_eu].\n"
              "  rewrite ?gen_set_e_is_model, ?gen_set_l_is_model, ?gen_get_e_is_model, ?gen_get_l_is_model. unfold exit_e, set_e, set_l.\n"
              "  cbn [cur_e cur_l saved_e saved_l count in_eu is_none negb].\n"
              "  repeat match goal with |- context [if ?c then _ else _] => destruct c eqn:? end; try reflexivity; try (exfalso; lia).\nQed.\n")


def contexts(repo, allowed):
    out = []
    for cls, key, x in (("energy_units", "energy", "eu"), ("length_units", "length", "lu")):
        info = KINDS[key]
        ty = info["ty"]
        # __init__(self, units)
        fn = _method(repo, cls + ".__init__")
        if [a.arg for a in fn.args.args] != ["self", "units"]:
            raise Untranslatable("%s.__init__ signature" % cls)
        cdef = [c for c in _module(repo + MANAGERS).body if isinstance(c, ast.ClassDef) and c.name == cls][0]
        if [_u(b) for b in cdef.bases] != ["units_context_manager"]:
            raise Untranslatable("%s bases" % cls)
        init = SImp(repo, allowed, "self.manager", "init", vals={"units": ("units", ty), "self.units_backup": ("(@None %s)" % ty, "opt " + ty)}, objty=ty)
        t = init.block(fn.body)
        utype = _init_utype(repo, allowed, cls, ty)
        if utype != key:
            raise Untranslatable("%s objects carry utype %r" % (cls, utype))
        out.append("Definition gen_init_%s (units : %s) : option (%s * option %s) :=\n  %s.\n" % (x, ty, ty, ty, t))
        out.append("Lemma gen_init_%s_is_model u : exists b, gen_init_%s u = Some (u, b).\nProof. destruct u; eexists; reflexivity. Qed.\n" % (x, x))
        consts = {"self.utype": utype}
        # __enter__
        fn = _method(repo, cls + ".__enter__")
        if [a.arg for a in fn.args.args] != ["self"]:
            raise Untranslatable("%s.__enter__ signature" % cls)
        en = SImp(repo, allowed, "self.manager", "enter", consts=consts, vals={"self.units": ("o_units", ty), "self.units_backup": ("o_backup", "opt " + ty)}, objty=ty)
        t = en.block(fn.body)
        out.append("Definition gen_enter_%s (s : ust) (o_units : %s) (o_backup : option %s) : option (ust * option %s) :=\n  %s%s.\n"
                   % (x, ty, ty, ty, OPEN % (("s",) * 6), t))
        model = "enter_e s u" if key == "energy" else "set_l s u"
        out.append("Lemma gen_enter_%s_is_model s u b0 : gen_enter_%s s u b0 = Some (%s, Some (cur_%s s)).\n"
                   "Proof. destruct s; destruct u; destruct b0; reflexivity. Qed.\n" % (x, x, model, info["sfx"]))
        # __exit__
        fn = _method(repo, cls + ".__exit__")
        if [a.arg for a in fn.args.args] != ["self", "ext_ty", "exc_val", "tb"]:
            raise Untranslatable("%s.__exit__ signature" % cls)
        ex = SImp(repo, allowed, "self.manager", "exit", consts=consts, vals={"self.units": ("o_units", ty), "self.units_backup": ("o_backup", "opt " + ty)}, objty=ty)
        t = ex.block(fn.body)
        out.append("Definition gen_exit_%s (exc : bool) (s : ust) (o_units : %s) (o_backup : option %s) : option (ust * option %s * bool) :=\n  %s%s.\n"
                   % (x, ty, ty, ty, OPEN % (("s",) * 6), t))
        model = "exit_e s b" if key == "energy" else "set_l s b"
        out.append("Lemma gen_exit_%s_is_model exc s u b : gen_exit_%s exc s u (Some b) = Some (%s, Some b, false).\n" % (x, x, model)
                   + EXIT_PROOF % {"x": x})
        pw = "PWithE" if key == "energy" else "PWithL"
        lem = "with_e_is_model" if key == "energy" else "with_l_is_model"
        out.append("(* `with %s(u): body` of a program of Model/C05.v, run through the generated __enter__/__exit__, is the model's %s *)\n"
                   "Lemma gen_with_%s : forall u b0 body s, with_skel %s gen_enter_%s gen_exit_%s u b0 (exec body) s = exec (%s u body) s.\n"
                   "Proof. apply %s; [exact gen_enter_%s_is_model | exact gen_exit_%s_is_model]. Qed.\n" % (cls, pw, x, ty, x, x, pw, lem, x, x))
    # frequency_units is energy_units
    cdef = [c for c in _module(repo + MANAGERS).body if isinstance(c, ast.ClassDef) and c.name == "frequency_units"]
    if len(cdef) != 1 or [_u(b) for b in cdef[0].bases] != ["energy_units"] or _strip(cdef[0].body):
        raise Untranslatable("frequency_units is not energy_units unchanged")
    return "\n".join(out)


def _init_utype(repo, allowed, cls, ty):
    """the constant `self.utype` an object of the context class carries after __init__ (the assignment sits under an `if` whose
    other branch raises; found by walking the base __init__ with the constant arguments of the super() call)"""
    fn = _method(repo, cls + ".__init__")
    calls = [s for s in _strip(fn.body) if isinstance(s, ast.Expr) and isinstance(s.value, ast.Call) and _u(s.value.func) == "super().__init__"]
    if len(calls) != 1 or _strip(fn.body)[0] is not calls[0]:
        raise Untranslatable("%s.__init__ does not start with the call of the base __init__" % cls)
    base = _method(repo, "units_context_manager.__init__")
    call = calls[0].value
    params = [a.arg for a in base.args.args][1:]
    given = dict(zip(params, call.args))
    given.update({kw.arg: kw.value for kw in call.keywords})
    node = given.get("utype")
    if node is None:
        d = dict(zip(params[len(params) - len(base.args.defaults):], base.args.defaults))
        node = d.get("utype")
    if not (isinstance(node, ast.Constant) and isinstance(node.value, str)):
        raise Untranslatable("utype handed to the base __init__ is not a constant")
    stores = [n for n in ast.walk(base) if isinstance(n, ast.Assign) and _u(n.targets[0]) == "self.utype"]
    stores2 = [n for n in ast.walk(fn) if isinstance(n, ast.Assign) and _u(n.targets[0]) == "self.utype"]
    if len(stores) != 1 or _u(stores[0].value) != "utype" or stores2:
        raise Untranslatable("self.utype is not set exactly once, from the argument of the base __init__")
    return node.value


# ----------------------------------------------------------------------------------------------- delegations and property wrappers
GEN_OF = {"convert_energy_2_internal_u": "gen_e2i", "convert_energy_2_current_u": "gen_i2c",
          "convert_length_2_internal_u": "gen_l2i", "convert_length_2_current_u": "gen_i2l"}


def delegations(repo):
    out = []
    want = [("EnergyUnitsManaged", "convert_2_internal_u", "gen_e2i"), ("EnergyUnitsManaged", "convert_2_current_u", "gen_i2c"),
            ("LengthUnitsManaged", "convert_2_internal_u", "gen_l2i"), ("LengthUnitsManaged", "convert_2_current_u", "gen_i2l"),
            ("UnitsManaged", "convert_energy_2_internal_u", "gen_e2i"), ("UnitsManaged", "convert_energy_2_current_u", "gen_i2c"),
            ("UnitsManaged", "convert_length_2_internal_u", "gen_l2i"), ("UnitsManaged", "convert_length_2_current_u", "gen_i2l")]
    for cls, meth, expect in want:
        fn = _method(repo, cls + "." + meth)
        body = _strip(fn.body)
        if not ([a.arg for a in fn.args.args] == ["self", "val"] and len(body) == 1 and isinstance(body[0], ast.Return)
                and isinstance(body[0].value, ast.Call) and isinstance(body[0].value.func, ast.Attribute)
                and _u(body[0].value.func.value) == "self.manager" and [_u(a) for a in body[0].value.args] == ["val"] and not body[0].value.keywords):
            raise Untranslatable("%s.%s is not a delegation to the manager" % (cls, meth))
        target = body[0].value.func.attr
        if target not in GEN_OF:
            raise Untranslatable("%s.%s delegates to %s" % (cls, meth, target))
        g = "gen_%s_%s" % (cls, meth)
        ty = "eunit" if GEN_OF[target] in ("gen_e2i", "gen_i2c") else "lunit"
        out.append("Definition %s (fac : %s -> Q) (u : %s) (x : Q) : Q := %s fac u x.\n"
                   "Lemma %s_is_model fac u x : %s fac u x = %s fac u x.\nProof. reflexivity. Qed.\n" % (g, ty, ty, GEN_OF[target], g, g, expect))
    return "\n".join(out)


BASIS_BLOCK = ("cb = self.manager.get_current_basis()", "ob = self.get_current_basis()",
               "if cb == ob:\n    pass\nelse:\n    self.manager.transform_to_current_basis(self)")
SHAPE_CHECK = "if not shape == None:\n    if not shape == vl.shape:\n        raise TypeError('{} must be of shape {}'.format(name, shape))"


def _vexpr(node, names):
    """value flow of a property: names, self.convert_2_internal_u(e) -> (int e), self.convert_2_current_u(e) -> (cur e),
    getattr(self, storage_name) -> stored, check_numpy_array(e) -> e (the same numbers as an array)"""
    if isinstance(node, ast.Name) and node.id in names:
        return names[node.id]
    if isinstance(node, ast.Call) and not node.keywords:
        f = _u(node.func)
        if f == "self.convert_2_internal_u" and len(node.args) == 1:
            return "(int %s)" % _vexpr(node.args[0], names)
        if f == "self.convert_2_current_u" and len(node.args) == 1:
            return "(cur %s)" % _vexpr(node.args[0], names)
        if f == "getattr" and [_u(a) for a in node.args] == ["self", "storage_name"]:
            return "stored"
        if f == "check_numpy_array" and len(node.args) == 1:
            return _vexpr(node.args[0], names)
    raise Untranslatable("property value %s" % _u(node)[:80])


def _prop_functions(factory):
    getter = setter = None
    for s in factory.body:
        if isinstance(s, ast.FunctionDef) and s.name == "prop":
            decos = [_u(d) for d in s.decorator_list]
            if decos == ["property"]:
                getter = s
            elif decos == ["prop.setter"]:
                setter = s
    rets = [s for s in factory.body if isinstance(s, ast.Return)]
    stor = [s for s in factory.body if isinstance(s, ast.Assign) and _u(s) == "storage_name = '_' + name"]
    if getter is None or setter is None or len(rets) != 1 or _u(rets[0]) != "return prop" or len(stor) != 1:
        raise Untranslatable("%s: getter / setter / storage name" % factory.name)
    return getter, setter


def _flow(stmts, names, what):
    """straight-line value flow ending in `return e` (getter) or `setattr(self, storage_name, e)` (setter)"""
    stmts = _strip(stmts)
    texts = [_u(s) for s in stmts]
    if tuple(texts[:3]) == BASIS_BLOCK:
        stmts = stmts[3:]
    names = dict(names)
    for i, s in enumerate(stmts):
        if _u(s) == SHAPE_CHECK:
            continue
        if isinstance(s, ast.Assign) and len(s.targets) == 1 and isinstance(s.targets[0], ast.Name):
            names[s.targets[0].id] = _vexpr(s.value, names)
            continue
        if isinstance(s, ast.Return) and s.value is not None and i == len(stmts) - 1:
            return "get", _vexpr(s.value, names)
        if isinstance(s, ast.Expr) and isinstance(s.value, ast.Call) and _u(s.value.func) == "setattr" and len(s.value.args) == 3 \
                and [_u(a) for a in s.value.args[:2]] == ["self", "storage_name"] and i == len(stmts) - 1:
            return "set", _vexpr(s.value.args[2], names)
        if isinstance(s, ast.If) and _u(s.test) == "isinstance(value, dtype)" and i == len(stmts) - 1 \
                and len(_strip(s.orelse)) == 1 and isinstance(_strip(s.orelse)[0], ast.Raise):
            return _flow(s.body, names, what)
        if isinstance(s, ast.Try) and i == len(stmts) - 1 and len(s.handlers) == 1 and not s.orelse and not s.finalbody \
                and len(_strip(s.handlers[0].body)) == 1 and isinstance(_strip(s.handlers[0].body)[0], ast.Raise):
            return _flow(s.body, names, what)
        raise Untranslatable("%s: statement %s" % (what, _u(s)[:80]))
    raise Untranslatable("%s: no result" % what)


def properties(repo):
    out = []
    for fac in ("units_managed_property", "units_managed_array_property", "managed_array_property"):
        fn = _src_of(repo + TYPES, fac)
        getter, setter = _prop_functions(fn)
        if [a.arg for a in getter.args.args] != ["self"] or [a.arg for a in setter.args.args] != ["self", "value"]:
            raise Untranslatable("%s: signatures of the accessors" % fac)
        k1, g = _flow(getter.body, {}, fac + " getter")
        k2, st = _flow(setter.body, {"value": "value"}, fac + " setter")
        if (k1, k2) != ("get", "set"):
            raise Untranslatable("%s: getter does not return / setter does not store" % fac)
        out.append("Definition gen_%(f)s_get (int cur : Q -> Q) (stored : Q) : Q := %(g)s.\n"
                   "Definition gen_%(f)s_set (int cur : Q -> Q) (value : Q) : Q := %(s)s.\n"
                   "Lemma gen_%(f)s_is_model : forall fac u v x,\n"
                   "  gen_%(f)s_get (gen_EnergyUnitsManaged_convert_2_internal_u fac v) (gen_EnergyUnitsManaged_convert_2_current_u fac v)\n"
                   "    (gen_%(f)s_set (gen_EnergyUnitsManaged_convert_2_internal_u fac u) (gen_EnergyUnitsManaged_convert_2_current_u fac u) x)\n"
                   "  = gen_i2c fac v (gen_e2i fac u x).\nProof. reflexivity. Qed.\n" % {"f": fac, "g": g, "s": st})
    return "\n".join(out)


# ----------------------------------------------------------------------------------------------- qr.convert / in_current_units
def convert_functions(repo):
    """units.py: convert(val, in_units, to=None) and in_current_units(val, in_units):
       with energy_units(U): X = m.convert_energy_2_internal_u(E)   ->   let X := gen_e2i fac U E
       X = m.convert_energy_2_current_u(E)  (outside any with)        ->   let X := gen_i2c fac cur E
       if to is None: A else: B ; return X"""
    out = []
    for fname, params in (("convert", ["val", "in_units", "to"]), ("in_current_units", ["val", "in_units"])):
        fn = _src_of(repo + UNITS, fname)
        if [a.arg for a in fn.args.args] != params:
            raise Untranslatable("%s signature" % fname)
        if fname == "convert" and [_u(d) for d in fn.args.defaults] != ["None"]:
            raise Untranslatable("convert: default of `to`")

        def conv(node, unit, names):
            if isinstance(node, ast.Call) and not node.keywords and len(node.args) == 1 and isinstance(node.args[0], ast.Name) \
                    and node.args[0].id in names and _u(node.func) in ("m.convert_energy_2_internal_u", "m.convert_energy_2_current_u"):
                g = "gen_e2i" if _u(node.func).endswith("internal_u") else "gen_i2c"
                return "(%s fac %s %s)" % (g, unit, names[node.args[0].id])
            raise Untranslatable("%s: %s" % (fname, _u(node)[:80]))

        def block(stmts, names, units):
            stmts = _strip(stmts)
            if not stmts:
                raise Untranslatable("%s: falls off its end" % fname)
            s, rest = stmts[0], stmts[1:]
            if isinstance(s, ast.ImportFrom) or _u(s) == "m = Manager()":
                return block(rest, names, units)
            if isinstance(s, ast.Return) and isinstance(s.value, ast.Name) and s.value.id in names:
                return names[s.value.id]
            if isinstance(s, ast.Return) and isinstance(s.value, ast.Call):
                return conv(s.value, "cur", names)
            if isinstance(s, ast.Assign) and len(s.targets) == 1 and isinstance(s.targets[0], ast.Name):
                v = "v_" + s.targets[0].id
                t = conv(s.value, "cur", names)
                return "let %s := %s in %s" % (v, t, block(rest, dict(names, **{s.targets[0].id: v}), units))
            if isinstance(s, ast.With) and len(s.items) == 1 and s.items[0].optional_vars is None and isinstance(s.items[0].context_expr, ast.Call) \
                    and _u(s.items[0].context_expr.func) == "energy_units" and len(s.items[0].context_expr.args) == 1 \
                    and isinstance(s.items[0].context_expr.args[0], ast.Name) and s.items[0].context_expr.args[0].id in units \
                    and len(_strip(s.body)) == 1 and isinstance(_strip(s.body)[0], ast.Assign) and isinstance(_strip(s.body)[0].targets[0], ast.Name):
                a = _strip(s.body)[0]
                v = "v_" + a.targets[0].id
                t = conv(a.value, units[s.items[0].context_expr.args[0].id], names)
                return "let %s := %s in %s" % (v, t, block(rest, dict(names, **{a.targets[0].id: v}), units))
            if isinstance(s, ast.If) and _u(s.test) in ("to is None", "to is not None") and "to" in params:
                none_branch, some_branch = (s.body, s.orelse) if _u(s.test) == "to is None" else (s.orelse, s.body)
                a = block(list(none_branch) + rest, names, dict(units))
                b = block(list(some_branch) + rest, names, dict(units, to="to_u"))
                return "match to with None => %s | Some to_u => %s end" % (a, b)
            raise Untranslatable("%s: statement %s" % (fname, _u(s)[:80]))
        t = block(fn.body, {"val": "x"}, {"in_units": "in_units"})
        if fname == "convert":
            out.append("Definition gen_convert (fac : eunit -> Q) (cur : eunit) (in_units : eunit) (to : option eunit) (x : Q) : Q :=\n  %s.\n"
                       "Lemma gen_convert_is_model fac cur u v x : (forall u, ~ fac u == 0) -> (is_nm u = true \\/ is_nm v = true -> ~ x == 0) ->\n"
                       "  gen_convert fac cur u (Some v) x == convert fac u v x.\n"
                       "Proof. intros. unfold gen_convert. cbv zeta. apply gen_supply_then_read; assumption. Qed.\n"
                       "Lemma gen_convert_to_current fac cur u x : (forall u, ~ fac u == 0) -> (is_nm u = true \\/ is_nm cur = true -> ~ x == 0) ->\n"
                       "  gen_convert fac cur u None x == convert fac u cur x.\n"
                       "Proof. intros. unfold gen_convert. cbv zeta. apply gen_supply_then_read; assumption. Qed.\n" % t)
        else:
            out.append("Definition gen_in_current_units (fac : eunit -> Q) (cur : eunit) (in_units : eunit) (x : Q) : Q :=\n  %s.\n"
                       "Lemma gen_in_current_units_is_model fac cur u x : (forall u, ~ fac u == 0) -> (is_nm u = true \\/ is_nm cur = true -> ~ x == 0) ->\n"
                       "  gen_in_current_units fac cur u x == convert fac u cur x.\n"
                       "Proof. intros. unfold gen_in_current_units. cbv zeta. apply gen_supply_then_read; assumption. Qed.\n" % t)
    return "\n".join(out)


# ----------------------------------------------------------------------------------------------- Aggregate.build and raw switches
def build_switch(repo):
    fn = _src_of(repo + AGGBASE, "AggregateBase.build")
    body = _strip(fn.body)
    if not (len(body) == 1 and isinstance(body[0], ast.With) and len(body[0].items) == 1 and body[0].items[0].optional_vars is None):
        raise Untranslatable("AggregateBase.build is not a single `with` statement")
    ce = body[0].items[0].context_expr
    if not (isinstance(ce, ast.Call) and _u(ce.func) == "energy_units" and len(ce.args) == 1 and isinstance(ce.args[0], ast.Constant)
            and ce.args[0].value in EUNITS and not ce.keywords):
        raise Untranslatable("AggregateBase.build: context %s" % _u(ce))
    imps = [s for s in _module(repo + AGGBASE).body if isinstance(s, ast.ImportFrom) and s.module == "core.managers" and s.level == 2
            and any(a.name == "energy_units" and a.asname is None for a in s.names)]
    if not imps:
        raise Untranslatable("aggregate_base.py: energy_units is not the context manager of core.managers")
    # no raw switch of the units anywhere in the package outside core/managers.py
    pat = re.compile(r"\.(un)?set_current_units\s*\(|\bcurrent_units\s*\[[^\]]*\]\s*=[^=]|\._saved_units\b")
    for root, _, files in os.walk(repo + "/quantarhei"):
        for f in files:
            if f.endswith(".py"):
                p = os.path.join(root, f)
                if p == repo + MANAGERS:
                    continue
                src = open(p, errors="replace").read()
                m = pat.search(src)
                if m:
                    raise Untranslatable("raw switch of the current units outside core/managers.py: %s (%s)" % (os.path.relpath(p, repo), m.group(0)))
    return ("Definition gen_build_units : eunit := %s.\nDefinition gen_build_variant : build_variant := ContextSwitch.\n"
            "Lemma gen_build_is_model : forall body s, exec (PBuild gen_build_variant body) s = exec (PWithE gen_build_units body) s /\\ gen_build_units = E_int /\\\n"
            "  (forall body, repaired (PBuild gen_build_variant body) = repaired body).\n"
            "Proof. intros. repeat split. Qed.\n" % EUNITS[ce.args[0].value])


# ----------------------------------------------------------------------------------------------- units under which library code touches managed attributes
ACCESS_SPECS = [
    # (file, qualified function, receivers that are FrequencyAxis objects there, description)
    ("/quantarhei/core/frequency.py", "FrequencyAxis.get_TimeAxis", ("self",)),
    ("/quantarhei/core/frequency.py", "FrequencyAxis.copy", ("self",)),
    ("/quantarhei/core/time.py", "TimeAxis.get_FrequencyAxis", ()),
    ("/quantarhei/core/dfunction.py", "DFunction.get_Fourier_transform", ("w",)),
    ("/quantarhei/core/dfunction.py", "DFunction.get_inverse_Fourier_transform", ("w",)),
]
MANAGED_ATTRS = ("data", "start", "step")


def managed_accesses(repo):
    """every read of a units-managed attribute of a FrequencyAxis (data, start, step) and every construction of a FrequencyAxis
    inside the axis-conversion functions, with the units that are current at that point: E_int inside `with energy_units("int")`,
    the caller's units otherwise"""
    out, names = [], []
    for path, qual, receivers in ACCESS_SPECS:
        mod = _module(repo + path)
        ok = [s for s in mod.body if isinstance(s, ast.ImportFrom) and s.module == "managers" and s.level == 1
              and any(a.name == "energy_units" and a.asname is None for a in s.names)]
        if not ok:
            raise Untranslatable("%s: energy_units is not imported from .managers" % path)
        fn = _src_of(repo + path, qual)
        found = []

        def visit(node, inside):
            if isinstance(node, (ast.FunctionDef, ast.Lambda, ast.ClassDef)) and node is not fn:
                inside = False                       # runs later, under whatever units are current then
            if isinstance(node, ast.With):
                here = inside
                for it in node.items:
                    ce = it.context_expr
                    visit(ce, inside)
                    if isinstance(ce, ast.Call) and _u(ce.func) == "energy_units":
                        if len(ce.args) == 1 and isinstance(ce.args[0], ast.Constant) and ce.args[0].value == "int" and not ce.keywords:
                            here = True
                        else:
                            raise Untranslatable("%s: units context %s" % (qual, _u(ce)))
                for st in node.body:
                    visit(st, here)
                return
            if isinstance(node, ast.Attribute) and node.attr in MANAGED_ATTRS and isinstance(node.value, ast.Name) and node.value.id in receivers:
                found.append((node.lineno, node.col_offset, _u(node), inside))
            if isinstance(node, ast.Call) and _u(node.func) == "FrequencyAxis":
                found.append((node.lineno, node.col_offset, "FrequencyAxis(...)", inside))
            for ch in ast.iter_child_nodes(node):
                visit(ch, inside)
        visit(fn, False)
        if not found:
            raise Untranslatable("%s: no access to a units-managed attribute found" % qual)
        found.sort()
        g = "gen_access_units_" + qual.replace(".", "_")
        names.append(g)
        out.append("(* %s: %s *)\nDefinition %s (cur : eunit) : list eunit := [%s].\n"
                   % (qual, "; ".join("%s %s" % (t, "inside" if i else "OUTSIDE") for (_, _, t, i) in found), g,
                      "; ".join("E_int" if i else "cur" for (_, _, _, i) in found)))
    out.append("(* whatever units the caller has, these functions read and write the managed attributes as stored (internal) values *)\n"
               "Lemma gen_accesses_internal : forall (fac : eunit -> Q) cur x, fac E_int == 1 ->\n"
               "  Forall (fun u => to_cur fac u x == x /\\ to_int fac u x == x) (%s).\n"
               "Proof.\n  intros fac cur x Hf. apply accesses_internal; [exact Hf|]. intros u Hin. cbn in Hin.\n"
               "  repeat (destruct Hin as [<-|Hin]; [reflexivity|]). contradiction.\nQed.\n" % " ++ ".join("%s cur" % g for g in names))
    return "\n".join(out)



RAW_SPECS = [
    # (file, qualified function, parameter that carries an energy in the caller's units)
    ("/quantarhei/qm/hilbertspace/hamiltonian.py", "Hamiltonian.subtract_cutoff_coupling", "coupling_cutoff"),
    ("/quantarhei/builders/aggregate_base.py", "AggregateBase.set_resonance_coupling", "coupling"),
    ("/quantarhei/builders/molecules.py", "Molecule.set_energy", "en"),
    ("/quantarhei/builders/submodes.py", "SubMode.__init__", "omega"),
    ("/quantarhei/builders/modes.py", "Mode.__init__", "frequency"),
]
TO_INTERNAL = ("self.convert_2_internal_u", "self.convert_energy_2_internal_u", "Manager().convert_energy_2_internal_u",
               "self.manager.convert_energy_2_internal_u")


def raw_arguments(repo):
    """every use of an energy-valued argument inside the listed setters: E_int when it goes through the conversion to internal
    units, the caller's units when the number is used as it came.  Tests that do not depend on the unit (is None, type, sign) are
    not uses of the value."""
    out, names = [], []
    for path, qual, param in RAW_SPECS:
        fn = _src_of(repo + path, qual)
        if param not in [a.arg for a in fn.args.args]:
            raise Untranslatable("%s has no parameter %s" % (qual, param))
        parents = {}
        for n in ast.walk(fn):
            for ch in ast.iter_child_nodes(n):
                parents[ch] = n
        uses = []
        for n in ast.walk(fn):
            if not (isinstance(n, ast.Name) and n.id == param):
                continue
            if isinstance(n.ctx, ast.Store):
                asg = parents.get(n)
                if isinstance(asg, ast.Assign) and isinstance(asg.value, ast.Constant) and asg.value.value in (0, 0.0) and not isinstance(asg.value.value, bool):
                    continue                      # default zero: the same quantity in every unit
                raise Untranslatable("%s: the argument %s is reassigned (%s)" % (qual, param, _u(asg)[:60] if asg is not None else ""))
            par = parents.get(n)
            if isinstance(par, ast.Call) and _u(par.func) in TO_INTERNAL and len(par.args) == 1 and par.args[0] is n and not par.keywords:
                uses.append((n.lineno, n.col_offset, "converted", True))
                continue
            if isinstance(par, ast.Compare) and len(par.ops) == 1:
                other = par.comparators[0] if par.left is n else par.left
                if isinstance(par.ops[0], (ast.Is, ast.IsNot)) and isinstance(other, ast.Constant) and other.value is None:
                    continue
                if isinstance(other, ast.Constant) and other.value in (0, 0.0) and not isinstance(other.value, bool) \
                        and isinstance(par.ops[0], (ast.Lt, ast.LtE, ast.Gt, ast.GtE, ast.Eq, ast.NotEq)):
                    continue                      # sign test: the conversion factors are positive
            if isinstance(par, ast.Call) and _u(par.func) in ("type", "isinstance", "len") and par.args and par.args[0] is n:
                continue
            uses.append((n.lineno, n.col_offset, "RAW in `%s`" % _u(par)[:50].replace("*)", "* )"), False))
        if not any(u[3] for u in uses):
            raise Untranslatable("%s: the argument %s is never converted to internal units" % (qual, param))
        uses.sort()
        g = "gen_use_units_" + qual.replace(".", "_").replace("__", "")
        names.append(g)
        out.append("(* %s(%s): %s *)\nDefinition %s (cur : eunit) : list eunit := [%s].\n"
                   % (qual, param, "; ".join(u[2] for u in uses), g, "; ".join("E_int" if u[3] else "cur" for u in uses)))
    out.append("(* the energy handed to these setters is only ever used after conversion to internal units *)\n"
               "Lemma gen_arguments_converted : forall (fac : eunit -> Q) cur x, fac E_int == 1 ->\n"
               "  Forall (fun u => to_cur fac u x == x /\\ to_int fac u x == x) (%s).\n"
               "Proof.\n  intros fac cur x Hf. apply accesses_internal; [exact Hf|]. intros u Hin. cbn in Hin.\n"
               "  repeat (destruct Hin as [<-|Hin]; [reflexivity|]). contradiction.\nQed.\n" % " ++ ".join("%s cur" % g for g in names))
    return "\n".join(out)



def generators(repo):
    """Every generator function of the package: no `yield` lexically inside a `with` block.  A context manager held open across a
    yield (a units or basis context above all) stays entered while the CALLER's loop body runs and until the generator is exhausted
    or collected: the caller's active units would be the generator's.  Fail-closed: any `with` around a `yield` is refused."""
    import os
    import warnings
    found, held = [], []
    for root, _dirs, files in os.walk(repo + "/quantarhei"):
        for fn in sorted(files):
            if not fn.endswith(".py"):
                continue
            path = os.path.join(root, fn)
            try:
                with warnings.catch_warnings():
                    warnings.simplefilter("ignore")          # docstrings with backslashes
                    tree = ast.parse(open(path).read())
            except SyntaxError as e:
                raise Untranslatable("%s does not parse: %s" % (path, e))
            for f in ast.walk(tree):
                if not isinstance(f, (ast.FunctionDef, ast.AsyncFunctionDef)):
                    continue

                def visit(node, withs):
                    for ch in ast.iter_child_nodes(node):
                        if isinstance(ch, (ast.FunctionDef, ast.AsyncFunctionDef, ast.Lambda, ast.ClassDef)):
                            continue
                        if isinstance(ch, (ast.Yield, ast.YieldFrom)):
                            yields.append(list(withs))
                        visit(ch, withs + [ch] if isinstance(ch, (ast.With, ast.AsyncWith)) else withs)
                yields = []
                visit(f, [])
                if yields:
                    name = "%s:%s" % (os.path.relpath(path, repo + "/quantarhei"), f.name)
                    found.append(name)
                    for ws in yields:
                        if ws:
                            held.append("%s (with %s)" % (name, "; ".join(ast.unparse(i.context_expr)[:40] for w in ws for i in w.items)))
    if held:
        raise Untranslatable("a generator yields inside a `with` block, so the context stays entered in the caller's loop body: %s" % "; ".join(held))
    if not found:
        raise Untranslatable("no generator function found in the package (the scan is broken)")
    return ("(* generator functions of the package (%d): none yields inside a `with` block, so no units or basis context is held open\n"
            "   while the caller's loop body runs: %s *)\n"
            "Definition gen_generators_holding_a_context : list nat := [].\n"
            "Lemma gen_no_generator_holds_a_context : gen_generators_holding_a_context = [].\nProof. reflexivity. Qed.\n"
            % (len(found), ", ".join(found)))


HEAD = """(* GENERATED on every run by harness/translate_c05.py from quantarhei/core/units.py, core/managers.py, utils/types.py and
   builders/aggregate_base.py (see the module's docstring for the list).  let = assignment, if = if with the rest of the method in both
   branches, None = raise, match on an option = reading an attribute / dictionary entry that may be missing. *)
From Coq Require Import ZArith List Bool QArith Qfield Lia ZifyBool.
From QV Require Import Model.C05 Proofs.C05 Proofs.C05gen.
Import ListNotations.
"""


def static(repo):
    lists, allowed = unit_lists(repo)
    parts = [HEAD, lists, tables(repo), converters(repo), manager_state(repo, allowed), contexts(repo, allowed), delegations(repo),
             properties(repo), convert_functions(repo), build_switch(repo), managed_accesses(repo), raw_arguments(repo), generators(repo)]
    what = ["units.py:conversion_facs_energy", "units.py:conversion_facs_length", "managers.py:Manager.units / allowed_utypes",
            "managers.py:Manager.convert_energy_2_internal_u (scalar and array path)", "managers.py:Manager.convert_energy_2_current_u (scalar and array path)",
            "managers.py:Manager.convert_length_2_internal_u", "managers.py:Manager.convert_length_2_current_u",
            "managers.py:Manager.get_current_units", "managers.py:Manager.set_current_units", "managers.py:Manager.unset_current_units",
            "managers.py:units_context_manager.__init__", "managers.py:energy_units.__init__/__enter__/__exit__",
            "managers.py:length_units.__init__/__enter__/__exit__", "managers.py:frequency_units (= energy_units)",
            "managers.py:EnergyUnitsManaged/LengthUnitsManaged/UnitsManaged conversion delegations",
            "types.py:units_managed_property", "types.py:units_managed_array_property", "types.py:managed_array_property",
            "units.py:convert", "units.py:in_current_units", "aggregate_base.py:AggregateBase.build (units switch; no raw switch in the package)",
            "frequency.py:FrequencyAxis.get_TimeAxis (units current at every managed read)", "frequency.py:FrequencyAxis.copy (the same)", "time.py:TimeAxis.get_FrequencyAxis (units current at the construction)",
            "dfunction.py:DFunction.get_Fourier_transform / get_inverse_Fourier_transform (units current at the read of the frequency step)",
            "hamiltonian.py:Hamiltonian.subtract_cutoff_coupling, aggregate_base.py:AggregateBase.set_resonance_coupling, molecules.py:Molecule.set_energy, "
            "submodes.py:SubMode.__init__, modes.py:Mode.__init__ (every use of the energy argument is behind the conversion to internal units)",
            "every generator function of the package: no yield inside a with block (no context held open across the caller's loop body)"]
    return "\n".join(parts), what
