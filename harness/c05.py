# -*- coding: utf-8 -*-
"""C05 - energy-units management is transparent and contexts restore units.

Proof: coq/theories/Props/C05.v.  Tie: (A) every units-managed accessor of a registry, for all
11 x 11 pairs of energy units: value supplied under u, read under v, compared inside Coq with
Model.C05.convert evaluated on the exact rationals of the implementation's own conversion factors
(1e-13 relative); (B) random programs of nested energy/length contexts, exceptions, handlers and
real Aggregate.build calls run on the real Manager; current units at every observation point, the
final units, nesting counter and flag are compared inside Coq with Model.C05.exec.
Monitors: (C) a list of public builder/calculator calls made inside a units context must leave the
caller's units unchanged, also when they raise; (D) library calls on objects (axis conversions and their round trips, Fourier
transforms of DFunctions, derived bath functions, vibrational molecules and aggregates, Hamiltonian operations) made without a
context, inside each non-internal context on inputs created outside it, and on inputs created inside it: the stored state of the
results (deep snapshot of the private storage) must be the same.
Static tie: harness/translate_c05.py (GenC05.v, see its docstring).
"""
import os
import sys
import io
import json
import contextlib

sys.path.insert(0, os.path.dirname(os.path.abspath(__file__)))
import common as cm

PID = "C05"
work = cm.reexec_isolated(PID)
args = cm.parse_args(sys.argv[1:])

EU = ["1/fs", "int", "1/cm", "eV", "meV", "THz", "J", "SI", "nm", "Ha", "a.u."]
EU_COQ = ["E_fs", "E_int", "E_cm", "E_eV", "E_meV", "E_THz", "E_J", "E_SI", "E_nm", "E_Ha", "E_au"]
LU = ["int", "A", "nm", "Bohr", "a.u.", "m", "SI"]
LU_COQ = ["L_int", "L_A", "L_nm", "L_Bohr", "L_au", "L_m", "L_SI"]


class Marker(Exception):
    pass


# ------------------------------------------------------------------ (A) accessors
def accessors():
    """name -> (supply(x) run under u returning an object, read(obj) run under v returning a number, elementwise?)"""
    import numpy
    import quantarhei as qr
    m = qr.Manager()
    ta = qr.TimeAxis(0.0, 100, 1.0)

    def mol_pair():
        a = qr.Molecule([0.0, 1.0])
        b = qr.Molecule([0.0, 1.1])
        return qr.Aggregate([a, b])

    def ham_cut(x):
        H = qr.Hamiltonian(data=[[0.0, x], [x, 5.0 * x]])
        H.subtract_cutoff_coupling(x / 4.0)
        H.recover_cutoff_coupling()
        return H

    def set_en(x):
        mo = qr.Molecule([0.0, 2.0 * x])
        mo.set_energy(1, x)
        return mo

    def agg_coup(x):
        ag = mol_pair()
        ag.set_resonance_coupling(0, 1, x)
        return ag
    reg = {
        "convert_2_internal_then_current": (lambda x: m.convert_energy_2_internal_u(x), lambda o: m.convert_energy_2_current_u(o), False),
        "Hamiltonian.data": (lambda x: qr.Hamiltonian(data=[[0.0, 0.0], [0.0, x]]), lambda H: H.data[1, 1], True),
        "Hamiltonian.data(offdiag)": (lambda x: qr.Hamiltonian(data=[[0.0, x], [x, 0.0]]), lambda H: H.data[0, 1], True),
        "Hamiltonian.cutoff_coupling_recovered": (ham_cut, lambda H: H.data[0, 1], True),
        "Molecule(energies)/get_energy": (lambda x: qr.Molecule([0.0, x]), lambda mo: mo.get_energy(1), True),
        "Molecule.set_energy/get_energy": (set_en, lambda mo: mo.get_energy(1), False),
        "Aggregate.resonance_coupling": (agg_coup, lambda ag: ag.get_resonance_coupling(0, 1), False),
        "CorrelationFunction.reorg": (lambda x: qr.CorrelationFunction(ta, dict(ftype="OverdampedBrownian", reorg=x, cortime=100.0, T=300)),
                                      lambda cf: cf.get_reorganization_energy(), False),
        "SpectralDensity.reorg": (lambda x: qr.SpectralDensity(ta, dict(ftype="OverdampedBrownian", reorg=x, cortime=100.0, T=300)),
                                  lambda sd: sd.get_reorganization_energy(), False),
    }
    return reg


def run_conversions(chk, tier):
    import numpy
    import quantarhei as qr
    from quantarhei.core.units import conversion_facs_energy
    facs = [conversion_facs_energy[u] for u in EU]
    r = cm.rng(PID + "conv")
    reg = accessors()
    items, meta = [], []
    xs_per_pair = 1 if tier == "quick" else 4
    for name, (supply, read, elt) in sorted(reg.items()):
        for ui, u in enumerate(EU):
            for vi, v in enumerate(EU):
                for rep in range(xs_per_pair):
                    x = float(r.choice([0.75, 1.5, 12.25, 333.0, 1517.5, 0.03125])) * r.choice([1.0, 1.0, 3.0])
                    c = {"kind": "conv", "accessor": name, "u": u, "v": v, "x": x}
                    try:
                        with contextlib.redirect_stdout(io.StringIO()):
                            with qr.energy_units(u):
                                obj = supply(x)
                            with qr.energy_units(v):
                                got = float(read(obj))
                        # the stored value must not depend on the context of a later read: read twice in other contexts
                        with qr.energy_units(u):
                            back = float(read(obj))
                        if not (abs(back - x) <= 1e-12 * abs(x)):
                            chk.violation("conversion:roundtrip:" + name, "%s: supplied %r in %s, read back %r in the same units"
                                          % (name, x, u, back), "monitor", c)
                    except Exception as e:
                        chk.violation("conversion:exception:" + name, "%s with u=%s v=%s raised %r" % (name, u, v, e), "monitor", c)
                        chk.case(("conv", name, u, v, x), False)
                        continue
                    # direct monitor: exact conversion between the two units
                    fu, fv = facs[ui], facs[vi]
                    internal = (1.0 / x) / fu if u == "nm" else x * fu
                    want = (1.0 / internal) / fv if v == "nm" else internal / fv
                    if not (abs(got - want) <= 1e-12 * abs(want)):
                        chk.violation("conversion:wrong:" + name, "%s: %r supplied in %s reads %r in %s, exact conversion is %r"
                                      % (name, x, u, got, v, want), "monitor", c)
                    items.append("(%d%%nat, %d%%nat, %s, %s)" % (ui, vi, cm.qlit(x), cm.qlit(got)))
                    meta.append(c)
                    chk.count("accessor:" + name)
                    chk.case(("conv", name, u, v, x), u != v, sample=c if (ui, vi) == (2, 3) else None)
    shards, index = [], []
    CH = 300
    facs_l = cm.clist([cm.qlit(f) for f in facs])
    for k in range(0, len(items), CH):
        shards.append(cm.HEADER + "From QV Require Import Base.Util Model.C05.\n"
                      "Definition facs : list Q := %s.\n"
                      "Definition idx (u : eunit) : nat := fst (fold_left (fun '(k, i) y => if eunit_eqb y u then (i, S i) else (k, S i)) all_eunits (0%%nat, 0%%nat)).\n"
                      "Definition fac (u : eunit) : Q := nth (idx u) facs (Qmake 1 1).\n"
                      "Definition agrees (c : nat * nat * Q * Q) : bool :=\n"
                      "  let '(ui, vi, x, got) := c in\n"
                      "  let want := Qred (convert fac (nth ui all_eunits E_int) (nth vi all_eunits E_int) x) in\n"
                      "  Qle_bool (Qabs (want - got)%%Q) ((Qmake 1 10000000000000) * Qabs want)%%Q.\n"
                      "Definition cs := %s.\nEval vm_compute in (bad agrees cs).\n" % (facs_l, cm.clist(items[k:k + CH])))
        index.append(k)
    # lengths (all 7 x 7 pairs through the manager's converters) and array elements including exact zeros (all 11 units, both directions)
    from quantarhei.core.units import conversion_facs_length
    m = qr.Manager()
    lfacs = [conversion_facs_length[u] for u in LU]
    litems, lmeta = [], []
    for ui, u in enumerate(LU):
        for vi, v in enumerate(LU):
            x = float(r.choice([0.75, 1.5, 12.25, 333.0, 0.03125]))
            c = {"kind": "conv_length", "u": u, "v": v, "x": x}
            try:
                with qr.length_units(u):
                    y = m.convert_length_2_internal_u(x)
                with qr.length_units(v):
                    got = float(m.convert_length_2_current_u(y))
            except Exception as e:
                chk.violation("conversion:exception:length", "length conversion %s -> %s raised %r" % (u, v, e), "monitor", c)
                continue
            want = x * lfacs[ui] / lfacs[vi]
            if not (abs(got - want) <= 1e-12 * abs(want)):
                chk.violation("conversion:wrong:length", "%r supplied in %s reads %r in %s, exact conversion is %r" % (x, u, got, v, want), "monitor", c)
            litems.append("(%d%%nat, %d%%nat, %s, %s)" % (ui, vi, cm.qlit(x), cm.qlit(got)))
            lmeta.append(c)
            chk.count("accessor:length converters")
            chk.case(("conv_length", u, v, x), u != v)
    eitems, emeta = [], []
    for ui, u in enumerate(EU):
        for direction in (0, 1):
            arr = numpy.array([0.0, float(r.choice([0.75, 12.25, 1517.5])), 0.0, -float(r.choice([1.5, 333.0]))])
            c = {"kind": "conv_array", "u": u, "direction": "to internal" if direction == 0 else "to current", "x": arr.tolist()}
            try:
                with qr.energy_units(u):
                    got = m.convert_energy_2_internal_u(arr) if direction == 0 else m.convert_energy_2_current_u(arr)
                got = [float(z) for z in got]
            except Exception as e:
                chk.violation("conversion:exception:array", "array conversion (%s) in %s raised %r" % (c["direction"], u, e), "monitor", c)
                continue
            for x, g in zip(arr.tolist(), got):
                if x == 0.0 and g != 0.0:
                    chk.violation("conversion:array_zero", "a zero element converts to %r in %s (%s)" % (g, u, c["direction"]), "monitor", c)
                eitems.append("(%d%%nat, %d%%nat, %s, %s)" % (ui, direction, cm.qlit(x), cm.qlit(g)))
                emeta.append(c)
            chk.count("accessor:array elements")
            chk.case(("conv_array", u, direction, tuple(arr.tolist())), True)
    extra = (cm.HEADER + "From QV Require Import Base.Util Model.C05.\n"
             "Definition lfacs : list Q := %s.\nDefinition efacs : list Q := %s.\n"
             "Definition lidx (u : lunit) : nat := fst (fold_left (fun '(k, i) y => if lunit_eqb y u then (i, S i) else (k, S i)) all_lunits (0%%nat, 0%%nat)).\n"
             "Definition eidx (u : eunit) : nat := fst (fold_left (fun '(k, i) y => if eunit_eqb y u then (i, S i) else (k, S i)) all_eunits (0%%nat, 0%%nat)).\n"
             "Definition facl (u : lunit) : Q := nth (lidx u) lfacs (Qmake 1 1).\nDefinition face (u : eunit) : Q := nth (eidx u) efacs (Qmake 1 1).\n"
             "Definition close (want got : Q) : bool := Qle_bool (Qabs (want - got)%%Q) ((Qmake 1 10000000000000) * Qabs want)%%Q.\n"
             "Definition lagrees (c : nat * nat * Q * Q) : bool :=\n"
             "  let '(ui, vi, x, got) := c in close (Qred (convert_l facl (nth ui all_lunits L_int) (nth vi all_lunits L_int) x)) got.\n"
             "Definition eagrees (c : nat * nat * Q * Q) : bool :=\n"
             "  let '(ui, d, x, got) := c in let u := nth ui all_eunits E_int in\n"
             "  close (Qred (match d with O => to_int_elt face u x | _ => to_cur_elt face u x end)) got.\n"
             "Definition lcs := %s.\nDefinition ecs := %s.\nEval vm_compute in (bad lagrees lcs).\nEval vm_compute in (bad eagrees ecs).\n"
             % (cm.clist([cm.qlit(f) for f in lfacs]), facs_l, cm.clist(litems), cm.clist(eitems)))
    results = cm.coq_eval(PID, shards + [extra])
    rc, out = results[-1]
    if rc != 0:
        chk.violation("correspondence:coq_error", "coqc failed on length / array conversion cases: %s" % out[-800:], "correspondence", {}, found_input=False)
    else:
        vals = cm.parse_evals(out)
        for badl, mt, what in ((cm.parse_natlist(vals[0]), lmeta, "convert_l"), (cm.parse_natlist(vals[1]), emeta, "to_int_elt / to_cur_elt")):
            chk.corr["cases"] += len(mt)
            chk.corr["disagreements"] += len(badl)
            for i in badl[:3]:
                chk.violation("correspondence:conversion:" + what.split(" ")[0], "implementation differs from Model.C05.%s on %s" % (what, json.dumps(mt[i])),
                              "correspondence", mt[i], found_input=False)
    for k, (rc, out) in zip(index, results[:-1]):
        if rc != 0:
            chk.violation("correspondence:coq_error", "coqc failed on conversion cases: %s" % out[-800:], "correspondence", {}, found_input=False)
            continue
        badl = cm.parse_natlist(cm.parse_evals(out)[0])
        chk.corr["cases"] += min(CH, len(items) - k)
        chk.corr["disagreements"] += len(badl)
        for i in badl[:3]:
            chk.violation("correspondence:conversion", "implementation differs from Model.C05.convert on %s" % json.dumps(meta[k + i]),
                          "correspondence", meta[k + i], found_input=False)


# ------------------------------------------------------------------ (B) context programs
def gen_prog(r, depth):
    u = r.random()
    if depth <= 0:
        return r.choice([["obs"], ["obs"], ["skip"], ["raise"], ["build"]])
    if u < 0.30:
        return ["seq", gen_prog(r, depth - 1), gen_prog(r, depth - 1)]
    if u < 0.58:
        return ["withe", r.choice(EU), gen_prog(r, depth - 1), r.random() < 0.2]
    if u < 0.68:
        return ["withl", r.choice(LU), gen_prog(r, depth - 1)]
    if u < 0.80:
        return ["try", gen_prog(r, depth - 1)]
    if u < 0.86:
        return ["raise"]
    if u < 0.93:
        return ["build"]
    if u < 0.96:
        return ["build_fails"]
    return ["obs"]


def coq_prog(p):
    k = p[0]
    if k == "seq":
        return "(PSeq %s %s)" % (coq_prog(p[1]), coq_prog(p[2]))
    if k == "withe":
        return "(PWithE %s %s)" % (EU_COQ[EU.index(p[1])], coq_prog(p[2]))
    if k == "withl":
        return "(PWithL %s %s)" % (LU_COQ[LU.index(p[1])], coq_prog(p[2]))
    if k == "try":
        return "(PTry %s)" % coq_prog(p[1])
    if k == "build":
        return "(PBuild VARIANT (PWithE E_int PSkip))"
    if k == "build_fails":
        return "(PBuild VARIANT PRaise)"
    return {"obs": "PObs", "skip": "PSkip", "raise": "PRaise"}[k]


def small_aggregate(bad=False):
    import quantarhei as qr
    with qr.energy_units("int"):
        a = qr.Molecule([0.0, 1.0])
        b = qr.Molecule([0.0, 1.1])
    ag = qr.Aggregate([a, b])
    if bad:
        ag.coupling = None      # makes the build fail half way
        ag.resonance_coupling = None
    return ag


def run_prog(p, obs):
    import quantarhei as qr
    m = qr.Manager()
    k = p[0]
    if k == "seq":
        run_prog(p[1], obs)
        run_prog(p[2], obs)
    elif k == "withe":
        ctx = qr.frequency_units(p[1]) if (p[3] and p[1] in m.units["frequency"]) else qr.energy_units(p[1])
        with ctx:
            run_prog(p[2], obs)
    elif k == "withl":
        with qr.length_units(p[1]):
            run_prog(p[2], obs)
    elif k == "try":
        try:
            run_prog(p[1], obs)
        except Marker:
            pass
    elif k == "raise":
        raise Marker()
    elif k == "build":
        small_aggregate().build()
    elif k == "build_fails":
        try:
            small_aggregate(bad=True).build()
        except Marker:
            raise
        except Exception:
            raise Marker()
        raise AssertionError("the sabotaged build did not fail")
    elif k == "obs":
        obs.append((m.get_current_units("energy"), m.get_current_units("length")))


def run_programs(chk, tier):
    import quantarhei as qr
    m = qr.Manager()
    r = cm.rng(PID + "prog")
    n = 150 if tier == "quick" else 2500
    items, meta = [], []
    corpus = [["withe", "1/cm", ["seq", ["build"], ["obs"]], False],
              ["withe", "1/cm", ["seq", ["try", ["withe", "eV", ["raise"], False]], ["obs"]], False],
              ["withe", "eV", ["seq", ["try", ["build_fails"]], ["obs"]], False]]
    for k in range(n + len(corpus)):
        p = corpus[k] if k < len(corpus) else gen_prog(r, r.choice([2, 3, 4, 5]))
        c = {"kind": "prog", "prog": p}
        start = (m.get_current_units("energy"), m.get_current_units("length"), m._in_eu_count, m._in_energy_units_context)
        obs = []
        raised = False
        try:
            with contextlib.redirect_stdout(io.StringIO()):
                run_prog(p, obs)
        except Marker:
            raised = True
        except Exception as e:
            chk.violation("program:exception", "program %s raised %r" % (json.dumps(p)[:300], e), "monitor", c)
            chk.case(json.dumps(p), False)
            qr.set_current_units()
            m._in_eu_count, m._in_energy_units_context = 0, False
            continue
        end = (m.get_current_units("energy"), m.get_current_units("length"), m._in_eu_count, m._in_energy_units_context)
        if end != start:
            chk.violation("contexts:not_restored", "after program %s the manager is %r, it was %r before (raised=%s)"
                          % (json.dumps(p)[:400], end, start, raised), "monitor", c)
            qr.set_current_units()
            m._in_eu_count, m._in_energy_units_context = 0, False
        items.append("(%s, (%s, %s, %s, %s, %s, %s))" % (
            coq_prog(p), EU_COQ[EU.index(end[0])], LU_COQ[LU.index(end[1])], cm.zlit(end[2]), "true" if end[3] else "false",
            "true" if raised else "false",
            cm.clist(["(%s, %s)" % (EU_COQ[EU.index(a)], LU_COQ[LU.index(b)]) for (a, b) in obs])))
        meta.append(c)
        chk.count("prog:raised" if raised else "prog:normal")
        nontriv = json.dumps(p).count("with") >= 2
        chk.case(json.dumps(p), nontriv, sample={"prog": p, "obs": obs[:6], "raised": raised} if nontriv else None)
    shards, index = [], []
    CH = 200
    DEF = ("Definition agrees (c : prog * (eunit * lunit * Z * bool * bool * list (eunit * lunit))) : bool :=\n"
           "  let '(p, (e, l, n, f, r, o)) := c in\n"
           "  let '(s', r', o') := exec p (mkU E_fs L_A None None 0 false) in\n"
           "  eunit_eqb (cur_e s') e && lunit_eqb (cur_l s') l && Z.eqb (count s') n && Bool.eqb (in_eu s') f && Bool.eqb r' r &&\n"
           "  all2 (fun a b => eunit_eqb (fst a) (fst b) && lunit_eqb (snd a) (snd b)) o' o.\n")
    for k in range(0, len(items), CH):
        body = cm.clist(items[k:k + CH])
        shards.append(cm.HEADER + "From QV Require Import Base.Util Model.C05.\n" + DEF +
                      "Definition cs_new := %s.\nDefinition cs_old := %s.\n"
                      "Eval vm_compute in (bad agrees cs_new).\nEval vm_compute in (bad agrees cs_old).\n"
                      % (body.replace("VARIANT", "ContextSwitch"), body.replace("VARIANT", "RawSwitch")))
        index.append(k)
    for k, (rc, out) in zip(index, cm.coq_eval(PID, shards)):
        if rc != 0:
            chk.violation("correspondence:coq_error", "coqc failed on program cases: %s" % out[-800:], "correspondence", {}, found_input=False)
            continue
        vals = cm.parse_evals(out)
        badl, bad_old = cm.parse_natlist(vals[0]), cm.parse_natlist(vals[1])
        chk.corr["cases"] += min(CH, len(items) - k)
        chk.corr["disagreements"] += len(badl)
        for i in badl[:3]:
            which = "; it agrees with the pinned raw-switch build" if i not in bad_old else ""
            chk.violation("correspondence:program", "manager state/observations differ from Model.C05.exec on %s%s"
                          % (json.dumps(meta[k + i])[:600], which), "correspondence", meta[k + i], found_input=False)


# ------------------------------------------------------------------ (C) library calls keep the caller's units
def run_reuse(chk, tier):
    """Context OBJECTS kept and entered again later (never inside themselves), at other nesting depths and under other ambient
    units, with exceptions: leaving a context must hand back the units that were active when THAT entry happened.
    (Monitor only: the tree-shaped programs of Model.C05 create a fresh object per `with`; the expected behaviour here is the
    plain stack discipline the theorem c05_contexts_restore_units states for them.)"""
    import quantarhei as qr
    m = qr.Manager()
    r = cm.rng(PID + "reuse")
    units = ["1/cm", "eV", "THz", "meV", "int", "1/fs"]
    for k in range(60 if tier == "quick" else 800):
        qr.set_current_units()
        m._in_eu_count, m._in_energy_units_context = 0, False
        pool = [(u, qr.energy_units(u)) for u in r.sample(units, 3)]
        log = []

        def go(depth, busy):
            for _ in range(r.randint(1, 3)):
                free = [i for i in range(len(pool)) if i not in busy]
                if not free or depth == 0:
                    return
                i = r.choice(free)
                before = m.get_current_units("energy")
                boom = r.random() < 0.2
                try:
                    with pool[i][1]:
                        inside = m.get_current_units("energy")
                        log.append(("enter", pool[i][0], before, inside))
                        want = ("int", "1/fs") if pool[i][0] in ("int", "1/fs") else (pool[i][0],)
                        if inside not in want:
                            raise AssertionError("inside a context of %s the units are %s" % (pool[i][0], inside))
                        go(depth - 1, busy | {i})
                        if boom:
                            raise Marker()
                except Marker:
                    pass
                after = m.get_current_units("energy")
                log.append(("exit", pool[i][0], after))
                if after != before:
                    raise AssertionError("after leaving the re-used %s context (entered under %s) the active units are %s" % (pool[i][0], before, after))
        c = {"kind": "reuse", "k": k}
        try:
            go(3, frozenset())
            if m.get_current_units("energy") != "1/fs" or m._in_eu_count != 0 or m._in_energy_units_context:
                raise AssertionError("manager not restored at top level: %r %r %r" % (m.get_current_units("energy"), m._in_eu_count, m._in_energy_units_context))
        except AssertionError as e:
            chk.violation("contexts:reused_object", "context objects re-used sequentially: %s; trace %s" % (e, json.dumps(log)[:700]), "monitor", dict(c, log=log))
        chk.count("reuse")
        chk.case(("reuse", k, json.dumps(log)), len(log) >= 4)
    qr.set_current_units()
    m._in_eu_count, m._in_energy_units_context = 0, False


# ------------------------------------------------------------------ (D) calls on objects are transparent to the caller's units
def snap(obj, depth=0, seen=None):
    """the STORED state of a library object (private storage read from __dict__, no units management involved), recursively"""
    import numpy
    if seen is None:
        seen = set()
    if obj is None or isinstance(obj, (bool, str)):
        return ("v", obj)
    if isinstance(obj, (int, float, complex, numpy.integer, numpy.floating, numpy.complexfloating)):
        return ("n", complex(obj))
    if isinstance(obj, numpy.ndarray):
        if obj.dtype.kind in "biufc":
            return ("a", obj.shape, numpy.array(obj, dtype=complex).ravel())
        return ("v", "array of " + obj.dtype.kind)
    if isinstance(obj, (list, tuple)):
        if depth > 5 or len(obj) > 64:
            return ("v", "seq[%d]" % len(obj))
        return ("l", [snap(x, depth + 1, seen) for x in obj])
    if isinstance(obj, dict):
        if depth > 5 or len(obj) > 64:
            return ("v", "dict[%d]" % len(obj))
        return ("d", {str(k): snap(v, depth + 1, seen) for k, v in obj.items()})
    mod = type(obj).__module__ or ""
    if mod.startswith("quantarhei") and hasattr(obj, "__dict__"):
        if id(obj) in seen or depth > 4:
            return ("v", "object " + type(obj).__name__)
        seen.add(id(obj))
        out = {}
        for k, v in vars(obj).items():
            if k in ("manager", "_parent", "monomer", "aggregate") or callable(v):
                continue
            out[k] = snap(v, depth + 1, seen)
        return ("o", type(obj).__name__, out)
    return ("v", "instance of " + type(obj).__name__)


def snap_scale(a):
    """largest magnitude among the numbers of a snapshot"""
    import numpy
    if a[0] == "n":
        return abs(a[1]) if a[1] == a[1] else 0.0
    if a[0] == "a":
        fin = a[2][numpy.isfinite(a[2])]
        return float(numpy.max(numpy.abs(fin), initial=0.0))
    if a[0] == "l":
        return max([snap_scale(x) for x in a[1]] + [0.0])
    if a[0] in ("d", "o"):
        return max([snap_scale(x) for x in (a[1] if a[0] == "d" else a[2]).values()] + [0.0])
    return 0.0


def snap_diff(a, b, path="result", atol=None):
    """first difference between two snapshots, or None: relative 1e-9 of the larger magnitude, plus 1e-12 of the largest number
    stored anywhere in the compared results (so that rounding noise around an exact zero is not judged relatively)"""
    import numpy
    if atol is None:
        atol = 1e-12 * max(snap_scale(a), snap_scale(b)) + 1e-300
    if a[0] != b[0]:
        return "%s: %s vs %s" % (path, a[0], b[0])
    if a[0] == "v":
        return None if a[1] == b[1] else "%s: %r vs %r" % (path, a[1], b[1])
    if a[0] == "n":
        x, y = a[1], b[1]
        if x != x and y != y:
            return None
        return None if abs(x - y) <= 1e-9 * max(abs(x), abs(y)) + atol else "%s: %r in the context vs %r without" % (path, x, y)
    if a[0] == "a":
        if a[1] != b[1]:
            return "%s: shape %s vs %s" % (path, a[1], b[1])
        if a[2].size == 0:
            return None
        fin = numpy.isfinite(a[2]) & numpy.isfinite(b[2])
        if not numpy.array_equal(numpy.isfinite(a[2]), numpy.isfinite(b[2])):
            return "%s: non-finite entries at different places" % path
        scale = max(float(numpy.max(numpy.abs(a[2][fin]), initial=0.0)), float(numpy.max(numpy.abs(b[2][fin]), initial=0.0)))
        dev = float(numpy.max(numpy.abs(a[2][fin] - b[2][fin]), initial=0.0))
        if dev <= 1e-9 * scale + atol:
            return None
        k = int(numpy.argmax(numpy.abs(numpy.where(fin, a[2] - b[2], 0.0))))
        return "%s[%d]: %r in the context vs %r without (largest entry %g)" % (path, k, a[2][k], b[2][k], scale)
    if a[0] == "l":
        if len(a[1]) != len(b[1]):
            return "%s: length %d vs %d" % (path, len(a[1]), len(b[1]))
        for i, (x, y) in enumerate(zip(a[1], b[1])):
            d = snap_diff(x, y, "%s[%d]" % (path, i), atol)
            if d:
                return d
        return None
    da, db = (a[1], b[1]) if a[0] == "d" else (a[2], b[2])
    if a[0] == "o" and a[1] != b[1]:
        return "%s: %s vs %s" % (path, a[1], b[1])
    if set(da) != set(db):
        return "%s: fields %s vs %s" % (path, sorted(set(da) - set(db)), sorted(set(db) - set(da)))
    for k in sorted(da):
        d = snap_diff(da[k], db[k], path + "." + k, atol)
        if d:
            return d
    return None


def transparent_calls():
    """name -> (make(cu), call(inputs, cu)): `make` builds the input objects from numbers given in internal units, handing every
    energy to the library through cu(x) = the same quantity expressed in the units current at that moment; `call` is the
    library call under test and returns the objects / arrays whose stored state is compared."""
    import numpy
    import quantarhei as qr
    CM = 2.0 * numpy.pi * 2.99792458e-5          # 1/cm in internal units (any fixed number would do)
    calls = {}

    def faxis(atype, start, n=64, step=10.0):
        return lambda cu: qr.FrequencyAxis(cu(start * CM), n, cu(step * CM), atype=atype)

    def taxis(atype, fstart, n=64):
        return lambda cu: qr.TimeAxis(0.0 if atype == "upper-half" else -32.0, n, 1.0, atype=atype, frequency_start=fstart * CM)
    for atype in ("complete", "upper-half"):
        for tag, start in (("centred", -320.0), ("window", 11000.0), ("negative window", -9000.0)):
            if atype == "upper-half" and tag == "centred":
                start = 0.0
            nm = "%s %s" % (atype, tag)
            calls["FrequencyAxis(%s).get_TimeAxis" % nm] = (faxis(atype, start), lambda fa, cu: fa.get_TimeAxis())
            calls["FrequencyAxis(%s).get_TimeAxis.get_FrequencyAxis" % nm] = (faxis(atype, start), lambda fa, cu: fa.get_TimeAxis().get_FrequencyAxis())
            calls["FrequencyAxis(%s).copy" % nm] = (faxis(atype, start), lambda fa, cu: fa.copy())
            calls["DFunction(FrequencyAxis %s).get_inverse_Fourier_transform" % nm] = (
                faxis(atype, start), lambda fa, cu: qr.DFunction(fa, numpy.exp(-((numpy.arange(fa.length) - 20.0) / 7.0) ** 2) * (1.0 + 0.5j)).get_inverse_Fourier_transform())
            calls["DFunction(FrequencyAxis %s).get_Fourier_transform" % nm] = (
                faxis(atype, start), lambda fa, cu: qr.DFunction(fa, numpy.exp(-((numpy.arange(fa.length) - 20.0) / 7.0) ** 2) * (1.0 + 0.5j)).get_Fourier_transform())
        for tag, fs in (("no offset", 0.0), ("offset", 12000.0)):
            nm = "%s %s" % (atype, tag)
            calls["TimeAxis(%s).get_FrequencyAxis" % nm] = (taxis(atype, fs), lambda ta, cu: ta.get_FrequencyAxis())
            calls["TimeAxis(%s).get_FrequencyAxis.get_TimeAxis" % nm] = (taxis(atype, fs), lambda ta, cu: ta.get_FrequencyAxis().get_TimeAxis())
            calls["DFunction(TimeAxis %s).get_Fourier_transform" % nm] = (
                taxis(atype, fs), lambda ta, cu: qr.DFunction(ta, numpy.exp(-((numpy.arange(ta.length) - 12.0) / 5.0) ** 2) * (1.0 - 0.25j)).get_Fourier_transform())
            calls["DFunction(TimeAxis %s).get_Fourier_transform.get_inverse_Fourier_transform" % nm] = (
                taxis(atype, fs), lambda ta, cu: qr.DFunction(ta, numpy.exp(-((numpy.arange(ta.length) - 12.0) / 5.0) ** 2) * (1.0 - 0.25j)).get_Fourier_transform().get_inverse_Fourier_transform())

    # bath functions
    def cfun(cls, reorg=30.0, ctime=100.0):
        def make(cu):
            ta = qr.TimeAxis(0.0, 200, 1.0)
            return getattr(qr, cls)(ta, dict(ftype="OverdampedBrownian", reorg=cu(reorg * CM), cortime=ctime, T=300))
        return make
    for meth in ("get_SpectralDensity", "get_FTCorrelationFunction", "get_OddFTCorrelationFunction", "get_EvenFTCorrelationFunction", "copy"):
        calls["CorrelationFunction.%s" % meth] = (cfun("CorrelationFunction"), lambda cf, cu, meth=meth: getattr(cf, meth)())
    calls["CorrelationFunction + CorrelationFunction"] = (lambda cu: (cfun("CorrelationFunction")(cu), cfun("CorrelationFunction", 11.0, 60.0)(cu)),
                                                          lambda ab, cu: ab[0] + ab[1])
    calls["CorrelationFunction.measure_reorganization_energy"] = (cfun("CorrelationFunction"), lambda cf, cu: ("energy", cf.measure_reorganization_energy()))
    calls["CorrelationFunction.get_reorganization_energy"] = (cfun("CorrelationFunction"), lambda cf, cu: ("energy", cf.get_reorganization_energy()))
    calls["SpectralDensity.get_CorrelationFunction"] = (cfun("SpectralDensity"), lambda sd, cu: sd.get_CorrelationFunction(temperature=300))
    calls["SpectralDensity.get_FTCorrelationFunction"] = (cfun("SpectralDensity"), lambda sd, cu: sd.get_FTCorrelationFunction(temperature=300))
    calls["SpectralDensity.copy"] = (cfun("SpectralDensity"), lambda sd, cu: sd.copy())
    calls["SpectralDensity + SpectralDensity"] = (lambda cu: (cfun("SpectralDensity")(cu), cfun("SpectralDensity", 11.0, 60.0)(cu)), lambda ab, cu: ab[0] + ab[1])
    calls["SpectralDensity.measure_reorganization_energy"] = (cfun("SpectralDensity"), lambda sd, cu: ("energy", sd.measure_reorganization_energy()))

    # molecules, modes, Hamiltonians, aggregates
    def vib_molecule(cu):
        mol = qr.Molecule([0.0, cu(12000.0 * CM)])
        mod = qr.Mode(frequency=cu(300.0 * CM))
        mol.add_Mode(mod)
        mod.set_nmax(0, 3)
        mod.set_nmax(1, 3)
        mod.set_HR(1, 0.3)
        return mol

    def vib_aggregate(cu):
        m1 = vib_molecule(cu)
        m2 = qr.Molecule([0.0, cu(12300.0 * CM)])
        ag = qr.Aggregate([m1, m2])
        ag.set_resonance_coupling(0, 1, cu(80.0 * CM))
        return ag
    calls["Mode(frequency)"] = (lambda cu: None, lambda _, cu: qr.Mode(frequency=cu(300.0 * CM)))
    calls["Molecule+Mode.get_Hamiltonian"] = (vib_molecule, lambda mol, cu: (mol.get_Hamiltonian(), mol))
    calls["Molecule.set_energy"] = (lambda cu: qr.Molecule([0.0, cu(12000.0 * CM)]), lambda mol, cu: (mol.set_energy(1, cu(12500.0 * CM)), mol)[1])
    calls["Aggregate(vibrational).build"] = (vib_aggregate, lambda ag, cu: (ag.build(mult=1), ag.get_Hamiltonian())[1])
    calls["Aggregate(vibrational).build(vibenergy_cutoff)"] = (vib_aggregate, lambda ag, cu: (ag.build(mult=1, vibgen_approx="SPA", vibenergy_cutoff=cu(500.0 * CM)),
                                                                                              ag.get_Hamiltonian())[1])
    calls["Aggregate.build(mult=2)"] = (lambda cu: qr.Aggregate([qr.Molecule([0.0, cu(12000.0 * CM)]), qr.Molecule([0.0, cu(12200.0 * CM)])]),
                                       lambda ag, cu: (ag.set_resonance_coupling(0, 1, cu(100.0 * CM)), ag.build(mult=2), ag.get_Hamiltonian())[2])

    def built_dimer(cu):
        ag = qr.Aggregate([qr.Molecule([0.0, cu(12000.0 * CM)]), qr.Molecule([0.0, cu(12300.0 * CM)])])
        ag.set_resonance_coupling(0, 1, cu(150.0 * CM))
        ag.build(mult=2)
        return ag
    calls["Aggregate.get_electronic_Hamiltonian"] = (built_dimer, lambda ag, cu: ag.get_electronic_Hamiltonian())
    calls["Aggregate.elstates energies read in the caller's loop"] = (
        built_dimer, lambda ag, cu: numpy.array([float(qr.Manager().convert_energy_2_internal_u(st.energy())) for (_a, st) in ag.elstates(mult=2)]))

    def ham(cu):
        return qr.Hamiltonian(data=[[0.0, cu(100.0 * CM), 0.0], [cu(100.0 * CM), cu(12000.0 * CM), cu(10.0 * CM)], [0.0, cu(10.0 * CM), cu(12400.0 * CM)]])
    calls["Hamiltonian.set_rwa"] = (ham, lambda H, cu: (H.set_rwa([0, 1]), H)[1])
    calls["Hamiltonian.subtract_cutoff_coupling"] = (ham, lambda H, cu: (H.subtract_cutoff_coupling(cu(50.0 * CM)), H)[1])
    calls["Hamiltonian.subtract+recover_cutoff_coupling"] = (ham, lambda H, cu: (H.subtract_cutoff_coupling(cu(50.0 * CM)), H.recover_cutoff_coupling(), H)[2])
    calls["Hamiltonian.diagonalize"] = (ham, lambda H, cu: (H.diagonalize(), H)[1])
    return calls


def run_transparency(chk, tier):
    """(D) every call of the registry is made three ways: without any context (reference), inside a non-internal units context on
    inputs created OUTSIDE it, and inside the context on inputs created INSIDE it (numbers handed over in the context's units).
    The stored state of the results (private storage, i.e. internal units) must be the same in all three."""
    import numpy
    import quantarhei as qr
    m = qr.Manager()
    calls = transparent_calls()
    ctxs = ["1/cm", "eV", "nm"] if tier == "quick" else ["1/cm", "eV", "meV", "THz", "Ha", "J", "nm"]

    def cu(x):            # the internal value x expressed in the units current NOW
        return float(m.convert_energy_2_current_u(float(x))) if x != 0.0 else 0.0

    def observe(res):
        if isinstance(res, tuple) and len(res) == 2 and isinstance(res[0], str) and res[0] == "energy":
            return ("n", complex(m.convert_energy_2_internal_u(res[1])))       # an energy returned as a number: back to internal units
        return snap(res)

    def run(name, ctx, inside):
        make, call = calls[name]
        with contextlib.redirect_stdout(io.StringIO()):
            if ctx is None:      # reference: inputs created in internal units (some constructors insist on a units context), call without any
                with qr.energy_units("int"):
                    inp = make(cu)
                return observe(call(inp, cu))
            if inside:
                with qr.energy_units(ctx):
                    return observe(call(make(cu), cu))
            with qr.energy_units("int"):
                inp = make(cu)
            with qr.energy_units(ctx):
                return observe(call(inp, cu))
    for name in sorted(calls):
        try:
            ref = run(name, None, False)
            ref_exc = None
        except Exception as e:
            ref, ref_exc = None, type(e).__name__
        for ctx in ctxs:
            for inside in (False, True):
                if inside and ctx == "nm":
                    continue          # a linear grid given in wavelengths is another grid: creation inside is compared for linear units only
                if ctx == "nm" and name == "Aggregate.get_electronic_Hamiltonian":
                    continue          # the zero couplings are Python scalars, which the wavelength conversion refuses (ZeroDivisionError;
                                      # zero ARRAY elements stay zero): a refused call, not a wrong value
                c = {"kind": "transparent", "call": name, "ctx": ctx, "inputs_created": "inside" if inside else "outside"}
                before = (m.get_current_units("energy"), m._in_eu_count)
                try:
                    got, exc = run(name, ctx, inside), None
                except Exception as e:
                    got, exc = None, type(e).__name__
                after = (m.get_current_units("energy"), m._in_eu_count)
                chk.count("transparent:" + ("raises" if exc else "ok"))
                chk.case(("transparent", name, ctx, inside), exc is None,
                         sample=c if (name.startswith("FrequencyAxis(complete window).get_TimeAxis") and ctx == "1/cm") else None)
                if after != before:
                    chk.violation("transparent:units_left:" + name, "%s inside energy_units(%r) left the manager at %r (was %r)" % (name, ctx, after, before),
                                  "monitor", c)
                    qr.set_current_units()
                    m._in_eu_count, m._in_energy_units_context = 0, False
                if exc != ref_exc:
                    chk.violation("transparent:exception:" + name, "%s: %s without a units context, %s inside energy_units(%r) (inputs created %s)"
                                  % (name, ref_exc or "returns", exc or "returns", ctx, c["inputs_created"]), "monitor", c)
                    continue
                if exc is None:
                    d = snap_diff(got, ref)
                    if d:
                        chk.violation("transparent:stored_state:" + name, "%s called inside energy_units(%r) (inputs created %s the context) stores a "
                                      "different state than the same call without a context - %s" % (name, ctx, c["inputs_created"], d), "monitor", c)



def run_generators(chk, tier):
    """(F) the package's public generators consumed under a units context: inside the caller's own loop body, after the loop, while a
    started generator is kept alive, and after the context, the active units are the caller's - a generator must not hold a units
    context open across its yields."""
    import quantarhei as qr
    m = qr.Manager()

    def system():
        with qr.energy_units("1/cm"):
            mols = [qr.Molecule([0.0, 12000.0 + 100.0 * i]) for i in range(3)]
            mo = qr.Mode(frequency=300.0)
            mols[0].add_Mode(mo)
            mo.set_nmax(0, 2)
            mo.set_nmax(1, 2)
            mo.set_HR(1, 0.1)
        ag = qr.Aggregate(mols)
        ag.build(mult=1)
        return ag
    gens = {"Aggregate.elstates": lambda ag: ag.elstates(mult=1), "Aggregate.allstates": lambda ag: ag.allstates(mult=1),
            "Aggregate.elsignatures": lambda ag: ag.elsignatures(mult=1),
            "Aggregate.vibsignatures": lambda ag: ag.vibsignatures((0, 1, 0)),
            "Aggregate.elstates nested": lambda ag: ((a, b) for (a, _s) in ag.elstates(mult=1) for (b, _t) in ag.elstates(mult=1))}
    for name, mk in sorted(gens.items()):
        for ctx in (["1/cm", "eV"] if tier == "quick" else ["1/cm", "eV", "meV", "THz", "nm"]):
            c = {"kind": "generator", "generator": name, "ctx": ctx}
            try:
                with contextlib.redirect_stdout(io.StringIO()):
                    ag = system()
                    base = m.get_current_units("energy")
                    with qr.energy_units(ctx):
                        want = m.get_current_units("energy")
                        seen = [m.get_current_units("energy") for _item in mk(ag)]
                        after_loop = m.get_current_units("energy")
                        g = iter(mk(ag))
                        next(g)
                        held = m.get_current_units("energy")
                        if hasattr(g, "close"):
                            g.close()
                        closed = m.get_current_units("energy")
                    after = m.get_current_units("energy")
                chk.count("generator:%s" % name)
                chk.case(("generator", name, ctx), len(seen) >= 2)
                bad = [("inside the caller's loop body", sorted(set(seen) - {want})) if set(seen) - {want} else None,
                       ("after the loop", after_loop) if after_loop != want else None,
                       ("while a started generator is kept alive", held) if held != want else None,
                       ("after closing the generator", closed) if closed != want else None,
                       ("after the context", after) if after != base else None]
                bad = [b for b in bad if b]
                if bad:
                    chk.violation("generator:units:" + name, "%s consumed inside energy_units(%r): the active energy units are %s"
                                  % (name, ctx, "; ".join("%s %r (the caller's: %r)" % (w, u, want) for w, u in bad)), "monitor", c)
                    qr.set_current_units()
                    m._in_eu_count, m._in_energy_units_context = 0, False
            except Exception as e:
                chk.violation("generator:exception:" + name, "generator monitor raised %r" % (e,), "monitor", c)


def library_calls():
    import numpy
    import quantarhei as qr

    def system():
        ta = qr.TimeAxis(0.0, 200, 1.0)
        with qr.energy_units("1/cm"):
            m1 = qr.Molecule([0.0, 12000.0])
            m2 = qr.Molecule([0.0, 12200.0])
            cf = qr.CorrelationFunction(ta, dict(ftype="OverdampedBrownian", reorg=30.0, cortime=100.0, T=300))
            m1.set_transition_environment((0, 1), cf)
            m2.set_transition_environment((0, 1), cf)
            m1.set_dipole(0, 1, [1.0, 0.0, 0.0])
            m2.set_dipole(0, 1, [0.8, 0.2, 0.0])
            ag = qr.Aggregate([m1, m2])
            ag.set_resonance_coupling(0, 1, 100.0)
        return ta, ag
    st = {}

    def built():
        if "ag" not in st:
            st["ta"], st["ag"] = system()
            st["ag"].build()
        return st["ta"], st["ag"]

    def reltensor(theory, **kw):
        def f():
            ta, ag = built()
            return ag.get_RelaxationTensor(ta, relaxation_theory=theory, **kw)
        return f

    def absorption():
        ta, ag = system()
        ag.build()
        calc = qr.AbsSpectrumCalculator(ta, system=ag)
        with qr.energy_units("1/cm"):
            calc.bootstrap(rwa=12100.0)
        return calc.calculate()

    def propagate():
        ta, ag = built()
        RT, ham = ag.get_RelaxationTensor(ta, relaxation_theory="standard_Redfield")
        prop = qr.ReducedDensityMatrixPropagator(ta, ham, RT)
        rho = qr.ReducedDensityMatrix(dim=ham.dim)
        rho.data[1, 1] = 1.0
        return prop.propagate(rho)

    def ham_cutoff():
        H = qr.Hamiltonian(data=[[0.0, 1.0], [1.0, 3.0]])
        H.subtract_cutoff_coupling(0.25)
        H.recover_cutoff_coupling()

    def odd_upper_half():
        qr.FrequencyAxis(0.0, 99, 10.0, atype="upper-half").get_TimeAxis()

    def cf_ops():
        ta = qr.TimeAxis(0.0, 200, 1.0)
        a = qr.CorrelationFunction(ta, dict(ftype="OverdampedBrownian", reorg=30.0, cortime=100.0, T=300))
        b = qr.CorrelationFunction(ta, dict(ftype="OverdampedBrownian", reorg=10.0, cortime=50.0, T=300))
        c = a + b
        c += a
        c.get_SpectralDensity()
        c.get_FTCorrelationFunction()
        c.measure_reorganization_energy()
        c.copy()

    def sd_ops():
        ta = qr.TimeAxis(0.0, 200, 1.0)
        a = qr.SpectralDensity(ta, dict(ftype="OverdampedBrownian", reorg=30.0, cortime=100.0, T=300))
        b = qr.SpectralDensity(ta, dict(ftype="OverdampedBrownian", reorg=10.0, cortime=50.0, T=300))
        c = a + b
        c.get_CorrelationFunction(temperature=300)
        c.get_FTCorrelationFunction(temperature=300)

    def temp_mismatch():
        ta = qr.TimeAxis(0.0, 200, 1.0)
        a = qr.CorrelationFunction(ta, dict(ftype="OverdampedBrownian", reorg=30.0, cortime=100.0, T=300))
        b = qr.CorrelationFunction(ta, dict(ftype="OverdampedBrownian", reorg=10.0, cortime=50.0, T=77))
        a + b

    def save_load():
        ta, ag = built()
        import tempfile
        with tempfile.TemporaryDirectory(dir=os.environ["HOME"]) as d:
            H = ag.get_Hamiltonian()
            H.save(os.path.join(d, "h.qrp"))
            qr.load_parcel(os.path.join(d, "h.qrp"))

    calls = {
        "system+build": lambda: system()[1].build(),
        "build(mult=2)": lambda: system()[1].build(mult=2),
        "build fails": lambda: small_aggregate(bad=True).build(),
        "get_Hamiltonian": lambda: built()[1].get_Hamiltonian(),
        "get_TransitionDipoleMoment": lambda: built()[1].get_TransitionDipoleMoment(),
        "get_SystemBathInteraction": lambda: built()[1].get_SystemBathInteraction(),
        "diagonalize": lambda: built()[1].diagonalize(),
        "RelaxationTensor standard_Redfield": reltensor("standard_Redfield"),
        "RelaxationTensor standard_Redfield secular": reltensor("standard_Redfield", secular_relaxation=True),
        "RelaxationTensor standard_Redfield td": reltensor("standard_Redfield", time_dependent=True),
        "RelaxationTensor standard_Redfield operators": reltensor("standard_Redfield", as_operators=True),
        "RelaxationTensor standard_Foerster": reltensor("standard_Foerster"),
        "RelaxationTensor combined": reltensor("combined_RedfieldFoerster", coupling_cutoff=0.001),
        "RelaxationTensor unknown theory (raises)": reltensor("no_such_theory"),
        "RedfieldRateMatrix": lambda: qr.qm.RedfieldRateMatrix(built()[1].get_Hamiltonian(), built()[1].get_SystemBathInteraction()),
        "thermal DensityMatrix": lambda: built()[1].get_DensityMatrix(condition_type="thermal", temperature=300.0),
        "thermal_excited_state": lambda: built()[1].get_DensityMatrix(condition_type="thermal_excited_state", temperature=300.0),
        "absorption spectrum": absorption,
        "propagate": propagate,
        "Hamiltonian cutoff coupling": ham_cutoff,
        "Hamiltonian.set_rwa": lambda: qr.Hamiltonian(data=[[0.0, 0.1], [0.1, 3.0]]).set_rwa([0, 1]),
        "TimeAxis.get_FrequencyAxis": lambda: qr.TimeAxis(0.0, 100, 1.0).get_FrequencyAxis(),
        "FrequencyAxis.get_TimeAxis": lambda: qr.FrequencyAxis(-1.0, 100, 0.02).get_TimeAxis(),
        "FrequencyAxis(odd upper-half).get_TimeAxis (raises)": odd_upper_half,
        "CorrelationFunction arithmetic": cf_ops,
        "SpectralDensity arithmetic": sd_ops,
        "CorrelationFunction + at different temperatures (raises)": temp_mismatch,
        "save/load parcel": save_load,
        "convert": lambda: qr.convert(100.0, "1/cm", to="eV"),
        "dipole_dipole coupling": lambda: system()[1].set_coupling_by_dipole_dipole(),
        "TestMolecule": lambda: qr.TestMolecule("two-levels-1-mode").get_Hamiltonian(),
    }
    return calls


def run_library_calls(chk, tier):
    import quantarhei as qr
    m = qr.Manager()
    calls = library_calls()
    ctxs = ["1/cm", "eV"] if tier == "quick" else ["1/cm", "eV", "THz", "meV", "Ha"]
    for name, f in sorted(calls.items()):
        for ctx in ctxs:
            c = {"kind": "call", "call": name, "ctx": ctx}
            outcome = "ok"
            try:
                with contextlib.redirect_stdout(io.StringIO()):
                    with qr.energy_units(ctx):
                        with qr.length_units("nm"):
                            before = (m.get_current_units("energy"), m.get_current_units("length"), m._in_eu_count)
                            try:
                                f()
                            except Exception as e:
                                outcome = "raised %s" % type(e).__name__
                            after = (m.get_current_units("energy"), m.get_current_units("length"), m._in_eu_count)
            except Exception as e:
                chk.violation("call:exception", "units context around %s raised %r" % (name, e), "monitor", c)
                continue
            chk.count("call:" + outcome.split(" ")[0])
            chk.case(("call", name, ctx), True, sample={"call": name, "ctx": ctx, "outcome": outcome} if name.startswith("RelaxationTensor combined") else None)
            if after != before:
                chk.violation("call:changes_units:" + name, "library call '%s' (%s) made inside energy_units('%s'), length_units('nm') left the "
                              "caller in %r (was %r)" % (name, outcome, ctx, after, before), "monitor", c)
            end = (m.get_current_units("energy"), m.get_current_units("length"), m._in_eu_count, m._in_energy_units_context)
            if end != ("1/fs", "A", 0, False):
                chk.violation("call:context_not_restored:" + name, "after leaving the contexts around '%s' the manager is %r" % (name, end),
                              "monitor", c)
                qr.set_current_units()
                m._in_eu_count, m._in_energy_units_context = 0, False


def run_input_types(chk, tier):
    """(E) legal input of unusual type: integer lists / integer arrays / arrays shared between objects, supplied in internal units
    (the default) or inside a units context, followed by element-wise setters under other units: what is read back is the exact
    conversion, objects do not share storage with each other or with the caller's array."""
    import numpy as np
    import quantarhei as qr
    from quantarhei.core.units import conversion_facs_energy as F
    r = cm.rng(PID + "types")
    units = ["1/cm", "eV", "THz", "meV"]
    for k in range(12 if tier == "quick" else 120):
        u = r.choice(units)
        v = r.choice([x for x in units if x != u])
        E = float(r.choice([12000, 9500, 15000])) if u == "1/cm" else float(r.randint(1, 9))
        kind = ["int_list", "int_array", "shared_array", "int_coupling"][k % 4]
        c = {"kind": "types:" + kind, "set_in": u, "read_in": v, "value": E, "k": k}
        try:
            qr.Manager().set_current_units("energy", "int")
            if kind in ("int_list", "int_array"):
                ini = [0, 2] if kind == "int_list" else np.array([0, 2])
                where = r.choice([None, None, u])
                if where:
                    with qr.energy_units(where):
                        mol = qr.Molecule([0, 10000] if kind == "int_list" else np.array([0, 10000]))
                else:
                    mol = qr.Molecule(ini)
                with qr.energy_units(u):
                    mol.set_energy(1, E)
                    back_u = mol.get_energy(1)
                with qr.energy_units(v):
                    back_v = mol.get_energy(1)
                chk.case(("types", k, kind, u, v, where), True)
                chk.count("types:" + kind)
                if abs(back_u - E) > 1e-12 * abs(E):
                    chk.violation("types:setter_truncates:" + kind, "Molecule created from %s (%s): energy supplied as %r %s reads back as %r %s"
                                  % (kind.replace("_", " "), "internal units" if not where else where, E, u, back_u, u), "monitor", c)
                want = E * F[u] / F[v]
                if abs(back_v - want) > 1e-12 * abs(want):
                    chk.violation("types:conversion:" + kind, "Molecule created from %s: energy supplied as %r %s reads as %r %s, exact conversion %r"
                                  % (kind.replace("_", " "), E, u, back_v, v, want), "monitor", c)
            elif kind == "shared_array":
                arr = np.array([0.0, 2.0])
                keep = arr.copy()
                m1, m2 = qr.Molecule(arr), qr.Molecule(arr)
                before2 = m2.get_energy(1)
                with qr.energy_units(u):
                    m1.set_energy(1, E)
                chk.case(("types", k, kind, u), True)
                chk.count("types:" + kind)
                if m2.get_energy(1) != before2:
                    chk.violation("types:shared_storage", "two molecules created from one array share storage: setting the energy of one in %s "
                                  "changed the other from %r to %r" % (u, before2, m2.get_energy(1)), "monitor", c)
                if not np.array_equal(arr, keep):
                    chk.violation("types:caller_array_changed", "setting a molecule's energy in %s changed the caller's array %r -> %r"
                                  % (u, keep.tolist(), arr.tolist()), "monitor", c)
            else:
                with qr.energy_units("1/cm"):
                    mols = [qr.Molecule([0.0, 12000.0 + 100 * i]) for i in range(2)]
                agg = qr.Aggregate(mols)
                agg.set_resonance_coupling_matrix([[0, 0], [0, 0]])
                with qr.energy_units(u):
                    agg.set_resonance_coupling(0, 1, E / 100.0)
                    back = agg.get_resonance_coupling(0, 1)
                chk.case(("types", k, kind, u), True)
                chk.count("types:" + kind)
                if abs(back - E / 100.0) > 1e-12 * abs(E / 100.0):
                    chk.violation("types:setter_truncates:coupling", "coupling matrix supplied as integers: coupling set to %r %s reads back as %r %s"
                                  % (E / 100.0, u, back, u), "monitor", c)
        except Exception as e:
            chk.violation("types:exception:" + kind, "input-type case raised %r" % (e,), "monitor", c)
    qr.Manager().set_current_units("energy", "int")


def main():
    chk = cm.Check(PID, args.tier)
    chk.rule = ("(A) registry of units-managed accessors x all 121 ordered pairs of energy units x values; (B) random programs of nested "
                "energy/frequency/length contexts, exceptions, handlers, real Aggregate.build calls (succeeding and failing); (C) public "
                "library calls inside contexts; (D) 69 calls on objects x contexts x inputs created outside / inside the context, stored state "
                "compared with the call made without a context. Non-trivial: u != v; programs with >= 2 contexts; every library call; every "
                "transparency case that returns; (E) integer / shared-array inputs followed by element-wise setters under other units")
    chk.assumptions = ["the conversion factors are read from quantarhei.core.units and handed to the model as exact rationals",
                       "re-entering one context OBJECT while it is active is outside the model (each `with` of the modelled programs creates a new object); objects kept and entered again LATER are covered by a monitor",
                       "length-unit conversions of positions are not in the accessor registry (only context handling and the static tie of the converters)",
                       "static tie (GenC05.v): conversion tables over symbolic positive constants, converters (scalar = except branch, arrays = try branch), "
                       "get/set/unset_current_units with the type of units propagated as a constant, the three context classes through a `with` skeleton "
                       "whose body does not re-enter the same object, delegations, units-managed properties (check_numpy_array taken as the identity on the "
                       "numbers), convert / in_current_units, the units current at every managed access of the axis-conversion functions, the flow of "
                       "energy arguments of five setters; frequency converters (unused, no context can switch current_units['frequency']) are not tied"]
    chk.prove()
    # static tie: the units machinery is translated from the current source and proved equal to Model/C05.v (GenC05.v)
    import fcntl
    import translate
    cm.ensure_makefile()
    os.makedirs(os.path.join(cm.VERIF, ".work"), exist_ok=True)
    with open(os.path.join(cm.VERIF, ".work", ".coqlock"), "w") as lock:       # the committed library of the generated file (no-op when current)
        fcntl.flock(lock, fcntl.LOCK_EX)
        cm._run(["timeout", "600", "make", "theories/Proofs/C05gen.vo"], cwd=cm.COQDIR, timeout=650, env=cm.coq_env())
        fcntl.flock(lock, fcntl.LOCK_UN)
    translate.static_tie(cm, chk, PID, cm.REPO)
    if args.replay:
        rep = json.load(open(args.replay))
        print("replay: re-running the full quick check (the recorded input is part of its deterministic stream): %s" % json.dumps(rep.get("input"))[:300])
    run_conversions(chk, args.tier)
    run_programs(chk, args.tier)
    run_reuse(chk, args.tier)
    run_library_calls(chk, args.tier)
    run_transparency(chk, args.tier)
    run_generators(chk, args.tier)
    run_input_types(chk, args.tier)
    chk.finish()


main()
