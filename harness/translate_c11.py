# -*- coding: utf-8 -*-
"""Static tie for C11: the model of Model/C11.v regenerated from the current source of quantarhei/spectroscopy/abscalculator.py.

The model that is tied is the FAITHFUL one: the returned frequency axis is the one the code builds (Nt points cut from bootstrap's
grid of 2 Nt points - the `Pinned` variant of Model.C11.returned_axis_point, a known finding), not a corrected one.

Translated on every run (fail-closed):
* AbsSpectrumCalculator.one_transition_spectrum - the tail from the first assignment to `ft` to the return (hfft, scale factors, fftshift,
  flipud, cut), statement by statement as array expressions; proved equal to Model.C11.one_transition;
* AbsSpectrumCalculator._calculate_abs_from_dynamics - the same tail (from `ft = ...` to `data = ft[...]`), proved to be one_transition
  with dipole factor 1;
* AbsSpectrumCalculator._calculate_aggregate - the sum over transitions (first transition, loop bounds, per-transition indices of dipole
  strength, transition energy, exciton correlation function and broadening), template with holes; proved equal to Model.C11.spectrum over
  the transitions 1 .. dim-1 (Proofs/C11gen.v: sum_skel_is_spectrum);
* AbsSpectrumCalculator.bootstrap - the statements that create self.frequencyAxis and shift its data by self.rwa; and the re-creation of
  the returned axis (Nt, do, st, FrequencyAxis(st, Nt, do)) in _calculate_monomer, _calculate_aggregate and _calculate_abs_from_dynamics,
  each proved to give, point by point, Model.C11.returned_axis_point Pinned (Proofs/C11gen.v: returned_axis_is_pinned), with
  TimeAxis.get_FrequencyAxis itself translated by harness/translate_c13.py (gen_freq_axis_of = freq_axis_of).
"""
import ast

from translate import Untranslatable, Expr, _src_of
from translate2 import unify, _live
import translate_c13 as t13

PATH = "/quantarhei/spectroscopy/abscalculator.py"
CLS = "AbsSpectrumCalculator."


# =============================================================================================== lines
class LineExpr(t13.ValueExpr):
    """array expressions of the transform tail: hfft, fftshift, flipud, scale factors, cuts"""

    def __init__(self, arrays, scalars, nats):
        t13.ValueExpr.__init__(self, arrays, scalars)
        self.nats = dict(nats)

    def arr(self, node):
        if isinstance(node, ast.Call) and not node.keywords and len(node.args) == 1:
            f = ast.unparse(node.func)
            tab = {"numpy.fft.hfft": "hfft", "numpy.flipud": "rev", "numpy.fft.fftshift": "fftshift", "numpy.fft.ifftshift": "ifftshift"}
            if f in tab:
                return "(%s %s)" % (tab[f], self.term(node.args[0])), None
            raise Untranslatable("call %s" % ast.unparse(node)[:60])
        if isinstance(node, ast.Subscript) and isinstance(node.slice, ast.Slice):
            sl = node.slice
            if sl.step is not None or sl.lower is None or sl.upper is None:
                raise Untranslatable("slice %s" % ast.unparse(node)[:60])
            return "(slice_n %s %s %s)" % (t13._nat(sl.lower, self.nats), t13._nat(sl.upper, self.nats), self.term(node.value)), None
        return t13.ValueExpr.arr(self, node)


def _stores(fn, name):
    return [n for n in ast.walk(fn) if isinstance(n, ast.Name) and n.id == name and isinstance(n.ctx, ast.Store)]


def _tail(fn, scalars, nat_attr, result, what):
    """statements from the first top-level assignment to `ft` on: ft = E; ...; Nt = <length>; (return | result =) ft[a:b]"""
    body = _live(fn.body)
    first = [k for k, s in enumerate(body) if isinstance(s, ast.Assign) and ast.unparse(s.targets[0]) == "ft"]
    if not first:
        raise Untranslatable("%s: no assignment to ft" % what)
    arrays, nats = {"at": "a"}, {}
    out = None
    for s in body[first[0]:]:
        u = ast.unparse(s)
        if out is not None:
            if result is None:
                raise Untranslatable("%s: statement after the return: %s" % (what, u[:60]))
            break                                       # the rest of _calculate_abs_from_dynamics (prefactor, AbsSpectrum) is not the tail
        if isinstance(s, ast.Return):
            if result is not None:
                raise Untranslatable("%s: return inside the tail" % what)
            out = LineExpr(arrays, scalars, nats).term(s.value)
        elif isinstance(s, ast.Assign) and len(s.targets) == 1 and isinstance(s.targets[0], ast.Name):
            nm = s.targets[0].id
            if nm == "at":
                raise Untranslatable("%s: the response is modified after the transform started" % what)
            if ast.unparse(s.value) == nat_attr:
                nats[nm] = "nt"
            elif nm == result:
                out = LineExpr(arrays, scalars, nats).term(s.value)
            else:
                arrays[nm] = LineExpr(arrays, scalars, nats).term(s.value)
        else:
            raise Untranslatable("%s: statement %s" % (what, u[:80]))
    if out is None:
        raise Untranslatable("%s: the cut spectrum is never produced" % what)
    return out


LINES_TEXT = """
Section GenLines.
  Context {R : StarRing}.
  Add Ring RrGenLines : (rth R).
  Open Scope sr_scope.
  Variable hfft : list R -> list R.
  (* one_transition_spectrum from `ft = ...` on: at = a (the time-domain response), ta.length = nt, ta.step = dt, tr["dd"] = dd *)
  Definition gen_one_transition (nt : nat) (dd dt : R) (a : list R) : list R := %(ots)s.
  Lemma gen_one_transition_is_model : forall dd dt a, gen_one_transition (length a) dd dt a = one_transition hfft dd dt a.
  Proof. intros. unfold gen_one_transition, one_transition. rewrite (slice_is_cut (length a)) by lia. line_eq. Qed.
  (* _calculate_abs_from_dynamics from `ft = ...` to `data = ft[...]`: time.length = nt, time.step = dt *)
  Definition gen_dyn_transition (nt : nat) (dt : R) (a : list R) : list R := %(dyn)s.
  Lemma gen_dyn_transition_is_model : forall dt a, gen_dyn_transition (length a) dt a = one_transition hfft 1 dt a.
  Proof. intros. unfold gen_dyn_transition, one_transition. rewrite (slice_is_cut (length a)) by lia. line_eq. Qed.

  (* _calculate_aggregate: sum over the transitions.  dstr_of i j = DD.dipole_strength(i, j);  resp o1 o2 o3 o4 c g = the response
     exp(-g(t) - i w t + gamma t) built from w = HH.data[o1,o2] - HH.data[o3,o4] - rwa, the exciton correlation function
     _excitonic_coft(SS, system, c) and the broadening gg[g]; numpy.real of a real array is the array *)
  Variables (dstr_of : Z -> Z -> R) (resp : Z -> Z -> Z -> Z -> Z -> Z -> list R) (dt : R).
  Definition gen_line0 : list R := one_transition hfft (dstr_of %(fd0)s %(fd1)s) dt (resp %(fo1)s %(fo2)s %(fo3)s %(fo4)s %(fc)s %(fg)s).
  Definition gen_line (dim : nat) (ii : Z) : list R := one_transition hfft (dstr_of %(d0)s %(d1)s) dt (resp %(o1)s %(o2)s %(o3)s %(o4)s %(c)s %(g)s).
  Definition gen_sum (dim : nat) : list R := sum_skel gen_line0 (gen_line dim) %(lo)s %(hi)s.
  Lemma gen_sum_is_model : forall dim, (2 <= dim)%%nat ->
    gen_sum dim = spectrum hfft dt (map (fun a => (dstr_of 0 (Z.of_nat a), resp (Z.of_nat a) (Z.of_nat a) 0 0 (Z.of_nat a - 1) (Z.of_nat a)))
                                       (seq 1 (dim - 1))).
  Proof.
    intros dim Hd. unfold gen_sum.
    apply (sum_skel_is_spectrum hfft dim dt gen_line0 (gen_line dim)
             (fun a => (dstr_of 0 (Z.of_nat a), resp (Z.of_nat a) (Z.of_nat a) 0 0 (Z.of_nat a - 1) (Z.of_nat a)))); try lia.
    - unfold gen_line0. cbn [fst snd]. repeat (f_equal; try lia).
    - intros a Ha. unfold gen_line. cbn [fst snd]. repeat (f_equal; try lia).
  Qed.
End GenLines.
"""

T_SUM = '''
def f():
    tr["dd"] = DD.dipole_strength(H_fd0, H_fd1)
    tr["om"] = HH.data[H_fo1, H_fo2] - HH.data[H_fo3, H_fo4] - self.rwa
    ct = self._excitonic_coft(SS, self.system, H_fc)
    tr["ct"] = ct
    self.system._has_system_bath_coupling = True
    data = numpy.real(self.one_transition_spectrum(tr))
    for ii in range(H_lo, H_hi):
        if relaxation_tensor is not None:
            tr["gg"] = gg[H_g]
        else:
            tr["gg"] = [0.0]
        tr["dd"] = DD.dipole_strength(H_d0, H_d1)
        tr["om"] = HH.data[H_o1, H_o2] - HH.data[H_o3, H_o4] - self.rwa
        tr["ct"] = self._excitonic_coft(SS, self.system, H_c)
        data += numpy.real(self.one_transition_spectrum(tr))
'''


def lines(repo):
    path = repo + PATH
    out = {}
    fn = _src_of(path, CLS + "one_transition_spectrum")
    # the names the tail reads are the transition's own entries, assigned once
    for nm, val in (("dd", "tr['dd']"), ("ta", "tr['ta']")):
        st = _stores(fn, nm)
        assigns = [s for s in ast.walk(fn) if isinstance(s, ast.Assign) and any(isinstance(t, ast.Name) and t.id == nm for t in s.targets)]
        if len(st) != 1 or len(assigns) != 1 or ast.unparse(assigns[0].value) != val:
            raise Untranslatable("one_transition_spectrum: %s is not assigned once from %s" % (nm, val))
    out["ots"] = _tail(fn, {"dd": "dd", "ta.step": "dt"}, "ta.length", None, "one_transition_spectrum")
    fn = _src_of(path, CLS + "_calculate_abs_from_dynamics")
    if len(_stores(fn, "time")) != 1 or len(_stores(fn, "at")) != 2:
        raise Untranslatable("_calculate_abs_from_dynamics: time / at assigned otherwise than once / once per branch")
    out["dyn"] = _tail(fn, {"time.step": "dt"}, "time.length", "data", "_calculate_abs_from_dynamics")
    # the sum over transitions
    fn = _src_of(path, CLS + "_calculate_aggregate")
    body = _live(fn.body)
    start = [k for k, s in enumerate(body) if ast.unparse(s).startswith("tr['dd'] =")]
    loops = [k for k, s in enumerate(body) if isinstance(s, ast.For)]
    if len(start) != 1 or len(loops) != 1 or loops[0] < start[0]:
        raise Untranslatable("_calculate_aggregate: first transition / loop over the others not found once")
    tpl = ast.parse(T_SUM).body[0].body
    env = {}
    unify(tpl, body[start[0]:loops[0] + 1], env, "_calculate_aggregate")
    for s in body[loops[0] + 1:]:
        for n in ast.walk(s):
            if isinstance(n, ast.Name) and n.id == "data" and isinstance(n.ctx, ast.Store) and ast.unparse(s) != "if not raw:\n    data = axis.data * data":
                raise Untranslatable("_calculate_aggregate: data modified after the sum: %s" % ast.unparse(s)[:60])
    # broadening of the first transition: every assignment to tr["gg"] before the loop is gg[<const>] (same const) or [0.0]
    firsts = set()
    for s in body[:start[0]]:
        for n in ast.walk(s):
            if isinstance(n, ast.Assign) and ast.unparse(n.targets[0]) == "tr['gg']":
                v = n.value
                if isinstance(v, ast.Subscript) and ast.unparse(v.value) == "gg" and isinstance(v.slice, ast.Constant) and isinstance(v.slice.value, int):
                    firsts.add(v.slice.value)
                elif ast.unparse(v) != "[0.0]":
                    raise Untranslatable("_calculate_aggregate: tr['gg'] = %s" % ast.unparse(v)[:40])
    if len(firsts) != 1:
        raise Untranslatable("_calculate_aggregate: broadening index of the first transition %r" % sorted(firsts))
    out["fg"] = "(%d)" % firsts.pop()
    e0 = Expr("Z", {})
    for h in ("fd0", "fd1", "fo1", "fo2", "fo3", "fo4", "fc"):
        out[h] = e0.e(env["H_" + h])
    ez = Expr("Z", {"ii": "ii"}, attrs={"HH.dim": "(Z.of_nat dim)"})
    for h in ("d0", "d1", "o1", "o2", "o3", "o4", "c", "g"):
        out[h] = ez.e(env["H_" + h])
    eb = Expr("Z", {}, attrs={"HH.dim": "(Z.of_nat dim)"})
    out["lo"], out["hi"] = eb.e(env["H_lo"]), eb.e(env["H_hi"])
    what = ["abscalculator.py:one_transition_spectrum (from `ft = ...` to the return)",
            "abscalculator.py:_calculate_abs_from_dynamics (transform tail)",
            "abscalculator.py:_calculate_aggregate (first transition and loop over the others)"]
    return LINES_TEXT % out, what


# =============================================================================================== exciton correlation function
T_COFT = '''
def _excitonic_coft(self, SS, AG, n):
    c0 = AG.monomers[0].get_egcf((0, 1))
    Nt = len(c0)
    sbi = AG.get_SystemBathInteraction()
    cfm = sbi.CC
    ct = numpy.zeros(Nt, dtype=numpy.complex128)
    Na = AG.nmono
    for kk in range(H_lo1, H_hi1):
        for ll in range(H_lo2, H_hi2):
            ct += H_term
    return ct
'''


class CoftExpr:
    """the accumulated term: products of SS[i, j] (also squared) and cfm.get_coft(a, b), indices as integer expressions"""

    def __init__(self):
        self.z = Expr("Z", {"kk": "kk", "ll": "ll", "n": "n"})

    def e(self, node):
        if isinstance(node, ast.BinOp) and isinstance(node.op, ast.Mult):
            return "(%s * %s)" % (self.e(node.left), self.e(node.right))
        if isinstance(node, ast.BinOp) and isinstance(node.op, ast.Pow) and isinstance(node.right, ast.Constant) and node.right.value == 2 \
                and not isinstance(node.right.value, bool):
            x = self.e(node.left)
            return "(%s * %s)" % (x, x)
        if isinstance(node, ast.Subscript) and isinstance(node.value, ast.Name) and node.value.id == "SS" and isinstance(node.slice, ast.Tuple) \
                and len(node.slice.elts) == 2:
            return "(S %s%%Z %s%%Z)" % (self.z.e(node.slice.elts[0]), self.z.e(node.slice.elts[1]))
        if isinstance(node, ast.Call) and ast.unparse(node.func) == "cfm.get_coft" and len(node.args) == 2 and not node.keywords:
            return "(C %s%%Z %s%%Z)" % (self.z.e(node.args[0]), self.z.e(node.args[1]))
        raise Untranslatable("term of the exciton correlation function: %s" % ast.unparse(node)[:80])


COFT_TEXT = """
Section GenCoft.
  Context {R : StarRing}.
  Add Ring RrGenCoft : (rth R).
  Open Scope sr_scope.
  (* _excitonic_coft at one time point: S i j = SS[i, j], C a b = cfm.get_coft(a, b) at that time, na = AG.nmono *)
  Definition gen_exc_coft (na : nat) (S C : Z -> Z -> R) (n : Z) : R :=
    loop2_skel %(lo1)s%%Z %(hi1)s%%Z %(lo2)s%%Z %(hi2)s%%Z (fun kk ll => %(term)s) 0.
  Lemma gen_exc_coft_is_model : forall na (S C : Z -> Z -> R) (n : nat),
    gen_exc_coft na S C (Z.of_nat n) =
    exc_coft na (fun i j => S (Z.of_nat i) (Z.of_nat j)) (fun a b => C (Z.of_nat a) (Z.of_nat b)) n.
  Proof.
    intros na S C n. unfold gen_exc_coft, exc_coft, exc_weight. apply loop2_skel_is_sum; try lia.
    intros kk ll Hk Hl. rewrite !Nat2Z.inj_add. change (Z.of_nat 1) with 1%%Z. ring.
  Qed.
End GenCoft.
"""


def coft(repo):
    env = t13._match(repo + PATH, CLS + "_excitonic_coft", T_COFT)
    ez = Expr("Z", {"Na": "(Z.of_nat na)"}, attrs={"AG.nmono": "(Z.of_nat na)"})
    out = {h: ez.e(env["H_" + h]) for h in ("lo1", "hi1", "lo2", "hi2")}
    out["term"] = CoftExpr().e(env["H_term"])
    return COFT_TEXT % out, ["abscalculator.py:_excitonic_coft (loop nest and accumulated term)"]


# =============================================================================================== axes
T_BOOT = '''
def f():
    with energy_units("int"):
        self.frequencyAxis = self.TimeAxis.get_FrequencyAxis()
        self.frequencyAxis.data += H_shift
    self.bootstrapped = True
'''


class RecExpr(t13.AxisExpr):
    """expressions of the axis re-creation: the array self.frequencyAxis.data and local names"""

    def e(self, node):
        if ast.unparse(node) == "self.frequencyAxis.data":
            return t13.Val("arr", "fdata")
        if isinstance(node, ast.Attribute):
            raise Untranslatable("attribute %s" % ast.unparse(node))
        return t13.AxisExpr.e(self, node)


def _recreate(fn, what):
    """Nt = ...; do = ...; st = ...; axis = FrequencyAxis(st, Nt, do)  ->  term of type option (axis K) in fdata"""
    body = _live(fn.body)
    idx = [k for k, s in enumerate(body) if isinstance(s, ast.Assign) and ast.unparse(s.targets[0]) == "axis"]
    if len(idx) != 1 or len(_stores(fn, "axis")) != 1:
        raise Untranslatable("%s: the returned axis is not created exactly once" % what)
    k = idx[0]
    call = body[k].value
    if not (isinstance(call, ast.Call) and ast.unparse(call.func) == "FrequencyAxis" and len(call.args) == 3 and not call.keywords):
        raise Untranslatable("%s: axis = %s" % (what, ast.unparse(call)[:60]))
    # the statements that compute its arguments: the assignments directly above
    need = {n.id for a in call.args for n in ast.walk(a) if isinstance(n, ast.Name)}
    j = k
    block = []
    while j > 0 and need - {ast.unparse(s.targets[0]) for s in block}:
        j -= 1
        s = body[j]
        if not (isinstance(s, ast.Assign) and len(s.targets) == 1 and isinstance(s.targets[0], ast.Name)):
            raise Untranslatable("%s: statement above the axis creation: %s" % (what, ast.unparse(s)[:60]))
        block.insert(0, s)
    ex = RecExpr("none", {})
    lines, closes = [], 0
    for s in block:
        nm = s.targets[0].id
        cn = t13.coqname(nm)
        v = ex.e(s.value)
        if v.ty == "oK":
            lines.append("obind %s (fun %s =>" % (v.term, cn))
            closes += 1
            ex.env[nm] = t13.Val("K", cn)
        else:
            lines.append("let %s := %s in" % (cn, v.term))
            ex.env[nm] = t13.Val(v.ty, cn)
    st, n, do = ex.toK(ex.e(call.args[0])), ex.e(call.args[1]), ex.toK(ex.e(call.args[2]))
    if st.ty != "K" or do.ty != "K" or n.ty != "nat":
        raise Untranslatable("%s: arguments of FrequencyAxis" % what)
    # the spectrum is returned on this axis
    if "AbsSpectrum(axis=axis, data=data)" not in ast.unparse(fn):
        raise Untranslatable("%s: the spectrum is not returned on the re-created axis" % what)
    return "\n      ".join(lines + ["Some (mkAxis %s %s %s Complete (f0 K))" % (st.term, n.term, do.term)]) + ")" * closes


def _ctor_defaults(repo):
    fn = _src_of(repo + "/quantarhei/core/frequency.py", "FrequencyAxis.__init__")
    names = [a.arg for a in fn.args.args]
    defaults = dict(zip(names[len(names) - len(fn.args.defaults):], [ast.unparse(d) for d in fn.args.defaults]))
    if names[:4] != ["self", "start", "length", "step"] or defaults.get("atype") != "'complete'" or defaults.get("time_start") != "0.0":
        raise Untranslatable("FrequencyAxis.__init__ signature / defaults %r %r" % (names, defaults))


AXIS_LEMMA = """  Definition gen_axis_%(tag)s (fdata : @arr K) : option (axis K) :=
      %(term)s.
  Lemma gen_axis_%(tag)s_is_model : forall s nt dt rwa w p, (1 <= nt)%%nat -> gen_freq_axis_of (mkAxis s nt dt UpperHalf (f0 K)) = Some w ->
    exists ax, gen_axis_%(tag)s (gen_boot_data w rwa) = Some ax /\\ a_len ax = nt /\\
               returned_axis_point K tp Pinned nt dt rwa p = Some (point K ax p).
  Proof. intros s nt dt rwa w p Hn Hw. rewrite gen_freq_axis_of_is_model in Hw. unfold gen_axis_%(tag)s, gen_boot_data. axis11_tie K tp s nt dt rwa w Hn Hw. Qed.
"""

AXES_TEXT = """
Section GenAxis11.
  Variable K : Fld.
  Variable tp : K.
  Add Field KfGenAxis11 : (fth K).
  (* bootstrap:  self.frequencyAxis = self.TimeAxis.get_FrequencyAxis();  self.frequencyAxis.data += %(shift_src)s *)
  Definition gen_boot_data (w : axis K) (rwa : K) : @arr K := arr_addc %(shift)s (axis_data w).
%(lemmas)s
End GenAxis11.
"""


def axes11(repo):
    path = repo + PATH
    _ctor_defaults(repo)
    fn = _src_of(path, CLS + "bootstrap")
    body = _live(fn.body)
    tpl = ast.parse(T_BOOT).body[0].body
    env = {}
    unify(tpl, body[-2:], env, "bootstrap (last two statements)")
    for s in body[:-2]:
        if "frequencyAxis" in ast.unparse(s):
            raise Untranslatable("bootstrap: self.frequencyAxis touched before its creation")
    if ast.unparse(env["H_shift"]) != "self.rwa":
        raise Untranslatable("bootstrap: the axis is shifted by %s" % ast.unparse(env["H_shift"]))
    lem = []
    for tag, meth in (("monomer", "_calculate_monomer"), ("aggregate", "_calculate_aggregate"), ("dynamics", "_calculate_abs_from_dynamics")):
        fn = _src_of(path, CLS + meth)
        lem.append(AXIS_LEMMA % {"tag": tag, "term": _recreate(fn, meth)})
    what = ["abscalculator.py:bootstrap (creation and shift of self.frequencyAxis)"] + \
           ["abscalculator.py:%s (re-created frequency axis)" % m for m in ("_calculate_monomer", "_calculate_aggregate", "_calculate_abs_from_dynamics")]
    return AXES_TEXT % {"shift_src": "self.rwa", "shift": "rwa", "lemmas": "\n".join(lem)}, what


def basis_discipline(repo):
    """AbsSpectrumCalculator._calculate_aggregate: the basis-changing calls on the shared operators HH, DD, RR in source order.
    Anything else done to them (another method, a store into them, handing them to another function) is untranslatable."""
    fn = _src_of(repo + PATH, CLS + "_calculate_aggregate")
    OBJ = {"HH": "OH", "DD": "OD", "RR": "OR"}
    READ_METHODS = {"dipole_strength"}
    GUARD = "relaxation_tensor is not None"
    prog, assigned = [], {}

    def expr_calls(node, guarded, in_loop):
        for n in ast.walk(node):
            if isinstance(n, ast.Call):
                f = n.func
                if isinstance(f, ast.Attribute) and isinstance(f.value, ast.Name) and f.value.id in OBJ:
                    o, m = f.value.id, f.attr
                    if m in READ_METHODS:
                        continue
                    if guarded is None or in_loop:
                        raise Untranslatable("_calculate_aggregate: %s.%s called inside a loop or a branch other than the tensor guard" % (o, m))
                    if m == "transform" and len(n.args) == 1 and not n.keywords and isinstance(n.args[0], ast.Name) and n.args[0].id in ("SS", "S1"):
                        prog.append((OBJ[o], "MS" if n.args[0].id == "SS" else "MS1", guarded))
                    elif m == "diagonalize" and not n.args and not n.keywords and o == "HH":
                        prog.append(("OH", "MS", guarded))
                    else:
                        raise Untranslatable("_calculate_aggregate: %s" % ast.unparse(n)[:60])
                else:
                    fname = ast.unparse(f)
                    for a in list(n.args) + [k.value for k in n.keywords]:
                        if isinstance(a, ast.Name) and a.id in OBJ and fname != "isinstance":
                            raise Untranslatable("_calculate_aggregate: %s handed to %s" % (a.id, fname))

    def walk(stmts, guarded, in_loop):
        for st in stmts:
            if isinstance(st, ast.If):
                expr_calls(st.test, guarded, in_loop)
                if ast.unparse(st.test) == GUARD and guarded is False:
                    walk(st.body, True, in_loop)
                    walk(st.orelse, None, in_loop)         # the branches without a supplied tensor: no basis changes there
                else:
                    walk(st.body, guarded, in_loop)
                    walk(st.orelse, guarded, in_loop)
                continue
            if isinstance(st, (ast.For, ast.While)):
                walk(st.body, guarded, True)
                walk(st.orelse, guarded, True)
                continue
            if isinstance(st, (ast.Assign, ast.AugAssign)):
                tg = st.targets if isinstance(st, ast.Assign) else [st.target]
                for t in tg:
                    base = t
                    while isinstance(base, (ast.Attribute, ast.Subscript)):
                        base = base.value
                    if isinstance(base, ast.Name) and base.id in OBJ and base is not t:
                        raise Untranslatable("_calculate_aggregate: store into %s" % ast.unparse(t)[:40])
                    if isinstance(t, ast.Name) and t.id in ("SS", "S1", "HH", "DD", "RR"):
                        assigned.setdefault(t.id, []).append(ast.unparse(st.value))
                expr_calls(st.value, guarded, in_loop)
                continue
            if isinstance(st, (ast.Expr, ast.Return)):
                if st.value is not None:
                    expr_calls(st.value, guarded, in_loop)
                continue
            if isinstance(st, ast.Pass):
                continue
            raise Untranslatable("_calculate_aggregate: statement %s" % type(st).__name__)
    walk(_live(fn.body), False, False)
    want = {"SS": ["HH.diagonalize()"], "S1": ["numpy.linalg.inv(SS)"], "HH": ["self.system.get_Hamiltonian()", "relaxation_hamiltonian"],
            "DD": ["self.system.get_TransitionDipoleMoment()"], "RR": ["relaxation_tensor", "rate_matrix"]}
    if assigned != want:
        raise Untranslatable("_calculate_aggregate: SS / S1 / HH / DD / RR are bound to %r" % assigned)
    items = "; ".join("(%s, %s, %s)" % (o, m, "true" if g else "false") for (o, m, g) in prog)
    text = """
(* ---- basis discipline, GENERATED from _calculate_aggregate: the basis-changing calls on HH, DD, RR in source order ---- *)
Definition gen_transforms : list (tobj * tmat * bool) := [%s].
Lemma gen_transforms_is_model : gen_transforms = purity_prog.
Proof. reflexivity. Qed.
(* hence every shared operator is handed back as it was found, with or without a supplied tensor (Proofs.C11.transform_back) *)
Lemma gen_transforms_restore (R : StarRing) n (S S1 : @mat R) wt o A :
  meq n (mmul n S S1) mid -> meq n (trun n S S1 wt gen_transforms o A) A.
Proof. rewrite gen_transforms_is_model. apply purity_prog_restores. Qed.
""" % items
    return text, ["abscalculator.py:_calculate_aggregate (basis-changing calls on the Hamiltonian, dipole operator and supplied tensor)"]


HEAD = """(* GENERATED on every run by harness/translate_c11.py from quantarhei/spectroscopy/abscalculator.py (and, for get_FrequencyAxis,
   by harness/translate_c13.py from quantarhei/core/time.py).  The arithmetic content below is the code's. *)
From Coq Require Import ZArith List Bool Arith Lia ZifyNat Field.
From QV Require Import Base.Alg Base.Sums Base.Mat Base.Util Base.Dft Model.C13 Proofs.C13 Proofs.C13gen Model.C11 Proofs.C11 Proofs.C11gen.
Import ListNotations.
"""


def static(repo):
    a13, w13 = t13.axes(repo)
    l, wl = lines(repo)
    cf, wc = coft(repo)
    l, wl = l + cf, wl + wc
    a, wa = axes11(repo)
    # the axis section continues the one of translate_c13 (same K, tp): gen_freq_axis_of is the code's get_FrequencyAxis
    a13 = a13.replace("End GenAxes.\n", "")
    a = a.replace("Section GenAxis11.\n  Variable K : Fld.\n  Variable tp : K.\n  Add Field KfGenAxis11 : (fth K).\n", "").replace("End GenAxis11.", "End GenAxes.")
    b, wb = basis_discipline(repo)
    return HEAD + l + a13 + a + b, wl + [w13[0]] + wa + wb
