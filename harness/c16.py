# -*- coding: utf-8 -*-
"""C16 - hierarchical equations: complete index set, consistent links, valid states.

Proof: coq/theories/Props/C16.v.  Tie: (a) hinds / nm1 / np1 / level offsets / level lengths of real
KTHierarchy objects (built through __init__ from aggregates, and bare for more baths) compared
exactly inside Coq with Model.C16; (b) _ado_self_rhs + _ado_cros_rhs driven with Gaussian-integer
ADOs, couplings and parameters, compared exactly with Model.C16.rhs over Z[i].
Monitors: completeness/uniqueness/link inversion checked directly on the tables; unit trace and
Hermiticity of propagated states; zero coupling = closed system; (validated only) convergence with
depth to the analytic pure-dephasing solution for uncoupled sites.
"""
import os
import sys
import io
import json
import contextlib
import itertools

sys.path.insert(0, os.path.dirname(os.path.abspath(__file__)))
import common as cm

PID = "C16"
work = cm.reexec_isolated(PID)
args = cm.parse_args(sys.argv[1:])


def build_system(nmol, reorgs, cortimes, T=200, energies=None, couplings=None, nt=100, ground=0.0):
    import quantarhei as qr
    ta = qr.TimeAxis(0.0, nt, 1.0)
    mols = []
    with qr.energy_units("1/cm"):
        for k in range(nmol):
            en = energies[k] if energies else 10000.0 + 70.0 * k
            # a non-zero ground-state energy (first molecule): the rotating frame then also shifts the ground block
            mol = qr.Molecule([ground if k == 0 else 0.0, en + (ground if k == 0 else 0.0)])
            cf = qr.CorrelationFunction(ta, dict(ftype="OverdampedBrownian-HighTemperature", reorg=reorgs[k],
                                                 cortime=cortimes[k], T=T))
            mol.set_transition_environment((0, 1), cf)
            mols.append(mol)
    agg = qr.Aggregate(mols)
    if couplings:
        with qr.energy_units("1/cm"):
            for (a, b, J) in couplings:
                agg.set_resonance_coupling(a, b, J)
    agg.build()
    return ta, agg, agg.get_Hamiltonian(), agg.get_SystemBathInteraction()


def make_hierarchy(c):
    """a real KTHierarchy: through __init__ (kind 'full') or bare (only the index machinery)"""
    import numpy
    import quantarhei as qr
    from quantarhei.qm.liouvillespace.heom import KTHierarchy
    if c["kind"] == "full":
        ta, agg, ham, sbi = build_system(c["N"], [30.0 + 10 * k for k in range(c["N"])], [40.0 + 5 * k for k in range(c["N"])])
        with contextlib.redirect_stdout(io.StringIO()):
            via = c.get("via", "class")
            if via == "class":
                hy = KTHierarchy(ham, sbi, c["depth"])
            elif via == "system":                   # the public entry points of the open system (positional / keyword depth)
                hy = agg.get_KTHierarchy(c["depth"]) if c.get("positional", True) else agg.get_KTHierarchy(depth=c["depth"])
            elif via == "propagator":
                prop = (agg.get_KTHierarchyPropagator(c["depth"]) if c.get("positional", True)
                        else agg.get_KTHierarchyPropagator(depth=c["depth"]))
                hy = prop.hy
            else:
                raise ValueError(via)
        if int(hy.depth) != c["depth"]:
            raise AssertionError("hierarchy of depth %d requested through %s, depth %d delivered" % (c["depth"], via, int(hy.depth)))
        return hy
    hy = KTHierarchy.__new__(KTHierarchy)
    hy.nbath, hy.depth = c["N"], c["depth"]
    indxs = hy.generate_indices(hy.nbath, level=hy.depth)
    hy.hsize = sum(len(l) for l in indxs)
    hy.levels = numpy.zeros(hy.depth + 1, dtype=int)
    hy.levlengths = numpy.zeros(hy.depth + 1, dtype=int)
    hy.hinds = hy._convert_2_matrix(indxs)
    hy.nm1 = numpy.zeros((hy.hsize, hy.nbath), dtype=int)
    hy.np1 = numpy.zeros((hy.hsize, hy.nbath), dtype=int)
    hy._make_nmp1()
    hy.gamma = numpy.arange(1, hy.nbath + 1, dtype=float)
    hy.Gamma = numpy.zeros(hy.hsize)
    hy._make_Gamma()
    return hy


def monitor_tables(hy):
    """the property read directly off the implementation's tables"""
    import numpy
    N, depth = hy.nbath, hy.depth
    rows = [tuple(int(x) for x in r) for r in hy.hinds]
    want = [m for m in itertools.product(range(depth + 1), repeat=N) if sum(m) <= depth]
    if len(rows) != len(set(rows)):
        return "a multi-index occurs more than once (hsize %d, distinct %d)" % (len(rows), len(set(rows)))
    if set(rows) != set(want) or hy.hsize != len(want):
        return "index set is not the set of all multi-indices of order <= depth (hsize %d, expected %d)" % (hy.hsize, len(want))
    sums = [sum(r) for r in rows]
    if sums != sorted(sums):
        return "indices are not ordered level by level"
    for lvl in range(depth + 1):
        if int(hy.levels[lvl]) != sums.index(lvl) or int(hy.levlengths[lvl]) != sums.count(lvl):
            return "level %d: offset/length (%d,%d) wrong" % (lvl, hy.levels[lvl], hy.levlengths[lvl])
    pos = {r: i for i, r in enumerate(rows)}
    for n, r in enumerate(rows):
        for k in range(N):
            lo = list(r); lo[k] -= 1
            up = list(r); up[k] += 1
            wm = pos.get(tuple(lo), -1)
            wp = pos.get(tuple(up), -1)
            if int(hy.nm1[n, k]) != wm or int(hy.np1[n, k]) != wp:
                return "links of entry %d %s bath %d are (%d,%d), expected (%d,%d)" % (n, r, k, hy.nm1[n, k], hy.np1[n, k], wm, wp)
            if wm >= 0 and int(hy.np1[wm, k]) != n:
                return "np1[nm1[n,k],k] != n at n=%d k=%d" % (n, k)
    G = [sum(r[k] * hy.gamma[k] for k in range(N)) for r in rows]
    if not numpy.allclose(hy.Gamma, G, rtol=1e-14, atol=0):
        return "Gamma is not sum_k n_k gamma_k"
    return None


class HamStub:
    has_rwa = True

    def __init__(self, data):
        self.data = data


def rhs_case(r, k):
    N = r.choice([1, 2, 2, 3])
    depth = r.choice([1, 2, 2, 3])
    dim = r.choice([2, 3])

    def gi(lo=-2, hi=2):
        return [r.randint(lo, hi), r.randint(lo, hi)]
    return {"kind": "rhs", "N": N, "depth": depth, "dim": dim,
            "HH": [[r.randint(-3, 3) for _ in range(dim)] for _ in range(dim)],
            "HOmega": [r.randint(0, 2) for _ in range(dim)],
            "Vs": [[[r.randint(-1, 2) for _ in range(dim)] for _ in range(dim)] for _ in range(N)],
            "lam": [r.randint(0, 3) for _ in range(N)], "gam": [r.randint(1, 3) for _ in range(N)],
            "kBT": r.randint(1, 4), "dt": r.choice([1, 2, -1, 3]), "slevel": r.choice([0, 0, 0, 1]),
            "seed": r.randrange(10 ** 9)}


def run_rhs(c):
    import numpy
    import random
    import quantarhei as qr
    from quantarhei.qm.liouvillespace.heom import KTHierarchyPropagator
    hy = make_hierarchy({"kind": "bare", "N": c["N"], "depth": c["depth"]})
    dim = c["dim"]
    hy.dim = dim
    hy.Vs = numpy.array(c["Vs"], dtype=float)
    hy.lam = numpy.array(c["lam"], dtype=float)
    hy.gamma = numpy.array(c["gam"], dtype=float)
    hy.kBT = float(c["kBT"])
    hy.Gamma = numpy.zeros(hy.hsize)
    hy._make_Gamma()
    hy.ham = HamStub(numpy.array(c["HH"], dtype=float))
    prop = KTHierarchyPropagator.__new__(KTHierarchyPropagator)
    prop.hy = hy
    prop.HOmega = numpy.diag(numpy.array(c["HOmega"], dtype=float))
    rr = random.Random(c["seed"])
    ado = numpy.zeros((hy.hsize, dim, dim), dtype=complex)
    for n in range(hy.hsize):
        for a in range(dim):
            for b in range(dim):
                ado[n, a, b] = rr.randint(-2, 2) + 1j * rr.randint(-2, 2)
    ado_in = ado.copy()
    out = prop._ado_cros_rhs(ado, float(c["dt"]), c["slevel"]) + prop._ado_self_rhs(ado, float(c["dt"]), c["slevel"])
    if not numpy.array_equal(ado, ado_in):
        raise AssertionError("the right-hand side changed its argument")
    return hy, ado_in, out


def coq_rhs_item(c, hy, ado, out):
    N, dim = c["N"], c["dim"]
    hh = [[c["HH"][a][b] - (c["HOmega"][a] if a == b else 0) for b in range(dim)] for a in range(dim)]
    return "(%d%%nat, %d%%nat, %d%%nat, %s, %s, %s, %s, %s, %s, %s, %d%%nat, %s)" % (
        N, c["depth"], dim, cm.mat_lit(hh), cm.clist([cm.mat_lit(v) for v in c["Vs"]]),
        cm.clist([cm.gz(x) for x in c["lam"]]), cm.clist([cm.gz(x) for x in c["gam"]]), cm.gz(c["kBT"]), cm.gz(c["dt"]),
        cm.clist([cm.mat_lit(ado[n]) for n in range(hy.hsize)]), c["slevel"],
        cm.clist([cm.mat_lit(out[n]) for n in range(hy.hsize)]))


def propagate_monitors(chk, tier):
    """trace / Hermiticity / zero coupling / analytic dephasing limit on real propagations"""
    import numpy
    import scipy.linalg
    import quantarhei as qr
    r = cm.rng(PID + "prop")
    n = 3 if tier == "quick" else 14
    for k in range(n):
        nmol = r.choice([2, 2, 3])
        depth = r.choice([1, 2, 3]) if nmol == 2 else r.choice([1, 2])
        zero = (k % 3 == 1)
        reorgs = [0.0 if zero else float(r.choice([20, 50, 80])) for _ in range(nmol)]
        cort = [float(r.choice([30, 50, 80])) for _ in range(nmol)]
        coup = [(a, a + 1, float(r.choice([30, 80, -50]))) for a in range(nmol - 1)]
        ground = float(r.choice([0.0, 150.0, 150.0, 400.0]))
        c = {"kind": "propagate", "nmol": nmol, "depth": depth, "reorgs": reorgs, "cortimes": cort, "couplings": coup, "ground": ground}
        try:
            ta, agg, ham, sbi = build_system(nmol, reorgs, cort, T=200, couplings=coup, nt=60, ground=ground)
            if k % 3 != 0:
                # a complex Hermitian Hamiltonian: the resonance couplings get a phase (the aggregate's own Hamiltonian object, RWA kept)
                Hc = numpy.array(ham._data, dtype=complex)
                for a in range(1, Hc.shape[0]):
                    for b in range(a + 1, Hc.shape[0]):
                        ph = numpy.exp(1j * (0.4 + 0.7 * a + 0.3 * b))
                        Hc[a, b], Hc[b, a] = Hc[a, b] * ph, Hc[b, a] * numpy.conj(ph)
                ham._data = Hc
                c["complex_hamiltonian"] = True
            with contextlib.redirect_stdout(io.StringIO()):
                hy = qr.KTHierarchy(ham, sbi, depth)
            psi = numpy.array([1.0] + [0.5 + 0.3j * (i + 1) for i in range(nmol)])
            psi = psi / numpy.linalg.norm(psi)
            rho0 = numpy.outer(psi, psi.conj())
            rhoi = qr.ReducedDensityMatrix(dim=ham.dim)
            rhoi.data[:, :] = rho0
            L = r.choice([2, 4, 6])
            dat = qr.KTHierarchyPropagator(ta, hy).propagate(rhoi, L=L).data
            chk.case(("propagate", k, json.dumps(c)), True)
            chk.count("propagate:L=%d" % L)
            trc = numpy.trace(dat, axis1=1, axis2=2)
            if numpy.max(numpy.abs(trc - 1.0)) > 1e-10:
                chk.violation("propagate:trace", "trace of the reduced density matrix drifts by %.3g" % numpy.max(numpy.abs(trc - 1.0)), "monitor", c)
            hd = numpy.max(numpy.abs(dat - numpy.conj(numpy.transpose(dat, (0, 2, 1)))))
            if hd > 1e-10:
                chk.violation("propagate:hermiticity", "reduced density matrix not Hermitian: %.3g" % hd, "monitor", c)
            if zero:
                HH = ham.data - numpy.diag(ham.rwa_energies)
                worst = 0.0
                for i in range(ta.length):
                    U = scipy.linalg.expm(-1j * HH * ta.data[i])
                    worst = max(worst, numpy.max(numpy.abs(dat[i] - U.dot(rho0).dot(U.conj().T))))
                x = numpy.linalg.norm(HH, 2) * 2 * ta.step
                bound = ta.length * (x ** (L + 1)) / float(numpy.prod(range(1, L + 2))) * numpy.exp(x) + 1e-10
                chk.count("propagate:zero_coupling")
                if worst > bound:
                    chk.violation("propagate:zero_coupling", "with zero reorganisation energy the result differs from the closed-system "
                                  "dynamics by %.3g > truncation bound %.3g" % (worst, bound), "monitor", c)
        except Exception as e:
            chk.violation("propagate:exception", "HEOM propagation raised %r" % (e,), "monitor", c)
    # analytic pure-dephasing limit for uncoupled sites (validated only)
    c = {"kind": "dephasing_limit"}
    try:
        ta, agg, ham, sbi = build_system(2, [80.0, 100.0], [30.0, 40.0], T=200, energies=[10000.0, 10150.0], nt=150, ground=150.0)
        t = ta.data
        psi = numpy.array([1.0, 0.8j, -0.6 + 0.3j])
        psi = psi / numpy.linalg.norm(psi)
        rho0 = numpy.outer(psi, psi.conj())
        errs = {}
        for depth in ((2, 5, 8) if tier == "quick" else (2, 5, 8, 10)):
            with contextlib.redirect_stdout(io.StringIO()):
                hy = qr.KTHierarchy(ham, sbi, depth)
            rhoi = qr.ReducedDensityMatrix(dim=ham.dim)
            rhoi.data[:, :] = rho0
            dat = qr.KTHierarchyPropagator(ta, hy).propagate(rhoi).data
            gg, ww = [], []
            for kk in range(2):
                c0 = hy.lam[kk] * (2.0 * hy.kBT - 1j * hy.gamma[kk])
                gg.append((c0 / hy.gamma[kk] ** 2) * (numpy.exp(-hy.gamma[kk] * t) + hy.gamma[kk] * t - 1.0))
                ww.append(ham.data[kk + 1, kk + 1] - ham.rwa_energies[kk + 1])
            eopt = max(numpy.max(numpy.abs(dat[:, kk + 1, 0] - rho0[kk + 1, 0] * numpy.exp(-1j * ww[kk] * t - gg[kk]))) for kk in range(2))
            eint = numpy.max(numpy.abs(dat[:, 1, 2] - rho0[1, 2] * numpy.exp(-1j * (ww[0] - ww[1]) * t - gg[0] - numpy.conj(gg[1]))))
            epop = max(numpy.max(numpy.abs(dat[:, kk, kk] - rho0[kk, kk])) for kk in range(3))
            errs[depth] = (epop, eopt, eint)
        chk.case(("dephasing_limit",), True)
        chk.extra["dephasing_limit_errors"] = {str(d): [float(x) for x in v] for d, v in errs.items()}
        ds = sorted(errs)
        if any(errs[d][0] > 1e-10 for d in ds):
            chk.violation("dephasing:populations", "populations of uncoupled sites change: %r" % (errs,), "monitor", c)
        if not all(errs[ds[i + 1]][1] < errs[ds[i]][1] and errs[ds[i + 1]][2] < errs[ds[i]][2] for i in range(len(ds) - 1)) \
                or errs[ds[-1]][1] > 1e-4 or errs[ds[-1]][2] > 1e-4:
            chk.violation("dephasing:no_convergence", "HEOM of uncoupled sites does not converge with depth to exp(-i w t - g(t)): "
                          "errors (pop, optical, inter-site) per depth %r" % (errs,), "monitor", c)
    except Exception as e:
        chk.violation("dephasing:exception", "dephasing-limit monitor raised %r" % (e,), "monitor", c)


def molecule_dephasing_monitor(chk, tier):
    """the exactly solvable model reached through the other open system: one multi-level Molecule (its excited states are
    uncoupled sites) with baths on a subset of its transitions, through Molecule.get_KTHierarchyPropagator.  A coherence
    between levels k and l follows exp(-i (w_k - w_l) t - g_k(t) - conj(g_l(t))), with g = 0 for a level without a bath."""
    import numpy
    import quantarhei as qr
    from quantarhei.core.units import kB_int as kB_intK
    r = cm.rng(PID + "mol")
    confs = [{"energies": [0.0, 10000.0, 10300.0], "baths": {"2": [30.0, 60.0]}},
             {"energies": [0.0, 10000.0, 10300.0], "baths": {"1": [40.0, 50.0], "2": [30.0, 60.0]}}]
    for k in range(1 if tier == "quick" else 6):
        nl = r.choice([3, 4])
        en = [0.0] + [10000.0 + 150.0 * i + r.choice([0.0, 40.0]) for i in range(nl - 1)]
        lv = [i for i in range(1, nl) if r.random() < 0.6] or [nl - 1]
        confs.append({"energies": en, "baths": {str(i): [float(r.choice([20, 30, 50])), float(r.choice([40, 60, 80]))] for i in lv}})
    T = 300.0
    for conf in confs:
        c = {"kind": "molecule_dephasing_limit"}
        c.update(conf)
        try:
            ta = qr.TimeAxis(0.0, 200, 1.0)
            t = ta.data
            nl = len(conf["energies"])
            with qr.energy_units("1/cm"):
                mol = qr.Molecule(list(conf["energies"]))
                for lev, (reorg, cortime) in sorted(conf["baths"].items()):
                    cf = qr.CorrelationFunction(ta, dict(ftype="OverdampedBrownian-HighTemperature", reorg=reorg, cortime=cortime, T=T))
                    mol.set_transition_environment((0, int(lev)), cf)
            g = [numpy.zeros(len(t), dtype=complex) for _ in range(nl)]
            for lev, (reorg, cortime) in conf["baths"].items():
                lam, gam, kBT = qr.convert(reorg, "1/cm", "int"), 1.0 / cortime, kB_intK * T
                g[int(lev)] = (lam * (2.0 * kBT - 1j * gam) / gam ** 2) * (numpy.exp(-gam * t) + gam * t - 1.0)
            psi = numpy.array([1.0] + [0.7 + 0.2j * i for i in range(1, nl)])
            psi = psi / numpy.linalg.norm(psi)
            rho0 = numpy.outer(psi, psi.conj())
            errs = {}
            for depth in (1, 3, 6):
                with contextlib.redirect_stdout(io.StringIO()):
                    kprop = mol.get_KTHierarchyPropagator(depth=depth)
                ham = kprop.hy.ham
                w = [ham.data[i, i].real - ham.rwa_energies[i] for i in range(nl)]
                # the hypotheses of c16_uncoupled_populations_constant / c16_uncoupled_sites_decouple_elementwise on the real objects:
                # Hamiltonian and system parts of the bath couplings are diagonal
                offd = max([float(numpy.max(numpy.abs(ham.data - numpy.diag(numpy.diag(ham.data)))))] +
                           [float(numpy.max(numpy.abs(V - numpy.diag(numpy.diag(V))))) for V in kprop.hy.Vs])
                chk.count("uncoupled_hypothesis:%s" % ("diagonal" if offd == 0.0 else "not_diagonal"))
                if offd != 0.0:
                    chk.violation("dephasing:molecule_not_diagonal", "Hamiltonian / system operators of a molecule's hierarchy are not diagonal "
                                  "(largest off-diagonal element %.3g): the uncoupled-site theorems do not apply" % offd, "monitor", c)
                rhoi = qr.ReducedDensityMatrix(data=rho0.copy())
                dat = kprop.propagate(rhoi).data
                worst, where = 0.0, None
                for a in range(nl):
                    for b in range(nl):
                        # populations do not dephase (the fluctuation of a level cancels against itself)
                        ex = rho0[a, b] * (numpy.exp(-1j * (w[a] - w[b]) * t - g[a] - numpy.conj(g[b])) if a != b else numpy.ones(len(t)))
                        e = float(numpy.max(numpy.abs(dat[:, a, b] - ex)))
                        if e > worst:
                            worst, where = e, (a, b)
                errs[depth] = (worst, where)
                free = [(a, b) for a in range(nl) for b in range(nl) if str(a) not in conf["baths"] and str(b) not in conf["baths"]]
                for (a, b) in free:
                    e = float(numpy.max(numpy.abs(dat[:, a, b] - rho0[a, b] * numpy.exp(-1j * (w[a] - w[b]) * t))))
                    if e > 1e-5:
                        chk.violation("dephasing:molecule_free_transition", "Molecule.get_KTHierarchyPropagator(depth=%d): element (%d,%d) "
                                      "between levels without a bath differs from the closed-system one by %.3g" % (depth, a, b, e), "monitor", c)
                        break
            chk.case(("molecule_dephasing_limit", json.dumps(conf, sort_keys=True)), True)
            chk.count("molecule_dephasing:%d_levels_%d_baths" % (nl, len(conf["baths"])))
            if not (errs[6][0] < errs[3][0] < errs[1][0]) or errs[6][0] > max(1e-3, 0.05 * errs[1][0]):
                chk.violation("dephasing:molecule_no_convergence", "HEOM of a %d-level molecule with baths on levels %s does not converge with "
                              "depth to exp(-i w t - g(t)): worst element error per depth %r" % (nl, sorted(conf["baths"]), errs), "monitor", c)
        except Exception as e:
            chk.violation("dephasing:molecule_exception", "molecule dephasing-limit monitor raised %r" % (e,), "monitor", c)


def run(chk, cases):
    tab_items, tab_meta, rhs_items, rhs_meta = [], [], [], []
    for c in cases:
        try:
            if c["kind"] in ("full", "bare"):
                hy = make_hierarchy(c)
                if hy.nbath != c["N"]:
                    raise AssertionError("number of baths %d != number of molecules %d" % (hy.nbath, c["N"]))
                msg = monitor_tables(hy)
                if msg:
                    chk.violation("tables:" + msg.split(" ")[0] + "_" + msg.split(" ")[1], "KTHierarchy(nbath=%d, depth=%d): %s" % (c["N"], c["depth"], msg), "monitor", c)
                chk.count("tables:%s" % c["kind"])
                tab_items.append("(%d%%nat, %d%%nat, %s, %s, %s, %s, %s)" % (
                    c["N"], c["depth"], cm.clist([cm.clist(["%d%%nat" % x for x in row]) for row in hy.hinds]),
                    cm.clist([cm.clist([cm.zlit(x) for x in row]) for row in hy.nm1]),
                    cm.clist([cm.clist([cm.zlit(x) for x in row]) for row in hy.np1]),
                    cm.clist(["%d%%nat" % x for x in hy.levels]), cm.clist(["%d%%nat" % x for x in hy.levlengths])))
                tab_meta.append(c)
                chk.case((c["kind"], c["N"], c["depth"], c.get("via", "class"), c.get("positional", True)), c["N"] >= 2 and c["depth"] >= 2,
                         sample={"case": c, "hsize": int(hy.hsize), "first_rows": [list(map(int, x)) for x in hy.hinds[:6]]})
            elif c["kind"] == "rhs":
                hy, ado, out = run_rhs(c)
                rhs_items.append(coq_rhs_item(c, hy, ado, out))
                rhs_meta.append(c)
                chk.count("rhs:N=%d,depth=%d" % (c["N"], c["depth"]))
                chk.case(("rhs", json.dumps(c)), c["N"] >= 2 and c["depth"] >= 2)
        except Exception as e:
            chk.violation("%s:exception" % c["kind"], "case %s raised %r" % (json.dumps(c)[:300], e), "monitor", c)
            chk.case((json.dumps(c),), False)
    shards, index = [], []
    TAB = ("Definition tab_agrees (c : nat * nat * list (list nat) * list (list Z) * list (list Z) * list nat * list nat) : bool :=\n"
           "  let '(N, depth, hi, m1, p1, offs, lens) := c in\n"
           "  all2 (all2 Nat.eqb) (hinds N depth) hi && all2 (all2 Z.eqb) (nm1_table N depth) m1 &&\n"
           "  all2 (all2 Z.eqb) (np1_table N depth) p1 && all2 Nat.eqb (level_offsets N depth) offs && all2 Nat.eqb (levlengths N depth) lens.\n")
    CH = 8
    for k in range(0, len(tab_items), CH):
        shards.append(cm.HEADER + "From QV Require Import Base.Alg Base.Util Model.C16.\n" + TAB +
                      "Definition cs := %s.\nEval vm_compute in (bad tab_agrees cs).\n" % cm.clist(tab_items[k:k + CH]))
        index.append(("tab", k))
    RHS = ("Definition gzmat := list (list GZ).\n"
           "Definition rhs_agrees (c : nat * nat * nat * gzmat * list gzmat * list GZ * list GZ * GZ * GZ * list gzmat * nat * list gzmat) : bool :=\n"
           "  let '(N, depth, dim, hh, vs, lam, gam, kbt, dt, ado, slevel, out) := c in\n"
           "  let H := hinds N depth in\n"
           "  let adof := fun n => mat_of (R:=GZ) (nth n ado []) in\n"
           "  let r := rhs (R:=GZ) dim N H (mat_of (R:=GZ) hh) (fun k => mat_of (R:=GZ) (nth k vs [])) (0,1)\n"
           "             (fun k => nth k lam (0,0)) (fun k => nth k gam (0,0)) kbt (2,0) dt adof in\n"
           "  forallb (fun n => forallb (fun a => forallb (fun b =>\n"
           "     gz_eqb (if Nat.ltb n slevel then (0,0) else r n a b) (mat_of (R:=GZ) (nth n out []) a b)) (seq 0 dim)) (seq 0 dim)) (seq 0 (length H)).\n")
    CR = 10
    for k in range(0, len(rhs_items), CR):
        shards.append(cm.HEADER + "From QV Require Import Base.Alg Base.Sums Base.Mat Base.Util Model.C16.\n" + RHS +
                      "Definition cs := %s.\nEval vm_compute in (bad rhs_agrees cs).\n" % cm.clist(rhs_items[k:k + CR]))
        index.append(("rhs", k))
    for (kind, k), (rc, out) in zip(index, cm.coq_eval(PID, shards)):
        if rc != 0:
            chk.violation("correspondence:coq_error", "coqc failed on %s cases: %s" % (kind, out[-800:]), "correspondence", {}, found_input=False)
            continue
        badl = cm.parse_natlist(cm.parse_evals(out)[0])
        meta = tab_meta if kind == "tab" else rhs_meta
        chk.corr["cases"] += min(CH if kind == "tab" else CR, len(meta) - k)
        chk.corr["disagreements"] += len(badl)
        for i in badl[:3]:
            chk.violation("correspondence:" + kind, "implementation differs from Model.C16 on %s" % json.dumps(meta[k + i])[:600],
                          "correspondence", meta[k + i], found_input=False)


def main():
    chk = cm.Check(PID, args.tier)
    chk.rule = ("index tables of real KTHierarchy objects for all (baths, depth) of a grid (through __init__ and through the open system's get_KTHierarchy / get_KTHierarchyPropagator, depth positional and by keyword, for <= 4 molecules, bare "
                "for more baths); random Gaussian-integer right-hand-side cases (1-3 baths, depth 1-3, dim 2-3, slevel 0/1); real "
                "propagations for the monitors; non-trivial: >= 2 baths and depth >= 2")
    chk.assumptions = ["bare hierarchies replicate the index part of KTHierarchy.__init__ (generate_indices, _convert_2_matrix, _make_nmp1, _make_Gamma)",
                       "convergence with depth to the analytic dephasing solution and the closed-system limit are validated numerically, not proved",
                       "static tie: generate_indices/_make_nmp1/_make_Gamma/_convert_2_matrix are matched statement by statement against "
                       "templates (harness/translate2.py); the translator is trusted to read the ast faithfully"]
    chk.prove()
    import translate
    translate.static_tie(cm, chk, PID, cm.REPO)      # second, static tie: model regenerated from the current source
    if args.replay:
        rep = json.load(open(args.replay))
        cases = [rep["input"]] if isinstance(rep.get("input"), dict) and rep["input"].get("kind") in ("full", "bare", "rhs") else []
        run(chk, cases)
    else:
        r = cm.rng(PID)
        cases = []
        full = [(1, 0), (1, 3), (2, 0), (2, 1), (2, 4), (3, 2), (3, 3), (4, 2)] if args.tier == "quick" else \
            [(n, d) for n in range(1, 5) for d in range(0, 5)]
        # (2, 11), (2, 13), (3, 10): hierarchy entries with two decimal digits
        bare = [(1, 5), (2, 5), (3, 4), (4, 3), (5, 2), (5, 3), (6, 2), (2, 11), (2, 13), (3, 10)] if args.tier == "quick" else \
            [(n, d) for n in range(1, 7) for d in range(0, 6) if not (n >= 5 and d >= 5)] + [(1, 12), (2, 11), (2, 13), (2, 21), (3, 10), (3, 12)]
        cases += [{"kind": "full", "N": n, "depth": d} for (n, d) in full]
        # the same tables through the public entry points of the open system (get_KTHierarchy / get_KTHierarchyPropagator)
        entry = [(2, 0), (2, 1), (2, 3), (3, 1), (3, 3)] if args.tier == "quick" else [(n, d) for n in range(1, 4) for d in range(0, 5)]
        for k, (n, d) in enumerate(entry):
            cases.append({"kind": "full", "N": n, "depth": d, "via": "system", "positional": k % 2 == 0})
            cases.append({"kind": "full", "N": n, "depth": d, "via": "propagator", "positional": k % 2 == 1})
        cases += [{"kind": "bare", "N": n, "depth": d} for (n, d) in bare]
        cases += [rhs_case(r, k) for k in range(40 if args.tier == "quick" else 400)]
        run(chk, cases)
        propagate_monitors(chk, args.tier)
        molecule_dephasing_monitor(chk, args.tier)
    chk.finish()


main()
