# -*- coding: utf-8 -*-
"""C07 - operator form, tensor form and exact limits of a relaxation tensor agree.

Proof: coq/theories/Props/C07.v.  Tie: (1) apply() of real RedfieldRelaxationTensor/LindbladForm objects holding
integer operators, in operator form and after convert_2_tensor(), compared with = inside Coq with the model's
apply_ops and tapply(convert_ops); (2) propagation with as_operators True/False on the same integer system compared
(1e-10) with the exact-rational propagator model of C02 for both forms; (3) the time-dependent tensor index walk
with and without cut-off through the C02 model.
Monitors (float, random aggregates): both forms act identically on random operators and give the same propagated
states, outside and inside basis contexts; TD Redfield tensor is zero at the first time index and equals the
time-independent tensor at the last one (also with a cut-off time); spline antiderivatives vanish at the lower
limit (oracle contract); for uncoupled sites TD-Redfield propagation reproduces exp(-i w t - g(t)) (validated,
time-step error).
"""
import os
import sys
import json
import types
import io
import contextlib
from fractions import Fraction

sys.path.insert(0, os.path.dirname(os.path.abspath(__file__)))
import common as cm

PID = "C07"
work = cm.reexec_isolated(PID)
args = cm.parse_args(sys.argv[1:])

import numpy as np


def reset_manager():
    import quantarhei as qr
    m = qr.Manager()
    m.basis_stack = [0]
    m.basis_transformations = [1]
    m.basis_registered = {}
    m._in_eigenbasis_of_context = False
    m.current_basis_operator = None


def l2(a):
    return cm.clist([cm.clist([cm.gz(x) for x in row]) for row in np.asarray(a)])


def l3(a):
    return cm.clist([l2(x) for x in np.asarray(a)])


def q2(a):
    return cm.clist([cm.clist([cm.gq(x) for x in row]) for row in np.asarray(a)])


def q3(a):
    return cm.clist([q2(x) for x in np.asarray(a)])


def q4(a):
    a = np.asarray(a)
    return cm.clist([cm.clist([q2(a[i, j]) for j in range(a.shape[1])]) for i in range(a.shape[0])])


def rint(r, lo=-2, hi=2):
    return r.randint(lo, hi)


def gen_case(r, k):
    return {"kind": ["apply", "apply", "dynamics"][k % 3], "n": r.choice([2, 3, 3, 4]) if k % 3 != 2 else r.choice([2, 3]),
            "nb": r.choice([1, 2, 3]), "seed": r.randrange(2 ** 30), "L": r.choice([2, 4, 6]), "nref": r.choice([1, 2]),
            "nsteps": r.choice([1, 2]), "cls": r.choice(["lindblad", "redfield"]), "proper": r.random() < 0.7}


def make_ops(c):
    import random
    r = random.Random(c["seed"])
    n, nb = c["n"], c["nb"]
    small = c["kind"] == "dynamics"
    K = np.array([[[float(rint(r, -1, 1) if small else rint(r)) for _ in range(n)] for _ in range(n)] for _ in range(nb)])
    Lm = np.array([[[complex(rint(r, -1, 1), rint(r, -1, 1)) if small else complex(rint(r), rint(r)) for _ in range(n)] for _ in range(n)] for _ in range(nb)])
    if c["proper"]:
        Ld = np.conj(np.transpose(Lm, (0, 2, 1)))
    else:
        Ld = np.array([[[complex(rint(r, -1, 1), rint(r, -1, 1)) for _ in range(n)] for _ in range(n)] for _ in range(nb)])
    H = np.array([[float(rint(r)) for _ in range(n)] for _ in range(n)])
    H = H + H.T
    rho = np.array([[complex(rint(r), rint(r)) for _ in range(n)] for _ in range(n)])
    return r, K, Lm, Ld, H, rho


def tensor_object(c, K, Lm, Ld, H):
    """a real tensor object in operator form holding the given operators"""
    import quantarhei as qr
    from quantarhei.qm import LindbladForm, SystemBathInteraction, Operator, RedfieldRelaxationTensor
    ham = qr.Hamiltonian(data=H.copy())
    nb = K.shape[0]
    if c["cls"] == "lindblad":
        sbi = SystemBathInteraction(sys_operators=[Operator(data=K[m].copy()) for m in range(nb)], rates=[2.0] * nb)
        RT = LindbladForm(ham, sbi, as_operators=True)
    else:
        sbi = types.SimpleNamespace(N=nb)
        RT = RedfieldRelaxationTensor.__new__(RedfieldRelaxationTensor)
        RT._initialize_basis()
        RT.Hamiltonian, RT.SystemBathInteraction, RT.dim, RT.name = ham, sbi, ham.dim, ""
        RT._data_initialized, RT._is_initialized, RT._has_cutoff_time, RT.as_operators = False, True, False, True
        RT.Iterm, RT.has_Iterm = None, False
    RT.Km, RT.Lm, RT.Ld = K.copy(), Lm.copy(), Ld.copy()
    return ham, RT


def run_case(chk, c, aitems, ameta, ditems, dmeta):
    import quantarhei as qr
    reset_manager()
    r, K, Lm, Ld, H, rho = make_ops(c)
    n, nb = c["n"], c["nb"]
    with contextlib.redirect_stdout(io.StringIO()):
        if c["kind"] == "apply":
            from quantarhei.qm import Operator
            ham, RT = tensor_object(c, K, Lm, Ld, H)
            # the class of the object acted upon: a plain operator or a density-matrix object holding the same (in general not
            # Hermitian) data, the way EvolutionSuperOperator fills a ReducedDensityMatrix with one unit element
            wrap = ["Operator", "ReducedDensityMatrix", "DensityMatrix"][c["seed"] % 3]

            def operand():
                if wrap == "Operator":
                    return Operator(data=rho.copy())
                o = (qr.ReducedDensityMatrix if wrap == "ReducedDensityMatrix" else qr.DensityMatrix)(dim=n)
                o.data[:, :] = rho
                return o
            chk.count("apply:operand:" + wrap)
            out_ops = np.array(RT.apply(operand()).data)
            RT.convert_2_tensor()
            if RT.as_operators:
                chk.violation("convert:flag", "convert_2_tensor leaves as_operators set", "monitor", c)
            out_tens = np.array(RT.apply(operand()).data)
            if not np.array_equal(out_ops, out_tens):
                chk.violation("apply:forms_differ", "%s: apply() in operator form and after convert_2_tensor() differ by %g on integer data (case %s)"
                              % (c["cls"], np.max(np.abs(out_ops - out_tens)), json.dumps(c)), "monitor", c)
            aitems.append("(mkCase07 %d%%nat %d%%nat %s %s %s %s %s %s)" % (n, nb, l3(K), l3(Lm), l3(Ld), l2(rho), l2(out_ops), l2(out_tens)))
            ameta.append(c)
        else:
            L, nref, nsteps = c["L"], c["nref"], c["nsteps"]
            dtref = Fraction(1, 16)
            ta = qr.TimeAxis(0.0, nsteps + 1, float(dtref * nref))
            A = rho
            rho0 = A.dot(A.conj().T)
            if np.trace(rho0) == 0:
                rho0[0, 0] = 1
            outs = {}
            for form in ("ops", "tensor"):
                ham, RT = tensor_object(c, K, Lm, Ld, H)
                if form == "tensor":
                    RT.convert_2_tensor()
                prop = qr.ReducedDensityMatrixPropagator(ta, ham, RTensor=RT)
                if nref > 1:
                    prop.setDtRefinement(nref)
                outs[form] = np.array(prop.propagate(qr.ReducedDensityMatrix(data=rho0.copy()), method={2: "short-exp-2", 4: "short-exp-4", 6: "short-exp-6"}[L]).data)
            sc = float(np.max(np.abs(outs["ops"])))
            if np.max(np.abs(outs["ops"] - outs["tensor"])) > 1e-10 * sc:
                chk.violation("dynamics:forms_differ", "propagation with as_operators=True and False differs by %g (case %s)"
                              % (np.max(np.abs(outs["ops"] - outs["tensor"])), json.dumps(c)), "monitor", c)
            from quantarhei.qm.liouvillespace.redfieldtensor import RedfieldRelaxationTensor
            RR = RedfieldRelaxationTensor._convert_operators_2_tensor(types.SimpleNamespace(
                Hamiltonian=types.SimpleNamespace(data=np.zeros((n, n))), SystemBathInteraction=types.SimpleNamespace(N=nb)), K, Lm, Ld)
            tol = cm.qlit(1e-10 * sc)
            common = "%s %d%%nat %d%%nat %d%%nat %d%%nat 1%%nat 1%%nat %s" % (cm.qlit(dtref), L, nref, nsteps, 0, q2(rho0))
            common = "%s %d%%nat %d%%nat %d%%nat 1%%nat 1%%nat %s" % (cm.qlit(dtref), L, nref, nsteps, q2(rho0))
            ditems.append("(mkCase02 POps %d%%nat %d%%nat %s [] %s %s %s [] %s %s %s)" % (
                n, nb, q2(H), q3(K), q3(Lm), q3(Ld), common, cm.clist([q2(m_) for m_ in outs["ops"]]), tol))
            dmeta.append(dict(c, form="ops"))
            ditems.append("(mkCase02 PTensor %d%%nat %d%%nat %s %s [] [] [] [] %s %s %s)" % (
                n, nb, q2(H), cm.clist([q4(RR)]), common, cm.clist([q2(m_) for m_ in outs["tensor"]]), tol))
            dmeta.append(dict(c, form="tensor"))
    chk.count("exact:%s:%s" % (c["kind"], c["cls"]))
    chk.case(("exact", json.dumps(c, sort_keys=True)), True, sample=c if len(chk.samples) < 3 else None)
    reset_manager()


# ------------------------------------------------------------------ float monitors on real aggregates
def build_aggregate(seed, N, couplings=True, nt=200, dt=2.0):
    import quantarhei as qr
    rs = np.random.RandomState(seed)
    ta = qr.TimeAxis(0.0, nt, dt)
    mols = []
    with qr.energy_units("1/cm"):
        for k in range(N):
            m = qr.Molecule([0.0, 12000.0 + 120 * rs.randn()])
            cf = qr.CorrelationFunction(ta, dict(ftype="OverdampedBrownian", reorg=20.0 + 25 * rs.rand(), cortime=50.0 + 60 * rs.rand(), T=300.0, matsubara=10))
            m.set_transition_environment((0, 1), cf)
            mols.append(m)
        agg = qr.Aggregate(mols)
        if couplings:
            for i in range(N):
                for j in range(i + 1, N):
                    agg.set_resonance_coupling(i, j, float(rs.choice([30.0, 100.0]) * rs.randn()))
    agg.build()
    return agg, ta, rs


def float_monitors(chk, tier):
    import quantarhei as qr
    import scipy.interpolate
    r = cm.rng(PID + "float")
    reps = 4 if tier == "quick" else 40
    for k in range(reps):
        reset_manager()
        c = {"kind": "float", "seed": r.randrange(2 ** 30), "N": r.choice([2, 3]), "cutoff": (k % 2 == 1), "k": k}
        try:
            with contextlib.redirect_stdout(io.StringIO()):
                agg, ta, rs = build_aggregate(c["seed"], c["N"])
                cut = 150.0 if c["cutoff"] else None
                # ---- time-independent Redfield: both forms
                RTo, ham = agg.get_RelaxationTensor(ta, relaxation_theory="stR", as_operators=True)
                RTt, ham = agg.get_RelaxationTensor(ta, relaxation_theory="stR")
                n = ham.dim
                X = rs.randn(n, n) + 1j * rs.randn(n, n)
                res = {}
                for name, RT in (("ops", RTo), ("tensor", RTt)):
                    res[name, "outside"] = np.array(RT.apply(qr.qm.Operator(data=X.copy())).data)
                    ham.protect_basis()
                    with qr.eigenbasis_of(ham):
                        inner = RT.apply(qr.qm.Operator(data=X.copy()))       # X taken as given in the eigenbasis
                        res[name, "inside_raw"] = np.array(inner.data)
                    ham.unprotect_basis()
                    op = qr.qm.Operator(data=X.copy())
                    A = rs.randn(n, n)
                    sa = qr.qm.hilbertspace.operators.SelfAdjointOperator(data=A + A.T)
                    with qr.eigenbasis_of(sa):
                        inner2 = RT.apply(op)
                    res[name, "random_basis"] = np.array(inner2.data)
                sc = float(np.max(np.abs(res["tensor", "outside"]))) + 1e-30
                for key in ("outside", "inside_raw", "random_basis"):
                    dev = float(np.max(np.abs(res["ops", key] - res["tensor", key])))
                    if dev > 1e-9 * sc:
                        chk.violation("float:apply_forms:" + key, "Redfield tensor: operator form and tensor form act differently on an operator (%s): %g (scale %g)"
                                      % (key, dev, sc), "monitor", c)
                dev = float(np.max(np.abs(res["tensor", "random_basis"] - res["tensor", "outside"])))
                if dev > 1e-9 * sc:
                    chk.violation("float:apply_basis", "tensor applied inside the eigenbasis of a random operator and read outside differs from applying outside: %g" % dev, "monitor", c)
                # re-use of the shared system objects: tensors built a second time from the same Hamiltonian and system-bath
                # interaction (after the first ones were used inside basis contexts) must be the same tensors
                RTt2, _ = agg.get_RelaxationTensor(ta, relaxation_theory="stR")
                RTo2, _ = agg.get_RelaxationTensor(ta, relaxation_theory="stR", as_operators=True)
                dev = float(np.max(np.abs(np.array(RTt2.data) - np.array(RTt.data))))
                if dev > 1e-13 * float(np.max(np.abs(np.array(RTt.data)))):
                    chk.violation("float:rebuild_tensor", "a Redfield tensor built a second time from the same system differs from the first by %g" % dev, "monitor", c)
                r2 = np.array(RTo2.apply(qr.qm.Operator(data=X.copy())).data)
                dev = float(np.max(np.abs(r2 - res["ops", "outside"])))
                if dev > 1e-12 * sc:
                    chk.violation("float:rebuild_ops", "an operator-form Redfield tensor built a second time from the same system acts differently (%g)" % dev, "monitor", c)
                # conversion as the very first access inside a basis context (the lazy basis change of the stored operators is still pending):
                # the converted tensor must act as the tensor-form one does, in the eigenbasis of the Hamiltonian and in a random basis
                for bname in ("ham", "random"):
                    RTo3, _ = agg.get_RelaxationTensor(ta, relaxation_theory="stR", as_operators=True)
                    op3 = qr.qm.Operator(data=X.copy())
                    if bname == "ham":
                        bop = ham
                        ham.protect_basis()
                    else:
                        A3 = rs.randn(n, n)
                        bop = qr.qm.hilbertspace.operators.SelfAdjointOperator(data=A3 + A3.T)
                    with qr.eigenbasis_of(bop):
                        RTo3.convert_2_tensor()
                        inner3 = RTo3.apply(op3)
                    if bname == "ham":
                        ham.unprotect_basis()
                    dev = float(np.max(np.abs(np.array(inner3.data) - res["tensor", "outside"])))
                    if RTo3.as_operators or dev > 1e-9 * sc:
                        chk.violation("float:convert_inside_context:" + bname, "an operator-form Redfield tensor converted by convert_2_tensor() as the first access "
                                      "inside a basis context (%s) acts differently from the tensor form: %g (scale %g)" % (bname, dev, sc), "monitor", c)
                # "in every basis": the eigenbasis of a Hermitian operator with complex coherences (a complex unitary basis change).
                # Run on a SEPARATE, identically built system: objects read inside such a context keep rounding-level imaginary
                # parts, and tensors rebuilt from them are different tensors (consequence of the same recorded finding).
                aggc, tac, rsc = build_aggregate(c["seed"], c["N"])
                RToc, hamc = aggc.get_RelaxationTensor(tac, relaxation_theory="stR", as_operators=True)
                RTtc, hamc = aggc.get_RelaxationTensor(tac, relaxation_theory="stR")
                want = np.array(RTtc.apply(qr.qm.Operator(data=X.copy())).data)
                B3 = rs.randn(n, n) + 1j * rs.randn(n, n)
                bopc = qr.ReducedDensityMatrix(data=B3 + B3.conj().T)
                opc = qr.qm.Operator(data=X.copy())
                with qr.eigenbasis_of(bopc):
                    RToc.convert_2_tensor()
                    innerc = RToc.apply(opc)
                dev = float(np.max(np.abs(np.array(innerc.data) - want)))
                if dev > 1e-9 * sc:
                    chk.violation("float:convert_inside_context:complex", "an operator-form Redfield tensor converted by convert_2_tensor() inside the "
                                  "eigenbasis of a complex Hermitian operator acts differently from the tensor form: %g (scale %g)" % (dev, sc), "monitor", c)
                del aggc, RToc, RTtc, hamc
                reset_manager()
                # propagated dynamics, both forms
                rho0 = np.zeros((n, n), dtype=complex)
                rho0[n - 1, n - 1] = 1.0
                outs = {}
                for name, RT in (("ops", RTo), ("tensor", RTt)):
                    prop = qr.ReducedDensityMatrixPropagator(ta, ham, RTensor=RT)
                    ham.protect_basis()
                    with qr.eigenbasis_of(ham):
                        outs[name] = np.array(prop.propagate(qr.ReducedDensityMatrix(data=rho0.copy())).data)
                    ham.unprotect_basis()
                dev = float(np.max(np.abs(outs["ops"] - outs["tensor"])))
                if dev > 1e-9:
                    chk.violation("float:dynamics_forms", "Redfield propagation differs between operator and tensor form by %g" % dev, "monitor", c)
                # ---- time-dependent Redfield: exact limits
                TD, _ = agg.get_RelaxationTensor(ta, relaxation_theory="stR", time_dependent=True, relaxation_cutoff_time=cut)
                d = np.array(TD.data)
                if np.max(np.abs(d[0])) != 0.0:
                    chk.violation("float:td_zero", "time-dependent Redfield tensor at the first time index is not zero: max |R(0)| = %g" % np.max(np.abs(d[0])), "monitor", c)
                if cut is None:
                    TI = np.array(RTt.data)
                else:
                    from quantarhei.qm import RedfieldRelaxationTensor
                    hh, sb = agg.get_Hamiltonian(), agg.get_SystemBathInteraction()
                    hh.protect_basis()
                    with qr.eigenbasis_of(hh):
                        TIo = RedfieldRelaxationTensor(hh, sb, cutoff_time=cut)
                    hh.unprotect_basis()
                    TI = np.array(TIo.data)
                dev = float(np.max(np.abs(d[-1] - TI)))
                if dev > 1e-12 * float(np.max(np.abs(TI))):
                    chk.violation("float:td_last", "time-dependent Redfield tensor at its last index differs from the time-independent tensor (cut-off %s) by %g (scale %g)"
                                  % (cut, dev, np.max(np.abs(TI))), "monitor", c)
                # TD propagation, both forms, with and without the cut-off (time-local propagation on the bath time axis)
                TDo, _ = agg.get_RelaxationTensor(ta, relaxation_theory="stR", time_dependent=True, relaxation_cutoff_time=cut, as_operators=True)
                outs = {}
                for name, RT in (("ops", TDo), ("tensor", TD)):
                    prop = qr.ReducedDensityMatrixPropagator(ta, ham, RTensor=RT)
                    ham.protect_basis()
                    with qr.eigenbasis_of(ham):
                        outs[name] = np.array(prop.propagate(qr.ReducedDensityMatrix(data=rho0.copy())).data)
                    ham.unprotect_basis()
                dev = float(np.max(np.abs(outs["ops"] - outs["tensor"])))
                if dev > 1e-9:
                    chk.violation("float:td_dynamics_forms", "time-dependent Redfield propagation (cut-off %s) differs between operator and tensor form by %g" % (cut, dev), "monitor", c)
                # the same on propagation axes coarser than the bath axis (step = mult bath steps) with and without refinement: both forms must
                # sample the stored tensor / operator families at the same bath indices; refined down to the bath step (Nref = mult) the
                # run must reproduce the run on the bath axis itself at the common points
                rho0c = rho0.copy()
                rho0c[n - 1, n - 1], rho0c[n - 2, n - 2] = 0.7, 0.3
                rho0c[n - 1, n - 2] = rho0c[n - 2, n - 1] = 0.2
                fine = {}
                for name, RT in (("ops", TDo), ("tensor", TD)):
                    prop = qr.ReducedDensityMatrixPropagator(ta, ham, RTensor=RT)
                    ham.protect_basis()
                    with qr.eigenbasis_of(ham):
                        fine[name] = np.array(prop.propagate(qr.ReducedDensityMatrix(data=rho0c.copy())).data)
                    ham.unprotect_basis()
                for mult, nref in ((2, 1), (2, 2), (3, 1), (4, 2)):
                    tp = qr.TimeAxis(0.0, max(2, (ta.length - 1) // mult), mult * ta.step)
                    outs = {}
                    for name, RT in (("ops", TDo), ("tensor", TD)):
                        prop = qr.ReducedDensityMatrixPropagator(tp, ham, RTensor=RT)
                        if nref > 1:
                            prop.setDtRefinement(nref)
                        ham.protect_basis()
                        with qr.eigenbasis_of(ham):
                            outs[name] = np.array(prop.propagate(qr.ReducedDensityMatrix(data=rho0c.copy())).data)
                        ham.unprotect_basis()
                    cc = dict(c, kind="td_coarse", mult=mult, nref=nref, cut=cut)
                    dev = float(np.max(np.abs(outs["ops"] - outs["tensor"])))
                    if dev > 1e-9:
                        chk.violation("float:td_dynamics_forms:coarse_axis", "time-dependent Redfield propagation on an axis of %d bath steps per step with Nref=%d "
                                      "(cut-off %s) differs between operator and tensor form by %g (the two forms walk through the stored values differently)"
                                      % (mult, nref, cut, dev), "monitor", cc)
                    elif nref == mult and cut is not None:
                        # with a cut-off time both nests take the clamp index on the PROPAGATION axis (self.TimeAxis.nearest(cutoff_time)) and clamp
                        # a bath-step index with it: on a coarser axis the tensor is frozen at cutoff/mult.  The two forms agree with each other;
                        # neither C02 nor C07 speaks about refinement-consistency under a cut-off: noticed, not judged (lead's decision)
                        chk.count("not_judged:cutoff_clamp_axis")
                    elif nref == mult:
                        for name in ("ops", "tensor"):
                            dev = float(np.max(np.abs(outs[name] - fine[name][::mult][:outs[name].shape[0]])))
                            if dev > 1e-9:
                                chk.violation("float:td_refined_to_bath_step:" + name, "time-dependent Redfield propagation (%s form) on an axis of %d bath steps per step "
                                              "refined by Nref=%d differs from the propagation on the bath axis at the common points by %g" % (name, mult, nref, dev),
                                              "monitor", cc)
                    chk.count("float:td coarse axis mult=%d Nref=%d" % (mult, nref))
                # oracle contract: an antiderivative vanishes at its lower limit
                y = rs.randn(ta.length)
                a0 = scipy.interpolate.UnivariateSpline(ta.data, y, s=0).antiderivative()(ta.data)[0]
                if a0 != 0.0:
                    chk.violation("oracle:antiderivative", "UnivariateSpline.antiderivative()(t0) = %g != 0" % a0, "monitor", c)
            chk.count("float:%s" % ("cut-off" if c["cutoff"] else "no cut-off"))
            chk.case(("float", k), True)
        except Exception as e:
            import traceback
            chk.violation("float:exception", "float monitor %s raised %r %s" % (json.dumps(c), e, traceback.format_exc()[-600:]), "monitor", c)
    # ---- uncoupled sites: analytic pure-dephasing solution (validated only)
    for k in range(2 if tier == "quick" else 10):
        reset_manager()
        c = {"kind": "dephasing_limit", "seed": r.randrange(2 ** 30), "k": k}
        try:
            with contextlib.redirect_stdout(io.StringIO()):
                from quantarhei.qm.corfunctions.correlationfunctions import c2g
                agg, ta, rs = build_aggregate(c["seed"], 2, couplings=False, nt=300, dt=1.0)
                TD, ham = agg.get_RelaxationTensor(ta, relaxation_theory="stR", time_dependent=True)
                n = ham.dim
                rho0 = np.ones((n, n), dtype=complex) / n
                prop = qr.ReducedDensityMatrixPropagator(ta, ham, RTensor=TD)
                out = np.array(prop.propagate(qr.ReducedDensityMatrix(data=rho0.copy())).data)
                sbi = agg.get_SystemBathInteraction()
                worst = 0.0
                for site in range(1, n):
                    g = c2g(ta, sbi.CC.get_coft(site - 1, site - 1))
                    ana = np.abs(rho0[0, site]) * np.exp(-np.real(g))
                    worst = max(worst, float(np.max(np.abs(np.abs(out[:, 0, site]) - ana))))
                # hypotheses and first conclusion of c07_uncoupled_populations_constant / ..._propagate_elementwise on the real objects:
                # Hamiltonian and the operators of the operator form are diagonal in the site basis; populations do not move
                TDo, _ho = agg.get_RelaxationTensor(ta, relaxation_theory="stR", time_dependent=True, as_operators=True)

                def offd(A):
                    A = np.asarray(A)
                    return float(np.max(np.abs(A - A * np.eye(A.shape[-1])))) if A.size else 0.0
                worst_offd = max(offd(ham.data), offd(TDo.Km), offd(TDo.Lm), offd(TDo.Ld))
                pop_dev = float(np.max(np.abs(np.array([np.diag(x) for x in out]) - np.diag(rho0)[None, :])))
            chk.count("uncoupled_hypothesis:%s" % ("diagonal" if worst_offd == 0.0 else "not_diagonal"))
            if worst_offd != 0.0:
                chk.violation("float:dephasing_not_diagonal", "uncoupled sites: Hamiltonian / K_m / Lambda_m of the site-basis operator form are not "
                              "diagonal (largest off-diagonal element %.3g): the uncoupled-site theorems do not apply" % worst_offd, "monitor", c)
            if pop_dev > 1e-10:
                chk.violation("float:dephasing_populations", "uncoupled sites: populations move by %.3g under pure dephasing" % pop_dev, "monitor", c)
            if worst > 5e-3:
                chk.violation("float:dephasing_limit", "uncoupled sites: |rho_0k(t)| deviates from exp(-Re g(t)) by %g (> 5e-3, time step 1 fs)" % worst, "monitor", c)
            chk.extra.setdefault("dephasing_limit_max_deviation", []).append(worst)
            chk.count("float:dephasing_limit")
            chk.case(("dephasing", k), True)
            # the same on a propagation axis coarser than the bath axis by a factor whose float ratio is not exact
            # (0.6/0.2 = 2.9999999999999996): time-local propagation must sample the tensor at the right bath times
            for (sysstep, m_) in ([(0.2, 3), (0.1, 3)] if k % 2 == 0 else [(0.1, 6), (0.3, 2)]):
                with contextlib.redirect_stdout(io.StringIO()):
                    agg, tb, rs = build_aggregate(c["seed"] + 7, 2, couplings=False, nt=int(round(240 / sysstep)) + 1, dt=sysstep)
                    TD, ham = agg.get_RelaxationTensor(tb, relaxation_theory="stR", time_dependent=True)
                    n = ham.dim
                    rho0 = np.ones((n, n), dtype=complex) / n
                    tp = qr.TimeAxis(0.0, int(200 / (m_ * sysstep)), round(m_ * sysstep, 10))
                    sbi = agg.get_SystemBathInteraction()
                    gs = [c2g(tb, sbi.CC.get_coft(site - 1, site - 1)) for site in range(1, n)]
                    for nref in sorted(set([1, m_])):
                        prop = qr.ReducedDensityMatrixPropagator(tp, ham, RTensor=TD)
                        try:
                            out = np.array(prop.propagate(qr.ReducedDensityMatrix(data=rho0.copy()), Nref=nref).data)
                        except Exception as e:
                            chk.violation("float:td_refinement_refused", "time-local propagation on a %g fs axis with a tensor on a %g fs bath axis, Nref=%d, was refused: %r"
                                          % (m_ * sysstep, sysstep, nref, e), "monitor", dict(c, sysstep=sysstep, m=m_, nref=nref))
                            continue
                        worst = 0.0
                        for site in range(1, n):
                            ana = np.abs(rho0[0, site]) * np.exp(-np.real(gs[site - 1][::m_][:tp.length]))
                            worst = max(worst, float(np.max(np.abs(np.abs(out[:, 0, site]) - ana))))
                        if worst > 5e-3:
                            chk.violation("float:dephasing_limit_coarse", "uncoupled sites, bath step %g fs, propagation step %g fs, Nref=%d: |rho_0k(t)| deviates from "
                                          "exp(-Re g(t)) by %g (> 5e-3)" % (sysstep, m_ * sysstep, nref, worst), "monitor", dict(c, sysstep=sysstep, m=m_, nref=nref))
                        chk.extra.setdefault("dephasing_limit_coarse_max_deviation", []).append(worst)
                        chk.count("float:dephasing_limit_coarse")
                        chk.case(("dephasing_coarse", k, sysstep, m_, nref), True)
        except Exception as e:
            import traceback
            chk.violation("float:exception:dephasing", "dephasing-limit monitor raised %r %s" % (e, traceback.format_exc()[-600:]), "monitor", c)
    reset_manager()


IMPORTS = "From QV Require Import Base.Alg Base.Sums Base.Mat Base.Tens Base.Util Model.C01 Model.C02 Model.C07.\n"


def main():
    chk = cm.Check(PID, args.tier)
    chk.rule = ("integer operator families (n<=4, Nb<=3, Ld = L^dagger or arbitrary) held by real LindbladForm / RedfieldRelaxationTensor objects: apply() in both "
                "forms, convert_2_tensor; propagation in both forms (orders 2/4/6, Nref 1-2) against the exact-rational model; random aggregates (2-3 sites): both forms "
                "inside/outside basis contexts, TD limits with and without cut-off, analytic dephasing limit. Non-trivial: all")
    chk.assumptions = ["scipy UnivariateSpline.antiderivative vanishes at the first knot (monitored): the oracle fact behind 'R(t0) = 0'",
                       "the analytic pure-dephasing limit is validated with tolerance 5e-3 at a 1 fs step (time-step error; not proved)",
                       "the time-dependent class keeps Km/Lm/Ld as plain attributes (transformed with the object on context exit only): operator-form TD tensors are "
                       "compared in the basis the code uses them in"]
    chk.prove()
    import translate
    translate.static_tie(cm, chk, PID, cm.REPO)      # second, static tie: propagator kernels regenerated from the current source
    aitems, ameta, ditems, dmeta = [], [], [], []
    if args.replay:
        rep = json.load(open(args.replay))
        c = rep.get("input")
        cases = [c] if isinstance(c, dict) and c.get("kind") in ("apply", "dynamics") else []
    else:
        r = cm.rng(PID)
        cases = [gen_case(r, k) for k in range(60 if args.tier == "quick" else 600)]
    for c in cases:
        try:
            run_case(chk, c, aitems, ameta, ditems, dmeta)
        except Exception as e:
            import traceback
            chk.violation("harness:exception:" + c["kind"], "case %s raised %r\n%s" % (json.dumps(c), e, traceback.format_exc()[-700:]), "monitor", c)
            chk.case(("exc", json.dumps(c, sort_keys=True)), False)
            reset_manager()
    if not args.replay:
        float_monitors(chk, args.tier)
    shards, index = [], []
    for k in range(0, len(aitems), 20):
        shards.append(cm.HEADER + IMPORTS + "Definition cs : list case07 := %s.\nEval vm_compute in (bad agrees07 cs).\n" % cm.clist(aitems[k:k + 20]))
        index.append(("apply", k, 20))
    for k in range(0, len(ditems), 1):
        shards.append(cm.HEADER + IMPORTS + "Definition cs : list case02 := %s.\nEval vm_compute in (bad agrees02 cs).\n" % cm.clist(ditems[k:k + 1]))
        index.append(("dyn", k, 1))
    for (t, k, ch), (rc, out) in zip(index, cm.coq_eval(PID, shards, timeout=1500)):
        meta = ameta if t == "apply" else dmeta
        if rc != 0:
            chk.violation("correspondence:coq_error", "coqc failed on %s case %s: %s" % (t, json.dumps(meta[k])[:300], out[-500:]), "correspondence", meta[k], found_input=False)
            continue
        badl = cm.parse_natlist(cm.parse_evals(out)[0])
        chk.corr["cases"] += min(ch, len(meta) - k)
        chk.corr["disagreements"] += len(badl)
        for i in badl[:2]:
            chk.violation("correspondence:" + t, "implementation differs from the model on case %s" % json.dumps(meta[k + i]), "correspondence", meta[k + i], found_input=False)
    chk.finish()


main()
