#!/usr/bin/env python3
"""Prints the markdown table of seeded changes (DESIGN.md section 15) from seeded/*/meta.json."""
import json, glob, os, re
rows = []
for d in sorted(glob.glob(os.path.join(os.path.dirname(os.path.dirname(os.path.abspath(__file__))), "seeded", "*", "meta.json"))):
    m = json.load(open(d))
    summ = re.sub(r"\s+", " ", m.get("summary", "")).strip()
    summ = summ[:150] + ("..." if len(summ) > 150 else "")
    res = re.sub(r"\s+", " ", m.get("check_result", "")).strip()
    first = "missed, then strengthened" if res.lower().startswith("initially missed") else ("tie broke (no input), then strengthened" if res.lower().startswith("initially caught only") else "caught")
    now = res
    mm = re.search(r"Now caught[^:]*:?\s*(.*)", res)
    if mm:
        now = mm.group(1)
    now = now[:170] + ("..." if len(now) > 170 else "")
    rows.append("| %s | %s | %s | %s |" % (m["seed_id"], summ.replace("|", "/"), first, now.replace("|", "/")))
print("| seed | change | first verdict | caught by |\n|---|---|---|---|")
print("\n".join(rows))
missed = sum(1 for r in rows if "missed" in r.split("|")[3] or "tie broke" in r.split("|")[3])
print("\n%d seeded changes; %d caught at once, %d first missed (or caught without a concrete input) and caught after strengthening." % (len(rows), len(rows) - missed, missed))
