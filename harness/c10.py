# -*- coding: utf-8 -*-
"""C10 - vibronic structure follows the displaced-oscillator model.

Proof: coq/theories/Props/C10.v (state-space bookkeeping and product structure, for every ring, every
number of molecules, modes and levels; the Franck-Condon table is a Section variable).
Tie (compared inside Coq with Model.C10 / Model.C03): real Aggregate.build runs of 1-3 two-level molecules
with 0-2 harmonic modes each (integer frequencies and energies in internal units, dyadic Huang-Rhys
factors, 1-3 levels per mode and electronic state, mult 1/2): the state list (electronic index and
vibrational signature of every state), Ntot, Nb and the diagonal of H exactly; every off-diagonal element
of H, every element of DD and of FCf against the model over Q fed with the real parts of the
implementation's own FC tables (oracle data), 1e-12 relative to the largest element.
Validated only (monitors, oracle = numpy.linalg.eig/inv + exp in operator_factory.shift_operator):
the FC tables against the closed-form displaced-oscillator overlaps (Laguerre formula), the Poisson law
|<n|D|0>|^2 = e^-S S^n/n! with S the Huang-Rhys factor set through Mode.set_HR, orthogonality of the
100-level shift operator and of its 20 x 20 block up to truncation, identity at zero shift,
FC(-d) = FC(d)^T.  Further monitors: the factorisation evaluated independently on the outputs, the number
of states per electronic state, Molecule.get_Hamiltonian dimension.
"""
import os
import sys
import json
import math
import itertools
from fractions import Fraction

sys.path.insert(0, os.path.dirname(os.path.abspath(__file__)))
import common as cm

PID = "C10"
work = cm.reexec_isolated(PID)
args = cm.parse_args(sys.argv[1:])


# ------------------------------------------------------------------ real objects
def make_molecule(mc):
    import quantarhei as qr
    m = qr.Molecule([0.0, float(mc["E"])])
    m.set_dipole((0, 1), [float(x) for x in mc["dip"]])
    for i, md in enumerate(mc["modes"]):
        mode = qr.Mode(float(md["omega"]))
        # order of the independent setters: every second mode declares its ground-state level count BEFORE it is attached
        early = (i + int(mc["E"])) % 2 == 1
        if early:
            mode.set_nmax(0, md["nmax"][0])
        m.add_Mode(mode)
        if not early:
            mode.set_nmax(0, md["nmax"][0])
        mode.set_nmax(1, md["nmax"][1])
        mode.set_HR(1, md["hr"])
    return m


def make_aggregate(c):
    import quantarhei as qr
    mols = [make_molecule(mc) for mc in c["mols"]]
    agg = qr.Aggregate(mols)
    N = len(mols)
    for a in range(N):
        for b in range(a + 1, N):
            agg.set_resonance_coupling(a, b, float(c["J"][a][b]))
    return agg, mols


def analytic_fc(d, n):
    """<m|D|k> of the displaced oscillator, D = exp((d a^+ - d a)/sqrt 2), m,k < n (closed form)"""
    import numpy
    from scipy.special import eval_genlaguerre, gammaln
    b = d / math.sqrt(2.0)
    out = numpy.zeros((n, n))
    for m in range(n):
        for k in range(n):
            hi, lo = max(m, k), min(m, k)
            val = math.exp(0.5 * (gammaln(lo + 1) - gammaln(hi + 1)) - b * b / 2.0) * eval_genlaguerre(lo, hi - lo, b * b)
            # <m|D(b)|k> = sqrt(k!/m!) b^(m-k) e^{-b^2/2} L_k^{(m-k)}(b^2) for m >= k; for m < k: (-b)^(k-m)
            out[m, k] = val * (b ** (m - k) if m >= k else (-b) ** (k - m))
    return out


# ------------------------------------------------------------------ generators
def gen_agg(r, k, tier):
    while True:
        N = r.choice([1, 2, 2, 2, 3])
        mols = []
        for i in range(N):
            nm = r.choice([0, 1, 1, 1, 2]) if N < 3 else r.choice([0, 1, 1])
            modes = [{"omega": r.randint(1, 5), "nmax": [r.randint(1, 3), r.randint(1, 3)],
                      "hr": r.choice([0.0, 0.125, 0.25, 0.5, 0.5, 1.0, 1.5, 2.0])} for _ in range(nm)]
            mols.append({"E": r.randint(10, 40), "dip": [r.randint(-3, 3) for _ in range(3)], "modes": modes})
        mult = r.choice([1, 1, 2])
        J = [[0] * N for _ in range(N)]
        for a in range(N):
            for b in range(a + 1, N):
                J[a][b] = J[b][a] = r.randint(-6, 6)
        c = {"kind": "agg", "mols": mols, "J": J, "mult": mult}
        if 2 <= ntot_expected(c) <= (36 if tier == "quick" else 60):
            return c


def gen_agg_many(r, k, tier):
    """many modes with mutually different Huang-Rhys factors (hence many distinct shift differences in one aggregate: every mode
    contributes 0, +d and -d to the look-up table of shift operators), few levels per mode so that the state space stays small"""
    while True:
        N = r.choice([2, 2, 3])
        total = r.randint(8, 14)
        hrs = r.sample([i / 16.0 for i in range(1, 40)], total)
        mols = [{"E": r.randint(10, 40), "dip": [r.randint(-3, 3) for _ in range(3)], "modes": []} for _ in range(N)]
        rich = set(r.sample(range(total), r.choice([0, 1, 2])))
        for m in range(total):
            nmax = [r.randint(1, 2), r.randint(1, 2)] if m in rich else [1, 1]
            mols[m % N]["modes"].append({"omega": r.randint(1, 5), "nmax": nmax, "hr": hrs[m]})
        J = [[0] * N for _ in range(N)]
        for a in range(N):
            for b in range(a + 1, N):
                J[a][b] = J[b][a] = r.randint(-6, 6)
        c = {"kind": "agg", "mols": mols, "J": J, "mult": r.choice([1, 1, 2])}
        if 2 <= ntot_expected(c) <= (36 if tier == "quick" else 60):
            return c


def el_signatures(N, mult):
    out = []
    for b in range(mult + 1):
        lev = [s for s in itertools.product(range(2), repeat=N) if sum(s) == b]
        # order of elsignatures: lexicographic in the positions of the excitations
        lev.sort(key=lambda s: [i for i in range(N) if s[i] == 1])
        out += lev
    return out


def nmaxes(c, s):
    return [md["nmax"][s[n]] for n, mc in enumerate(c["mols"]) for md in mc["modes"]]


def ntot_expected(c):
    N = len(c["mols"])
    return sum(math.prod(nmaxes(c, s)) for s in el_signatures(N, c["mult"]))


# ------------------------------------------------------------------ Coq
def nl(xs):
    return cm.clist(["%d%%nat" % int(x) for x in xs])


def ql(xs):
    return cm.clist([cm.qlit(x) for x in xs])


AGG_DEF = """
Definition sub3 := (nat * Q * nat)%type.
(* ElectronicState.vibmodes as modelled in Model/C10x.v: mode a of molecule n in the level the molecule is in *)
Definition vm_of (N : nat) (modes : list (list (list sub3))) (s : sig) : list (@submode QR nat) :=
  vibmodes_of (@submode QR nat)
    (fun n a l => let '(nm, om, sh) := nth l (nth a (nth n modes []) []) (0%nat, 0%Q, 0%nat) in qsub nm om sh)
    (fun n => length (nth n modes [])) N s.
Definition qsq (n : nat) : QR := match n with 1%nat => Q2Qc 1 | _ => Q2Qc 0 end.
Definition agg_agrees (c : nat * nat * list (list Q) * list (list Q) * list (list Q) * list (list (list sub3)) *
                           list (list nat) * list (list (list Q)) *
                           (list nat * list (list nat) * list nat * list (list Q) * list (list (list Q)) * list (list Q) * Q)) : bool :=
  let '(N, mult, E, J, dip, modes, keys, tabs, (oel, ovs, onb, oH, oD, oFC, tol)) := c in
  let omax := repeat 1%nat N in
  let sg := elsigs omax mult in
  let vm := vm_of N modes in
  let Ef : nat -> nat -> QR := fun k n => Q2Qc (nth n (nth k E []) 0%Q) in
  let Jf : nat -> nat -> QR := fun k l => Q2Qc (nth l (nth k J []) 0%Q) in
  let df : nat -> nat -> QR := fun k x => Q2Qc (nth x (nth k dip []) 0%Q) in
  let sd := fun i j : nat => nth j (nth i keys []) 0%nat in
  let fct : nat -> nat -> nat -> QR := fun k q1 q2 => Q2Qc (nth q2 (nth q1 (nth k tabs []) []) 0%Q) in
  let sts := vstates nat vm sg in
  let idx := seq 0 (length sts) in
  let H := vH N Ef Jf qsq nat nat sd fct vm sg in
  let FC := vFC nat nat sd fct vm sg in
  all2 Nat.eqb (map (fun x => fst (fst x)) sts) oel && all2 (all2 Nat.eqb) (map (fun x => snd x) sts) ovs &&
  all2 Nat.eqb (vNb nat vm omax mult) onb && Nat.eqb (length oH) (length sts) &&
  forallb (fun a => forallb (fun b =>
     (if Nat.eqb a b then qr_eqb (H a b) (Q2Qc (nth b (nth a oH []) 0%Q))
      else qr_close tol (H a b) (Q2Qc (nth b (nth a oH []) 0%Q))) &&
     qr_close tol (FC a b) (Q2Qc (nth b (nth a oFC []) 0%Q)) &&
     forallb (fun x => qr_close tol (vD df nat nat sd fct vm sg x a b) (Q2Qc (nth x (nth b (nth a oD []) []) 0%Q))) (seq 0 3))
     idx) idx.
"""

ND_DEF = """
Definition nd_agrees (c : list nat * list (list nat)) : bool := let '(shape, out) := c in all2 (all2 Nat.eqb) (ndindex shape) out.
"""

IMPORTS = ("From Coq Require Import Qcanon.\nFrom QV Require Import Base.Alg Base.Sums Base.Mat Base.Util Model.C03 Model.C10 Model.C10x.\n"
           "Open Scope Z_scope.\n")


def run(chk, cases):
    import numpy
    import quantarhei as qr
    groups = {"agg": [], "nd": []}
    for c in cases:
        canon = json.dumps(c, sort_keys=True)
        try:
            if c["kind"] == "agg":
                N = len(c["mols"])
                agg, mols = make_aggregate(c)
                agg.build(mult=c["mult"])
                H = numpy.array(agg.get_Hamiltonian()._data)
                DD = numpy.array(agg.DD)
                FCf = numpy.array(agg.FCf)
                Ntot = int(agg.Ntot)
                chk.count("agg:N=%d,modes=%s,mult=%d" % (N, "+".join(str(len(m["modes"])) for m in c["mols"]), c["mult"]))
                sigs = el_signatures(N, c["mult"])
                # ---- monitor: state space
                want_states = [(i, v) for i, s in enumerate(sigs) for v in itertools.product(*[range(n) for n in nmaxes(c, s)])]
                got_states = [(int(agg.elinds[a]), tuple(int(x) for x in agg.vibsigs[a][1])) for a in range(Ntot)]
                if [tuple(int(x) for x in s) for s in agg.elsigs] != [tuple(s) for s in sigs]:
                    chk.violation("agg:elsigs", "electronic signatures differ from the band-ordered enumeration", "monitor", c)
                if Ntot != sum(math.prod(nmaxes(c, s)) for s in sigs) or H.shape != (Ntot, Ntot):
                    chk.violation("agg:count", "Ntot = %d is not the sum over electronic states of the products of the level counts (%d)"
                                  % (Ntot, sum(math.prod(nmaxes(c, s)) for s in sigs)), "monitor", c)
                elif got_states != want_states:
                    chk.violation("agg:states", "the vibronic states are not, per electronic state, all tuples of vibrational quantum numbers in "
                                  "row-major order", "monitor", c)
                if [list(v) for v in agg.vibindices] != [[a for a in range(Ntot) if got_states[a][0] == i] for i in range(len(sigs))]:
                    chk.violation("agg:vibindices", "vibindices do not list the states of each electronic state", "monitor", c)
                nb_want = [sum(math.prod(nmaxes(c, s)) for s in sigs if sum(s) == b) for b in range(c["mult"] + 1)]
                if [int(x) for x in agg.Nb] != nb_want:
                    chk.violation("agg:Nb", "Nb %r differs from the number of vibronic states per band %r" % ([int(x) for x in agg.Nb], nb_want), "monitor", c)
                # ---- FC tables used by this build (oracle data) and their identification
                shifts = []          # distinct shift values (floats) of all submodes
                modes_lit = []
                for n, mol in enumerate(mols):
                    ml = []
                    for j in range(mol.nmod):
                        lv = []
                        for lev in range(2):
                            sm = mol.get_Mode(j).get_SubMode(lev)
                            sh = float(sm.shift)
                            if sh not in shifts:
                                shifts.append(sh)
                            lv.append("(%d%%nat, %s, %d%%nat)" % (int(sm.nmax), cm.qlit(float(sm.omega)), shifts.index(sh)))
                        ml.append(cm.clist(lv))
                    modes_lit.append(cm.clist(ml))
                keys = []
                tabs = {}
                nmx = max([3] + [md["nmax"][l] for mc in c["mols"] for md in mc["modes"] for l in range(2)])
                worst_im = 0.0
                for s1 in shifts:
                    row = []
                    for s2 in shifts:
                        d = s1 - s2
                        if agg.FC.lookup(d):
                            kk = agg.FC.index(d)
                            tabs[kk] = numpy.array(agg.FC.get(kk))[:nmx, :nmx]
                            worst_im = max(worst_im, float(numpy.max(numpy.abs(numpy.imag(tabs[kk])))))
                            row.append(kk)
                        else:
                            row.append(len(agg.FC._shifts))        # never consulted by the build
                    keys.append(row)
                if worst_im > 1e-12:
                    chk.violation("fc:imaginary", "Franck-Condon table has imaginary parts up to %.3g" % worst_im, "monitor", c)
                ntab = len(agg.FC._shifts) + 1
                tabs_lit = cm.clist([cm.clist([ql(numpy.real(tabs[k][q])) for q in range(nmx)]) if k in tabs else "[]" for k in range(ntab)])
                # ---- monitor: factorisation on the outputs, with independently evaluated overlaps (closed form)
                E = [[0, mc["E"]] for mc in c["mols"]]
                worst = 0.0
                scale = max(1.0, float(numpy.max(numpy.abs(H))))
                subm = lambda s: [(md, s[n]) for n, mc in enumerate(c["mols"]) for md in mc["modes"]]
                fc_cache = {}

                def fcan(d):
                    if d not in fc_cache:
                        fc_cache[d] = analytic_fc(d, 3)
                    return fc_cache[d]
                bad = None
                for a, (ia, va) in enumerate(got_states):
                    for b, (ib, vb) in enumerate(got_states):
                        sa, sb = sigs[ia], sigs[ib]
                        fc = 1.0
                        for (m1, l1), (m2, l2), q1, q2 in zip(subm(sa), subm(sb), va, vb):
                            d = (math.sqrt(2.0 * m1["hr"]) if l1 else 0.0) - (math.sqrt(2.0 * m2["hr"]) if l2 else 0.0)
                            fc *= fcan(d)[q1, q2]
                        diff = [k for k in range(N) if sa[k] != sb[k]]
                        if a == b:
                            href = sum(E[k][sa[k]] for k in range(N)) + sum(q * m1["omega"] for (m1, _), q in zip(subm(sa), va))
                        elif ia != ib and len(diff) == 2 and sum(sa) == sum(sb):
                            href = c["J"][diff[0]][diff[1]] * fc
                        else:
                            href = 0.0
                        dref = [x * fc for x in c["mols"][diff[0]]["dip"]] if len(diff) == 1 else [0.0, 0.0, 0.0]
                        dev = max(abs(H[a, b] - href), max(abs(DD[a, b, x] - dref[x]) for x in range(3)), abs(FCf[a, b] - fc))
                        if dev > worst:
                            worst, bad = dev, (a, b, float(H[a, b]), href, DD[a, b].tolist(), dref, float(FCf[a, b]), fc)
                if worst > 1e-9 * scale:
                    chk.violation("agg:factorisation", "element (%d,%d): H=%r expected %r, D=%r expected %r, FCf=%r expected %r (electronic quantity times the "
                                  "product of displaced-oscillator overlaps)" % bad, "monitor", c)
                if numpy.max(numpy.abs(H - H.T)) > 1e-10 * scale:
                    chk.violation("agg:symmetry", "vibronic Hamiltonian is not symmetric (%.3g)" % float(numpy.max(numpy.abs(H - H.T))), "monitor", c)
                # ---- Molecule.get_Hamiltonian dimension
                for mc, mol in zip(c["mols"], mols):
                    dim = int(mol.get_Hamiltonian().dim)
                    wantd = sum(math.prod(md["nmax"][lev] for md in mc["modes"]) for lev in range(2))
                    if dim != wantd:
                        chk.violation("molecule:dimension", "Molecule Hamiltonian has dimension %d, the sum over electronic states of the products of "
                                      "the level counts is %d" % (dim, wantd), "monitor", c)
                tolq = Fraction(1, 10 ** 12) * Fraction(*float(scale).as_integer_ratio())
                item = "(%d%%nat, %d%%nat, %s, %s, %s, %s, %s, %s, (%s, %s, %s, %s, %s, %s, %s))" % (
                    N, c["mult"], cm.clist([ql(e) for e in E]), cm.clist([ql(row) for row in c["J"]]),
                    cm.clist([ql(mc["dip"]) for mc in c["mols"]]), cm.clist(modes_lit), cm.clist([nl(r_) for r_ in keys]), tabs_lit,
                    nl([g[0] for g in got_states]), cm.clist([nl(g[1]) for g in got_states]), nl(agg.Nb),
                    cm.clist([ql(row) for row in H]), cm.clist([cm.clist([ql(x) for x in row]) for row in DD]),
                    cm.clist([ql(row) for row in FCf]), cm.qlit(tolq))
                groups["agg"].append((item, c))
                chk.case(canon, N >= 2 and any(mc["modes"] for mc in c["mols"]) and any(md["hr"] > 0 for mc in c["mols"] for md in mc["modes"]),
                         sample={"case": c, "Ntot": Ntot, "Nb": [int(x) for x in agg.Nb]})
            elif c["kind"] == "nd":
                mol = qr.Molecule([0.0, 1.0])
                for n in c["shape"]:
                    md = qr.Mode(1.0)
                    mol.add_Mode(md)
                    md.set_nmax(0, n)
                agg = qr.Aggregate([mol])
                es = agg.get_ElectronicState((0,), 0)
                out = [tuple(int(x) for x in v) for v in es.vsignatures()]
                chk.count("nd:len=%d" % len(c["shape"]))
                if out != list(itertools.product(*[range(n) for n in c["shape"]])) or es.number_of_states() != math.prod(c["shape"]) \
                        or len(out) != math.prod(c["shape"]):
                    chk.violation("nd:signatures", "vsignatures for level counts %r are not all tuples in row-major order" % (c["shape"],), "monitor", c)
                groups["nd"].append(("(%s, %s)" % (nl(c["shape"]), cm.clist([nl(v) for v in out])), c))
                chk.case(canon, len(c["shape"]) >= 2 and math.prod(c["shape"]) >= 2)
        except Exception as e:
            import traceback
            chk.violation("%s:exception" % c["kind"], "case %s raised %r (%s)" % (canon[:300], e, traceback.format_exc().splitlines()[-3:]), "monitor", c)
            chk.case(canon, False)
    defs = {"agg": (AGG_DEF, "agg_agrees", 3), "nd": (ND_DEF, "nd_agrees", 60)}
    shards, index = [], []
    for kind, items in groups.items():
        d, fn, per = defs[kind]
        for k in range(0, len(items), per):
            chunk = items[k:k + per]
            shards.append(cm.HEADER + IMPORTS + d + "Definition cs := %s.\nEval vm_compute in (bad %s cs).\n" % (cm.clist([it for it, _ in chunk]), fn))
            index.append((kind, chunk))
    for (kind, chunk), (rc, out) in zip(index, cm.coq_eval(PID, shards)):
        if rc != 0:
            chk.violation("correspondence:coq_error", "coqc failed on %s cases: %s" % (kind, out[-800:]), "correspondence", {}, found_input=False)
            continue
        badl = cm.parse_natlist(cm.parse_evals(out)[0])
        chk.corr["cases"] += len(chunk)
        chk.corr["disagreements"] += len(badl)
        for i in badl[:3]:
            chk.violation("correspondence:" + kind, "implementation differs from Model.C10 on %s" % json.dumps(chunk[i][1])[:600],
                          "correspondence", chunk[i][1], found_input=False)


def fc_law_monitors(chk, tier, only=None):
    """the displaced-oscillator law of the FC oracle (validated numerically)"""
    import numpy
    import quantarhei as qr
    from quantarhei.qm.oscillators.ho import operator_factory
    ops = operator_factory()
    hrs = [0.0, 0.01, 0.125, 0.25, 0.5, 1.0, 1.5, 2.0, 3.0] if tier == "quick" else \
        [0.0, 0.001, 0.01, 0.05, 0.125, 0.25, 0.4, 0.5, 0.75, 1.0, 1.25, 1.5, 2.0, 2.5, 3.0, 4.0]
    if only is not None:
        hrs = [only]
    worst = {"poisson": 0.0, "closed_form": 0.0, "orthogonality": 0.0, "block_norm_excess": 0.0, "transpose": 0.0}
    for hr in hrs:
        c = {"kind": "fclaw", "hr": hr}
        mol = qr.Molecule([0.0, 1.0])
        md = qr.Mode(1.0)
        mol.add_Mode(md)
        md.set_HR(1, hr)
        d = float(md.get_shift(1))
        chk.case(("fclaw", hr), hr > 0)
        chk.count("fclaw")
        if abs(md.get_HR(1) - hr) > 1e-14 * max(1.0, hr) or abs(d * d / 2.0 - hr) > 1e-14 * max(1.0, hr):
            chk.violation("fc:huang_rhys", "set_HR(%r) gives shift %r and get_HR %r (S = d^2/2 expected)" % (hr, d, md.get_HR(1)), "monitor", c)
        for sgn in (1.0, -1.0):
            D = ops.shift_operator(sgn * d)
            fc = D[:20, :20]
            if hr == 0.0:
                if not numpy.array_equal(D, numpy.eye(100)):
                    chk.violation("fc:zero_shift", "shift_operator(0) is not the unit matrix", "monitor", c)
                continue
            pois = numpy.array([math.exp(-hr + n * math.log(hr) - math.lgamma(n + 1)) for n in range(20)])
            e1 = float(numpy.max(numpy.abs(numpy.abs(fc[:, 0]) ** 2 - pois)))
            e2 = float(numpy.max(numpy.abs(fc - analytic_fc(sgn * d, 20))))
            e3 = float(numpy.max(numpy.abs(D.dot(numpy.conj(D.T)) - numpy.eye(100))))
            rows = numpy.sum(numpy.abs(fc) ** 2, axis=1)
            e4 = float(numpy.max(rows - 1.0))
            e5 = float(numpy.max(numpy.abs(ops.shift_operator(-sgn * d)[:20, :20] - fc.T)))
            for k_, v_ in zip(("poisson", "closed_form", "orthogonality", "block_norm_excess", "transpose"), (e1, e2, e3, e4, e5)):
                worst[k_] = max(worst[k_], v_)
            if e1 > 1e-10:
                chk.violation("fc:poisson", "|<n|D|0>|^2 deviates from the Poisson distribution with mean S=%r by %.3g" % (hr, e1), "monitor", c)
            if e2 > 1e-9:
                chk.violation("fc:closed_form", "overlaps for S=%r deviate from the displaced-oscillator closed form by %.3g" % (hr, e2), "monitor", c)
            if e3 > 1e-8:
                chk.violation("fc:orthogonality", "shift operator for S=%r is not orthogonal: %.3g" % (hr, e3), "monitor", c)
            # the block loses exactly the weight that lies beyond the 20 kept levels: for the vibrational ground
            # state that is the Poisson tail; no row may exceed norm 1
            if e4 > 1e-10 or abs(float(rows[0]) - float(numpy.sum(pois))) > 1e-10:
                chk.violation("fc:truncation", "20 x 20 block for S=%r: row norms %r are not 1 up to truncation" % (hr, rows[:6].tolist()), "monitor", c)
            if e5 > 1e-10:
                chk.violation("fc:transpose", "FC(-d) is not the transpose of FC(d) for S=%r: %.3g" % (hr, e5), "monitor", c)
    chk.extra["fc_law_max_deviations"] = worst


CORPUS = [
    # two modes whose shifts differ by less than 1e-3 (Huang-Rhys factors 1/2 and 1/2 + 2^-11), and a mode with a very small shift
    {"kind": "agg", "mult": 1, "J": [[0, 3], [3, 0]],
     "mols": [{"E": 11, "dip": [1, 0, 0], "modes": [{"omega": 2, "nmax": [2, 3], "hr": 0.5}]},
              {"E": 13, "dip": [0, 1, 0], "modes": [{"omega": 3, "nmax": [3, 2], "hr": 0.50048828125}]}]},
    {"kind": "agg", "mult": 1, "J": [[0, -2], [-2, 0]],
     "mols": [{"E": 11, "dip": [1, 1, 0], "modes": [{"omega": 1, "nmax": [2, 2], "hr": 2.0 ** -22}]},
              {"E": 12, "dip": [0, 1, 1], "modes": [{"omega": 2, "nmax": [2, 2], "hr": 0.0}]}]},
    {"kind": "agg", "mult": 2, "J": [[0, 4], [4, 0]],
     "mols": [{"E": 10, "dip": [1, 2, 0], "modes": [{"omega": 1, "nmax": [2, 3], "hr": 0.5}, {"omega": 2, "nmax": [2, 2], "hr": 0.25}]},
              {"E": 12, "dip": [0, 1, 1], "modes": [{"omega": 3, "nmax": [3, 2], "hr": 0.125}]}]},
    {"kind": "agg", "mult": 1, "J": [[0]], "mols": [{"E": 10, "dip": [1, 0, 0], "modes": [{"omega": 2, "nmax": [3, 3], "hr": 1.0}]}]},
    {"kind": "agg", "mult": 2, "J": [[0, -3], [-3, 0]],
     "mols": [{"E": 20, "dip": [1, 0, 0], "modes": []}, {"E": 21, "dip": [0, 1, 0], "modes": [{"omega": 1, "nmax": [2, 2], "hr": 0.0}]}]},
    {"kind": "agg", "mult": 2, "J": [[0, 2, -1], [2, 0, 3], [-1, 3, 0]],
     "mols": [{"E": 15, "dip": [1, 0, 1], "modes": []},
              {"E": 16, "dip": [0, 2, 0], "modes": [{"omega": 2, "nmax": [1, 3], "hr": 0.5}]},
              {"E": 18, "dip": [1, 1, 0], "modes": [{"omega": 1, "nmax": [2, 1], "hr": 1.0}]}]},
    {"kind": "nd", "shape": [2, 3]}, {"kind": "nd", "shape": []}, {"kind": "nd", "shape": [3, 1, 2, 2]},
]


def rebuild_monitor(chk, cases, tier):
    """the vibronic structure must follow the CURRENT parameters: an aggregate built, changed (Huang-Rhys factor of a mode)
    and built again - or rebuilt - must equal an aggregate built fresh from the changed parameters"""
    import copy
    import numpy as np
    done = 0
    for c in cases:
        if c.get("kind") != "agg" or not any(mc["modes"] for mc in c["mols"]):
            continue
        if done >= (8 if tier == "quick" else 60):
            break
        done += 1
        try:
            agg, mols = make_aggregate(c)
            agg.build(mult=c["mult"])
            H0 = np.array(agg.get_Hamiltonian()._data)
            c2 = copy.deepcopy(c)
            k = [i for i, mc in enumerate(c["mols"]) if mc["modes"]][0]
            old = c2["mols"][k]["modes"][0]["hr"]
            new = 0.75 if old != 0.75 else 0.25
            c2["mols"][k]["modes"][0]["hr"] = new
            mols[k].get_Mode(0).set_HR(1, new)
            if done % 3 == 0:
                # the mode SET of a molecule changes too: one more mode on the first molecule (keeps Ntot small)
                import quantarhei as qr
                extra = {"omega": 2, "nmax": [2, 2], "hr": 0.5}
                c2["mols"][0]["modes"] = list(c2["mols"][0]["modes"]) + [extra]
                md = qr.Mode(float(extra["omega"]))
                mols[0].add_Mode(md)
                md.set_nmax(0, 2)
                md.set_nmax(1, 2)
                md.set_HR(1, 0.5)
            how = ["build", "rebuild"][done % 2]
            if how == "build":
                agg.build(mult=c["mult"])
            else:
                agg.rebuild(mult=c["mult"])
            H1, D1 = np.array(agg.get_Hamiltonian()._data), np.array(agg.DD)
            fresh, _ = make_aggregate(c2)
            fresh.build(mult=c["mult"])
            H2, D2 = np.array(fresh.get_Hamiltonian()._data), np.array(fresh.DD)
            sc = max(1.0, float(np.max(np.abs(H2))))
            if H1.shape != H2.shape or np.max(np.abs(H1 - H2)) > 1e-12 * sc or np.max(np.abs(D1 - D2)) > 1e-12 * max(1.0, float(np.max(np.abs(D2)))):
                dev = float(np.max(np.abs(H1 - H2))) if H1.shape == H2.shape else float("nan")
                chk.violation("rebuild:stale_parameters", "aggregate built, Huang-Rhys factor of molecule %d changed %g -> %g, then %s(): Hamiltonian/dipoles differ from "
                              "an aggregate built fresh from the changed parameters (max |dH| = %g; unchanged from the first build: %s)"
                              % (k, old, new, how, dev, bool(H1.shape == H0.shape and np.array_equal(H1, H0))), "monitor", dict(c, changed_hr=[k, old, new], how=how))
            chk.count("rebuild:" + how)
            chk.case(("rebuild", json.dumps(c, sort_keys=True), how), True)
        except Exception as e:
            chk.violation("rebuild:exception", "rebuild monitor raised %r on %s" % (e, json.dumps(c)[:300]), "monitor", c)


def main():
    chk = cm.Check(PID, args.tier)
    chk.rule = ("real Aggregate.build runs: 1-3 two-level molecules, 0-2 modes each, 1-3 levels per mode and electronic state, integer "
                "frequencies/energies/couplings/dipoles, dyadic Huang-Rhys factors in [0,2], mult 1/2, 2 <= Ntot <= 36 (60 thorough); plus "
                "aggregates with 8-14 modes of mutually different Huang-Rhys factors and one or two levels each (17-29 distinct shifts); raw "
                "vsignatures for 0-4 modes; FC law on a grid of Huang-Rhys factors; non-trivial: >= 2 molecules, a mode with S > 0")
    chk.assumptions = ["the Franck-Condon tables (operator_factory.shift_operator: numpy.linalg.eig + inv + exp of a 100 x 100 matrix, cut to "
                       "20 x 20) are an ORACLE: Poisson law, closed-form overlaps, orthogonality up to truncation, FC(0) = 1 and FC(-d) = FC(d)^T "
                       "are validated numerically on a grid (tolerances 1e-10 / 1e-9 / 1e-8), not proved",
                       "the model is fed the real parts of the implementation's own tables; their imaginary parts (<= 1e-12, monitored) are "
                       "discarded by the build through numpy.real",
                       "float subtraction of two shifts and the look-up by float equality are identified through the implementation's own "
                       "fcstorage.index", "full vibrational state space only (vibgen_approx=None); the truncated generators (SPA, TPA, ...) "
                       "are not claimed by the property and raise on this NumPy (numpy.int)",
                       "two-level molecules; electronic part as in C03"]
    chk.notes.append("exact: state lists, Ntot, Nb, diagonal of H; 1e-12 relative to max|H|: off-diagonal H, DD, FCf")
    chk.prove()
    import translate
    translate.static_tie(cm, chk, PID, cm.REPO)      # second, static tie: model regenerated from the current source
    if args.replay:
        rep = json.load(open(args.replay))
        inp = rep.get("input")
        if isinstance(inp, dict) and inp.get("kind") in ("agg", "nd"):
            run(chk, [inp])
        elif isinstance(inp, dict) and inp.get("kind") == "fclaw":
            fc_law_monitors(chk, args.tier, only=inp["hr"])
    else:
        r = cm.rng(PID)
        quick = args.tier == "quick"
        cases = list(CORPUS)
        cases += [gen_agg(r, k, args.tier) for k in range(36 if quick else 300)]
        cases += [gen_agg_many(r, k, args.tier) for k in range(6 if quick else 40)]
        cases += [{"kind": "nd", "shape": [r.choice([1, 2, 2, 3, 4, 0 if r.random() < 0.05 else 2]) for _ in range(r.randint(0, 4))]}
                  for _ in range(30 if quick else 200)]
        run(chk, cases)
        rebuild_monitor(chk, cases, args.tier)
        fc_law_monitors(chk, args.tier)
    chk.finish()


main()
