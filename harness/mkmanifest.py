#!/usr/bin/env python3
"""Writes /verif/MANIFEST.json from the table below (kept in one place so that it stays valid)."""
import json, os
HERE = os.path.dirname(os.path.dirname(os.path.abspath(__file__)))
TB = ("Trusted: Coq 8.16.1 kernel/coqc, vm_compute (no native_compute); the hand-written Gallina model, tied to /repo only "
      "by this check's differential correspondence run (reach bounded by its generators); the Python harness; "
      "CPython/NumPy/SciPy. Axioms per theorem as printed by Print Assumptions are copied into the evidence file. ")
CHECKS = {
 "C20": dict(
   text="All clauses proved in Coq for every process count, start and stop (no size bound): contiguity, abutment, "
        "balance (sizes differ by <= 1), exactly-one-block membership, concatenation of blocks = serial range, empty and "
        "short ranges, sum-reduction = serial fold in every monoid; list/array helpers as corollaries; refutation "
        "witnesses for the two defects of the pinned tree (both repaired by fix: commits). Parallel regions: every well-nested "
        "sequence of start/finish_parallel_region never raises and moves level and region counter with the nesting depth, a "
        "balanced block restores the configuration exactly, so the helpers hand out the partition exactly at nesting depth 1 "
        "(also after nested regions were opened and closed) and the whole range elsewhere. The model is tied to the code "
        "by an exhaustive grid (all ranks) compared inside Coq with exact integers, plus direct monitors of the property "
        "on the implementation's outputs, region histories and nested programs run on real DistributedConfiguration objects by "
        "every simulated rank, and an end-to-end rank-simulated run of the Redfield rate kernel.",
   note=TB + "All C20 theorems are closed under the global context. MPI transport is not modelled (a rank is a stub "
        "DistributedConfiguration). Static tie: trusts harness/translate.py and translate_c20.py, treats the MPI calls of reduce/allreduce as text, and ties the callers only at the level of event order (c20_region_protocol_reduces_to_serial is about that shape, not about the loop bodies).",
   design="7/C20", technique="Coq proof (lia/nia + induction over ranks) + static tie: _calculate_ranges regenerated from the source by a translator with a machine-checked equivalence lemma, and a second generated file (GenC20b.v) in which the list/array range functions, the three block_distributed_* helpers, the region bookkeeping of DistributedConfiguration, the public region wrappers and the guards of reduce/allreduce are translated statement by statement from parallel.py and proved equal to helper/api_block/list_block/array_block/reduce_mode/r_step by case analysis and linear arithmetic; the library's own distributed loops are reduced to their sequence of uses of the machinery and proved well formed + exhaustive in-Coq correspondence"),
 "C17": dict(
   text="Proved in Coq over every commutative ring and every matrix size: any history of set_rate calls (accepted or refused, "
        "negative/out-of-range/diagonal indices included) keeps all column sums and leaves in each off-diagonal element the "
        "last assigned value; refused calls change nothing; the short-exponential loop conserves the population sum for every "
        "order, step and number of steps; the order-4 step equals the Taylor polynomial and keeps populations non-negative "
        "whenever the explicit Euler matrix 1+dt K is non-negative (24 T4 = 9 + 8Y + 6Y^2 + Y^4, Y = 1+dtK: this defines the "
        "admissible step); structure of the sub-axis propagation matrix for an oracle exponential E. Validated only (named "
        "limit): agreement of the stored populations and of get_PropagationMatrix with scipy's expm within the truncation "
        "bound / 1e-9 - the exponential itself is an oracle.",
   note=TB + "All C17 theorems are closed under the global context. Tie: random set_rate histories compared exactly in Coq; "
        "propagation compared with the model over exact rationals within 1e-11. Glue tie: per run and fail-closed; expm and round are oracles that enter as function parameters; the correction blocks (Uc0/Uc1/Uc2) are tied by their guards only; that neither get_PropagationMatrix (any corrections option) nor propagate stores through the propagator, its rate matrix, its axis or the arguments is established per run by the write-set analysis of harness/translate_c15.py (fail-closed) and monitored on real calls.",
   design="7/C17", technique="Coq proof (ring/induction over op histories and Taylor loop) + in-Coq differential correspondence + statement-level translator (set_rate and the _propagate_short_exp loop nest regenerated from the source, equivalence lemmas re-proved every run) + static tie of the glue around the kernels (initialisation, dispatch and decision trees, index bookkeeping, RWA and dephasing factors, sub-axis logic, constructors, fields read and written): the code's own expressions instantiate skeleton combinators (Proofs/C02gen.v, C07gen.v, C08objgen.v, C17gen.v) proved equal to Model/C02glue.v, C07glue.v, C08obj.v and C17axis.v"),
 "C19": dict(
   text="Proved in Coq for every history (induction over op lists, data in any commutative ring): whatever is readable at the end "
        "(total, signals, processes, types, per level of the store) equals the sum of the accepted additions belonging to it, "
        "across all admissible reductions 4->3->2->0, 4->3->1->0 and refused ones; each accepted addition changes each view by "
        "exactly the data; refused additions and refused resolution changes leave the store unchanged; reads are projections of "
        "the store; refutation witness for the pinned setter (type-level add into a pathways store double counts; repaired by a "
        "fix: commit). The state machine transcribes getter, setter, _add_data, set_resolution, _convert_res_elementary.",
   note=TB + "All C19 theorems closed under the global context. Tie: random histories compared op by op inside Coq (accepted flag, "
        "read result, final store) with exact integers; unknown resolution strings passed to _add_data are outside the model. Static tie = transcription (harness/translate_c19.py, fail-closed, aliasing check) proved equal to Model/C19code.v, whose refinement of Model/C19.v is proved in Proofs/C19gen*.v; trusted: the transcriber, Model/C19py.v's semantics (value semantics of arrays guarded by the aliasing check and c19_uninitialised_store_is_zero); exception messages and array shapes not modelled.",
   design="7/C19", technique="Coq proof (state-machine invariant by induction over histories) + static tie: the storage code of twod2.py (tables, the eight reduction helpers, getter/setter of twodspectrum_dictionary, set_data_flag, _convert_res_elementary, _convert_resolution, set_resolution, _add_data) is transcribed from the current source on every run into an executable Python-fragment semantics (Model/C19py.v) and proved to refine the state-machine model for every history (code_refines_model, Proofs/C19gen*.v) + in-Coq differential correspondence"),
 "C09": dict(
   text="Proved in Coq for every commutative ring and every component oracle: the constructor builds the sum of its components' "
        "data and reorganisation energies; a + b for an analytically parameterised left operand and any right operand (value-"
        "defined included) adds data and reorganisation energy, concatenates components, takes the larger cut-off; every "
        "expression tree over analytic leaves evaluates to the in-order sums, so any two groupings agree; different temperatures "
        "are refused by constructor, + and += (the latter without touching the target); x += x doubles; refutation witnesses for "
        "the two defects of the pinned tree (stale ftype dispatch; += mutating before refusing), both repaired by fix: commits, "
        "as is SpectralDensity.__add__ under a units context. Validated only: measured reorganisation energy (2%), parity of the "
        "even/odd Fourier parts (1e-9), SpectralDensity additivity (monitors).",
   note=TB + "All C09 theorems closed under the global context. The per-component data generators are oracles: the model is fed each "
        "component built alone by the implementation. Underdamped/B777/CP29 types are not exercised. Static tie = templates and structural extraction (harness/translate_c09.py) instantiating Proofs/C09gen.v skeleton lemmas; CP29 SpectralDensity stated as it is (known findings sd:cp29:declared_units, sd:cp29:composed); trusted: translator, DFunction._add_me, maker formulas (oracle), unit conversion. Spectral densities do not refuse mixed temperatures (the check is commented out in the code on purpose; temperature does not enter a spectral density's data): the refusal clause is judged for correlation functions only. Programs containing an Underdamped component do not compare cut-off times (outside the property's text).",
   design="7/C09", technique="Coq proof of additivity over an abstract component oracle (induction over expression trees) + statement-level static tie of constructor dispatch (which maker gets the component as submitted / converted), maker bookkeeping and the addition methods of CorrelationFunction and SpectralDensity (Proofs/C09gen.v; CP29 stated as it is) + in-Coq differential correspondence on exact rationals"),
 "C16": dict(
   text="Proved in Coq for EVERY number of baths and depth (induction, no size bound): each generated level holds every "
        "multi-index of its total order exactly once; the flattened table is complete, duplicate free and ordered by level; "
        "raising and lowering links (the code's last-match searches) are mutually inverse, absent exactly when the entry is 0 "
        "resp. the order equals the depth; the root is entry 0 and never a raising target; level j has C(N+j-1, j) entries (counted "
        "against a canonical enumeration; Pascal rule proved). For the right-hand sides "
        "(transcribed incl. the nk*jj>=0 / jj>0 guards and Python's index -1) over any commutative *-ring: the trace of ADO 0 "
        "is conserved exactly and all ADOs stay Hermitian at every stored time for every expansion order and step; with zero "
        "reorganisation energies higher ADOs stay zero and ADO 0 obeys the closed-system equation. For uncoupled sites (diagonal "
        "Hamiltonian and diagonal system parts of the couplings; checked on the real objects): populations of the reduced density matrix "
        "are constant for every depth, step, order and number of steps, and every matrix element of every ADO at every stored time "
        "is the propagation of its own scalar hierarchy (the matrix hierarchy decouples element by element - the reason the model is "
        "exactly solvable). Validated only: convergence of that scalar hierarchy with depth to exp(-i w t - g(t)) (aggregates and "
        "multi-level molecules with baths on a subset of transitions) and the closed-system limit against expm.",
   note=TB + "All C16 theorems closed under the global context. Tie: tables of real KTHierarchy objects compared exactly in Coq; "
        "right-hand sides compared exactly on Gaussian-integer inputs. Static tie: harness/translate2.py (template unification, fail-closed) joins the trusted base.",
   design="7/C16", technique="Coq proof (induction over levels, NoDup/sortedness of the table, ring algebra for the RHS) + exact in-Coq correspondence + statement-level translator (generate_indices, _make_nmp1, _make_Gamma, _convert_2_matrix, the propagate() loop nest and both right-hand sides _ado_self_rhs / _ado_cros_rhs - guards nk*jj >= 0 and jj > 0, the negative-index read, all terms - regenerated from the source, equivalence lemmas to Model/C16.v re-proved every run)"),
 "C05": dict(
   text="Proved in Coq: over the rationals and for arbitrary non-zero conversion factors, a value supplied under u and read under v "
        "is the exact conversion for all 11x11 pairs incl. the reciprocal 'nm' handling; round trip; composition; array elements "
        "(zero stays zero). For EVERY program of nested energy/length contexts, exceptions, handlers and builds (induction over "
        "program trees): units, nesting counter and flag are restored on normal and exceptional exit; inside a context the units "
        "are the requested ones; refutation witness for the pinned raw units switch of Aggregate.build (repaired by a fix: commit). "
        "'No library call changes the caller's units' is monitored on ~30 public calls (succeeding and raising) inside contexts - "
        "this clause quantifies over library code and is validated, not proved.",
   note=TB + "All C05 theorems closed under the global context. Tie: 9 accessors x 121 unit pairs compared in Coq with the model on the "
        "implementation's own factors (1e-13); random context programs incl. real builds compared state by state in Coq. Static tie: trusts harness/translate_c05.py; scalars take the except branch and arrays the try branch of the converters; check_numpy_array is the identity on the numbers; a context object is not re-entered while active; frequency converters are not tied; the access-context and argument-flow lemmas are syntactic-scope facts about the listed functions only. Also per run: every generator function of the package is scanned (no yield inside a with block, so no units context is held open while a caller's loop body runs), and the public generators are consumed under units contexts by the check (monitor F).",
   design="7/C05", technique="Coq proof (field arithmetic over Q; induction over context programs) + static tie (GenC05.v): conversion tables, converters (scalar and array path), get/set/unset_current_units, the three context classes (through a proved `with` skeleton), delegations, units-managed properties, convert, the units switch of build, the units current at every managed access of the axis-conversion functions and the flow of the energy arguments of five setters are translated from the current source and proved equal to Model/C05.v (to_int/to_cur/_elt, set_e/set_l/unset_e, enter_e/exit_e, exec (PWithE/PWithL ...), convert) + in-Coq differential correspondence + transparency monitor comparing the stored state of 69 library calls made inside and outside units contexts"),
 "C04": dict(
   text="Proved in Coq over an abstract group of basis changes acting on abstract data (so for every class and every size): "
        "EVERY program of object creation, reads, writes, protect/unprotect, apply-with-copy, arbitrarily nested eigenbasis_of "
        "contexts, exceptions at any point and handlers keeps the bookkeeping invariant at every fragment boundary, and run "
        "outside every context ends with stack and registrations restored, no stale tag, and every unprotected object it did not "
        "itself overwrite back in exactly its original representation; what is read inside a context is the site-basis value "
        "carried through all transformations on the stack. For the concrete actions over any commutative *-ring and size: "
        "S^-1 A S composes, is undone by the inverse, keeps tr A and tr(AB); the (repaired) two-pass 4-index transformation makes "
        "tensor application basis independent for ANY invertible S and is undone by the inverse pair; the pinned second pass equals "
        "it exactly for orthogonal S; refutation witnesses for the pinned tree (complex unitary S; stale tag of apply() copies), both "
        "repaired by fix: commits, as is the forgotten current_basis_operator after a nested context. Validated only: eigh returns "
        "a diagonalising S (monitored: operator diagonal and ascending inside its context).",
   note=TB + "All C04 theorems closed under the global context. Tie: random programs on the real Operator/SelfAdjointOperator/"
        "SuperOperator, Hamiltonian, ReducedDensityMatrix, TransitionDipoleMoment, RelaxationTensor (4- and 5-index), "
        "TDRedfieldRelaxationTensor (tensor form), DensityMatrixEvolution and StateVectorEvolution classes (each with its own "
        "transform() code) with exact signed-permutation eigenbases compared inside Coq (reads, final tags/protection/raw data, "
        "registration lists, depth); float monitors for real symmetric, degenerate, diagonal-unsorted and complex Hermitian operators "
        "(1e-9). Objects protected inside a context are re-tagged, not transformed (by design) and are excluded from the restoration "
        "claim. Evolutions do not tag themselves on creation and are created outside contexts only; operator-form tensors are covered "
        "by the action laws and by C07. The static ties cover the transform loop nests and the bookkeeping state machine; they are relative to the translator's reading of Python (objects as heap labels, aliases of registration lists, snapshot iteration of `for`, apply and object construction matched as statement sequences) and to eigh, inv and transform being an abstract group action.",
   design="7/C04", technique="Coq proof (state-machine invariant by induction over program trees; ring algebra for the actions) + loop nests of the tensor basis change regenerated from the source by a translator with machine-checked equivalence lemmas + in-Coq differential correspondence + second static tie (GenC04b.v): the basis bookkeeping of core/managers.py (Manager, BasisManaged incl. __copy__, eigenbasis_of), utils/types.py, the constructors' tagging block and SuperOperator.apply is re-translated from the source on every run into Gallina over a Python-level state and proved equal to a transcription that Proofs/C04gen.v shows simulates every step function of Model/C04.v and the whole exec (mexec_sim), so the restoration theorem holds for the code's own stack, transformations, registration dictionary, current_basis_operator and context flag"),
 "C01": dict(
   text="Proved in Coq over any commutative *-ring, for every dimension, every number of bath components and (index by index) every "
        "time index: the Redfield assembly loop is traceless with NO hypothesis on the operators handed to it; with K_m real and "
        "Lambda_m^dagger as the code builds it the tensor commutes with Hermitian conjugation; the time-dependent assembly (which "
        "writes K where K^T belongs) is traceless always, Hermiticity-preserving and equal to the time-independent assembly for "
        "real symmetric K_m; Lindblad forms (real operators, real rates); rate-only tensors completed by updateStructure (exact "
        "precondition stated) incl. Foerster with the repaired pure dephasing h_a + conj h_b; adding Foerster rates to a Redfield "
        "tensor, sums and real multiples; secularisation keeps exactly R[a,a,b,b] and R[a,b,a,b] unchanged, zeroes every other "
        "element and keeps both identities; the two-pass basis transformation keeps the trace identity for any invertible S and "
        "Hermiticity for any unitary S (real orthogonal as a special case) = 'in every basis'. Refutation witness for the pinned "
        "pure dephasing h_a + h_b (repaired by a fix: commit; a second fix: repairs the cut-off option of the Foerster tensor). "
        "Validated only: that eigh returns an orthogonal S and K_m stay real symmetric after S^T K S (observed through the "
        "identities on every end-to-end tensor, 1e-10 relative).",
   note=TB + "All C01 theorems closed under the global context. Tie: the real kernels (_loopit, both _convert_operators_2_tensor, "
        "LindbladForm, secularize x4 code paths, transform x4, operator-form apply, updateStructure, add_dephasing static/TD) on "
        "Gaussian-integer inputs compared with = inside Coq; end to end (random aggregates x theories x options) the tensor is compared "
        "(1e-12 relative) with the model fed the run's own K_m, Lambda_m / rate matrix / Redfield part. Modified Redfield and "
        "TDRedfieldFoerster cannot be built on the pinned tree (TypeError / not offered) and are counted as unavailable, not judged.",
   design="7/C01", technique="Coq proof (ring algebra over an abstract *-ring, sums by induction) + static tie: _loopit, the time-dependent assembly body, the secular zeroing condition, updateStructure (both branches), add_dephasing (static/TD), the Redfield-Foerster rate loop and the assembly glue (Kd, Ld, argument order, Lindblad llm/lld) regenerated from the source on every run by a fail-closed translator, with machine-checked equivalence lemmas to Model/C01.v (sequential-write skeletons in Proofs/C01gen.v) + in-Coq differential correspondence (exact on Gaussian integers, 1e-12 end to end)"),
 "C03": dict(
   text="Proved in Coq: for EVERY number of molecules, every level structure and every multiplicity the signature enumeration "
        "(elsignatures/_add_excitation/allstates) is complete, duplicate free and ordered by band; which_band is the excitation "
        "count; Nb adds up; for two-level molecules the explicit order (ground, singles in site order, pairs lexicographic) and "
        "Nb = [1, N, N(N-1)/2]; over any commutative ring H is exactly the Frenkel matrix (diagonal = sum of the energies of the "
        "occupied levels, one-excitation-move elements = J_kl, every other element incl. between bands = 0), real symmetric; D obeys "
        "the site-dipole selection rule (adjacent bands only); relabelling the molecules by any permutation gives the matrices "
        "conjugated by a permutation of the state indices; the dipole-dipole expression equals the point-dipole formula over any "
        "field (n a unit vector, symmetric in the molecules) and its prefactor is J2int times the SI one for Debye/Angstrom. "
        "Validated only: equality of spectrum/dipole strengths under relabelling through eigh (the theorem gives the permutation "
        "similarity), units independence of built matrices (rests on C05; monitored 1e-12), numeric value of the prefactor vs CODATA.",
   note=TB + "All C03 theorems closed under the global context. Tie: real Aggregate.build runs (N<=6, mult 0-2, integer parameters, "
        "three coupling input modes) with elsigs/which_band/Nb/H/DD/TrDMOp compared by = inside Coq; permuted molecule lists; builds "
        "under unit contexts (1e-12); raw elsignatures calls up to 4 levels; dipole-dipole geometries (1e-12, sqrt an oracle with "
        "RR^2 = R.R monitored); lifecycle: the site-basis operators handed out after diagonalize(), inside/after eigenbasis_of(H), "
        "after a second build() and rebuild() are re-checked (bit-equal snapshot, second in-Coq tie, DD = S^T D S). Multi-level sites: enumeration only (matrix elements with sqrt factors transcribed, not tied); "
        "fem_full not covered; asymmetric coupling matrices are refused by the code and outside the quantifier. Static tie: trusts the "
        "template translator harness/translate_c03.py (node-for-node statement matching, projection of _build onto statements naming "
        "HH/DD/operators, list indices read as non-negative), treats convert_energy_2_current_u and numpy.real as identities inside "
        "build()'s energy_units('int') context (the wrapper itself is matched).",
   design="7/C03", technique="Coq proof (induction over the level-by-level generator, lia/nia, ring over an abstract *-ring, field over an abstract field) + exact in-Coq correspondence + static tie: the state enumeration (elsignatures, _add_excitation), band/index bookkeeping, _get_exindx, transition_dipole, the vibronic decision tree of coupling, ElectronicState.energy, the HH/DD/Nb statements of _build (sliced by data flow) and the dipole-dipole expression, prefactor and matrix setter are translated from the current source on every run into instances of skeleton combinators (Proofs/C03gen.v) and proved equal to elsigs, exindx, trdip, coupling, energy, build_H, build_D, Nb, dipole_dipole, dd_matrix"),
 "C10": dict(
   text="Proved in Coq: for every list of level counts the vibrational signatures (numpy.ndindex) are complete, duplicate free, "
        "row-major ordered and prod(nmax) in number; Ntot = sum over electronic states of prod(nmax) with the per-electronic-state "
        "block structure of the state list; over any ring every Hamiltonian and dipole element between vibronic states equals the "
        "electronic (C03) element times the product over modes of Franck-Condon table entries, the diagonal is vibrational quanta "
        "plus electronic energy, and overlaps within one electronic state are Kronecker deltas when FC(0) is the identity. "
        "Validated only (first clause of the property): that the Franck-Condon tables follow the displaced-oscillator model - "
        "Poisson law e^-S S^n/n!, Laguerre closed form, orthogonality (<= 1e-14 on S in [0,4]) - the tables come from LAPACK eig + "
        "exp of a 100x100 matrix and enter the model as oracle data.",
   note=TB + "All C10 theorems closed under the global context. Tie: real Aggregate.build runs with 1-3 molecules, 0-2 modes, 1-3 "
        "levels per mode (Ntot <= 36 quick / 60 thorough): state list, Nb, diagonal of H exact; off-diagonal H, DD and FC products "
        "within 1e-12 relative (aggregates built, changed through set_HR and built again / rebuilt are compared with fresh builds) "
        "with the model over Q fed the real parts of the implementation's own FC tables (imaginary parts <= "
        "1e-12 monitored); raw vsignatures cases exact. Full vibrational space only: the truncated generators (vibgen_approx) raise "
        "AttributeError (numpy.int) on the pinned NumPy and are excluded by the property. Static tie: numpy.ndindex and the "
        "Franck-Condon tables remain oracles; the translator (translate_c03.py / translate_c10.py) is trusted as for C03.",
   design="7/C10", technique="Coq proof (induction over mode lists, ring over an abstract *-ring with the FC table as a Section variable) + in-Coq correspondence (exact state lists, 1e-12 matrix elements) + static tie: the sub-mode collection of ElectronicState.__init__, vsignatures (full space), fc_factor including its table key, the vibrational part of the energy, allstates and the HH/DD/FC/Ntot/Nb statements of _build are regenerated from the source and proved equal to vibmodes_of, fc_factor, venergy, vstates, vH, vD, vFC, vNb (Proofs/C10gen.v); the look-up table class ho.py:fcstorage is translated method by method and proved equal to the store model of Proofs/C10store.v, for which every request of every history is answered with the matrix of its own shift (c10_fc_table_is_function_of_shift)"),
 "C15": dict(
   text="Proved in Coq (closed) in an EFFECT model of tensor construction (9 kinds incl. the raising ones), rate matrix, propagate of 13 "
        "density-matrix propagator kinds (with Nref and order arguments), state-vector / population / hierarchy propagate and "
        "EvolutionSuperOperator.calculate (11 kinds): for every interpretation of the numerical kernels (uninterpreted symbols "
        "applied to the fields the code reads) satisfying the cut-off recover law, and for EVERY history of calls on shared objects, "
        "all input fields keep their values and each call's result equals its result on the untouched objects; results depend on "
        "input fields and arguments only; symbolic execution proved sound (reflection: two finite checks over all call shapes). "
        "Refutation witnesses for the pinned tree: hierarchy ADO carry-over, sticky Nref, exception path of get_RelaxationTensor - all "
        "three repaired by fix: commits. Validated only: that the real code reads and writes exactly the modelled fields (deep "
        "snapshots per call, bit-equality classes of results compared in Coq, bit-equal comparison with freshly built objects); the "
        "recover law on floats (bit exact for power-of-two cut-offs, one rounding otherwise). Known finding (not repaired): "
        "get_RelaxationTensor('mR') leaves sbi.CC transformed.",
   note=TB + "All C15 theorems closed under the global context. The model is data flow only; kernels are uninterpreted. Tie: random "
        "histories (5-12 API calls on one shared dimer/trimer world whose propagators partly carry their own step refinement; tensor "
        "and rate-matrix calls made inside none / 1/cm / eV unit contexts) with the call list, the changed-field list per call and the "
        "equality class of each result compared exactly with Model.C15.trace (repaired and pinned variants); any unmodelled changed "
        "attribute is a violation. Non-equilibrium Foerster, field-driven propagation and get_kernel are not exercised. Static tie: the abstract "
        "interpreter of harness/translate_c15.py, its per-shape branch conditions and its whitelists (library functions, tensor "
        "constructors that cannot run or only build result containers, basis/unit contexts, the caller's own hfce function; printed into the generated file) join the "
        "trusted base; the eight tensor constructors the shapes use are analysed, not assumed (harness/translate_c15ctor.py: writes through ham / sbi equal the declared effects, gen_ctor_writes_as_assumed). "
        "A second pass of the interpreter treats every raise statement as an exit (refused arguments): gen_refusals_leave_inputs shows no "
        "input field changed there; the check also makes such refused calls on real objects.",
   design="7/C15", technique="Coq proof (effect model, symbolic execution proved sound + reflection over all call shapes, induction over histories) + static tie: a fail-closed write-set / last-write / exposed-read analysis of the current source of the API methods (51 call shapes) compared inside Coq with the written and changed fields of the model's programs (equal written sets; changed fields within model_changed; exposed reads are inputs) + differential deep-snapshot correspondence"),
 "C18": dict(
   text="Proved in Coq (closed): packing data with an axis and extracting it is the identity for (N,) and (N,M>=2) arrays of every "
        "size; export/import through dat/txt/npy/npz/mat with or without axis is the identity on every array the formats can "
        "represent and preserves the values in storage order for every shape (reader conventions - loadtxt squeezes, loadmat returns "
        ">= 2-D - modelled as they are, shape-only refutations for (N,1) and 1-D .mat); a loaded parcel reads, in ANY state of the basis "
        "manager (any nesting, any group of basis changes; the C04 machine extended with save/load), exactly like the saved object "
        "would there; save and load outside every context return the stored data; refutations for the pinned npz-with-axis writer, "
        "single-point text files and complex text import (three fix: commits) and for objects saved inside a basis context (known "
        "finding, not repaired). Validated only: dill and the numpy/scipy writers/readers are oracles (value identity and shape "
        "conventions compared exactly on every case); the units clause (storage is internal; raw-content monitor).",
   note=TB + "All C18 theorems closed under the global context. Tie: the exhaustive matrix {dat,txt,npy,npz,mat} x {real,complex} x "
        "{axis,no axis} x 7 shapes through DataSaveable.save_data/load_data and MatrixData compared exactly in Coq; random "
        "new/read/enter/leave/save/load programs on real operators with exact signed-permutation contexts compared exactly with the "
        "model; 21 Saveable classes x {none, units, basis} context at save x at load monitored (raw content; observables - data, units-managed getters, aggregate couplings and the objects' own units conversion - read outside every context and under units active neither at saving nor at loading, 1e-12). Static "
        "tie: the translator harness/translate_c18.py and the exact-shape meaning given to numpy slice assignments in Proofs/C18gen.v "
        "join the trusted base; file I/O stays an oracle.",
   design="7/C18", technique="Coq proof (list-level model of pack/extract/format dispatch; C04 state machine extended with save/load) + static tie: _data_with_axis / _extract_data_with_axis, the extension dispatch and writer/reader methods of DataSaveable and MatrixData, savedir / loaddir and parcel.py template-matched from the current source, their constants, index expressions, dtype expression, ndmin and tag filter proved equal to Model/C18.v through skeleton lemmas in Proofs/C18gen.v + exhaustive finite matrix and random programs compared exactly in Coq"),
 "C02": dict(
   text="Proved in Coq over any commutative *-ring with imaginary unit, every dimension, EVERY expansion order (any prefactor list), "
        "refinement factor and number of steps: every stored density matrix has the trace of the initial one whenever the generators "
        "of the refined steps (one per step: time-dependent tensors) annihilate the trace - shown for the tensor form (given C01's "
        "trace identity), the operator form (unconditionally) and pure-dephasing multipliers with unit diagonal; every stored state "
        "stays Hermitian for Hermitian H, real prefactors and generators commuting with the dagger (tensor form given C01's "
        "Hermiticity identity, operator form for real K and Ld = L^dagger, Hermitian dephasing multipliers); the Lindblad operator "
        "form IS the GKSL dissipator; RWA conversion with unimodular phases keeps Hermiticity, trace and populations, is undone by "
        "the conjugate phases and (repaired elementwise form) commutes with forming psi psi^dagger; refutation witness for the pinned "
        "state-vector conversion (fix: commit); unitarity defect T_L(x)T_L(-x) = 1 + O(x^(L+2)) as exact polynomial identities for "
        "L = 2, 4, 6 (the a-priori drift of norm/purity/energy per step). Validated only (named limits): positive semidefiniteness and "
        "distance to the exact GKSL exponential within the truncation bound, purity/energy drift, state-vector vs density-matrix "
        "agreement, RWA-frame vs laboratory-frame dynamics - against scipy.linalg.expm with the bound 2NC(x^(L+1)/(L+1)!)e^x; the "
        "operator-norm remainder estimate behind that bound is cited, not mechanised.",
   note=TB + "All C02 theorems closed under the global context. Tie: ReducedDensityMatrixPropagator.propagate (closed, tensor, operator "
        "form, time-dependent tensor with index stride and cut-off, Lorentzian/Gaussian pure dephasing, orders 2/4/6, Nref 1-3) and "
        "StateVectorPropagator.propagate on integer generators with dyadic steps compared (1e-10 relative) inside Coq with the model run "
        "in exact complex-rational arithmetic, whose own run is checked to conserve the trace exactly and stay exactly Hermitian; RWA "
        "conversions compared on the run's own phases. numpy.exp values (dephasing multipliers, phases) are oracles. Field-driven "
        "propagation (raises NOT IMPLEMENTED upstream) and inhomogeneous terms are not modelled. Glue tie: per run and fail-closed; logging statements are ignored; exp, round and numpy.dot enter as function parameters with stated algebraic hypotheses; the per-property translators join the trusted base. The field / EField propagation nests are not tied.",
   design="7/C02", technique="Coq proof (Taylor loop abstracted over generator sequences: invariants and relational lemmas by induction; ring/field identities) + propagator kernels _COM/_TTI/_OTI regenerated from the source by a translator with machine-checked equivalence lemmas + in-Coq differential correspondence in exact rational arithmetic + static tie of the glue around the kernels (initialisation, dispatch and decision trees, index bookkeeping, RWA and dephasing factors, sub-axis logic, constructors, fields read and written): the code's own expressions instantiate skeleton combinators (Proofs/C02gen.v, C07gen.v, C08objgen.v, C17gen.v) proved equal to Model/C02glue.v, C07glue.v, C08obj.v and C17axis.v"),
 "C07": dict(
   text="Proved in Coq over any commutative *-ring, every dimension and number of bath components: the tensor built by "
        "_convert_operators_2_tensor, applied by tensordot, acts on EVERY operator exactly as the operator form K rho L^+ + L rho K^T - "
        "K^T L rho - rho L^+ K for whatever operators are stored (so before and after conversion); likewise the time-dependent assembly "
        "for symmetric K; hence both forms generate identical stored states for every order, refinement, number of steps and dephasing "
        "map; transforming the stored operators and the operand by a real orthogonal S transforms the result (every basis; with C04's "
        "covariance of the tensor form both stay equal); the time-dependent tensor is zero wherever Lambda_m is zero (time zero) and "
        "equals the time-independent one wherever its Lambda_m do (last index); the Lindblad operator form is the GKSL dissipator; the "
        "repaired tensor-index walk of time-local propagation never leaves the stored range and agrees with the pinned one below the "
        "cut-off, which ran off the end (witness). Two fix: commits: the index walk (IndexError in tensor form with a cut-off time) and "
        "the time-dependent operator form not being presented in the current basis. For uncoupled sites (diagonal Hamiltonian, K_m, "
        "Lambda_m; checked on the real site-basis operator form) the populations never move and every matrix element of every stored "
        "state is the propagation of a scalar multiplied per refined step by the truncated exponential of dt*coef (any order, refinement, "
        "time-dependent operators, dephasing multiplier): the algebraic half of the exact limit. Validated only: that this scalar "
        "propagation reproduces exp(-i w t - g(t)) (5e-3 at a 1 fs step: truncation and the quadrature behind Lambda_m(t)); that FITPACK "
        "antiderivatives vanish at the lower limit.",
   note=TB + "All C07 theorems closed under the global context. Tie: apply() of real LindbladForm/RedfieldRelaxationTensor objects "
        "holding integer operators in both forms compared with = inside Coq; propagation in both forms against the exact-rational "
        "propagator model (1e-10); float monitors on random aggregates: both forms inside/outside basis contexts (apply and propagate, "
        "time independent and time dependent, with and without cut-off), R_TD(0) = 0 exactly, R_TD(last) = R_TI within 1e-12 relative. Glue tie: per run and fail-closed; the spline antiderivative and exp are oracles with stated hypotheses; the cut-off clamp of both time-dependent nests is tied as the code has it (index taken on the propagation axis; on coarser propagation axes the tensor is frozen earlier than the cut-off time - noticed, not judged: no property speaks about cut-off consistency; counted as not_judged:cutoff_clamp_axis). Known finding float:convert_inside_context:complex (operator form in a complex unitary basis).",
   design="7/C07", technique="Coq proof (index-level ring algebra, relational induction over the Taylor loop) + propagator kernels regenerated from the source by a translator with machine-checked equivalence lemmas + exact in-Coq correspondence on integer operators + static tie of the glue around the kernels (initialisation, dispatch and decision trees, index bookkeeping, RWA and dephasing factors, sub-axis logic, constructors, fields read and written): the code's own expressions instantiate skeleton combinators (Proofs/C02gen.v, C07gen.v, C08objgen.v, C17gen.v) proved equal to Model/C02glue.v, C07glue.v, C08obj.v and C17axis.v"),
 "C08": dict(
   text="Proved in Coq over any commutative *-ring, every dimension, grid length, dense-step setting >= 1, order and number of "
        "incremental steps: data[i] is the i-th tensordot power of Udt - the identity at time zero - and powers compose, "
        "U(t_i+t_j) = U(t_i)U(t_j); Udt built by Ndense-1 contractions is the Ndense-th power of the elementary tensor; mode 'jit' after "
        "k calls holds counter k and the same tensor as mode 'all'; the elementary tensor assembled column by column from propagated "
        "matrix units IS the tensor Taylor polynomial of the generator, so the superoperator applied to ANY state reproduces direct "
        "propagation of that state (linearity obtained by running the same loop on tensors); at every grid time it preserves the trace "
        "(sum_a U[a,a,c,d] = delta_cd) and commutes with Hermitian conjugation when the generator annihilates traces and commutes with "
        "the dagger; -i[H,.] + R (H Hermitian, R as in C01) and Lorentzian pure dephasing qualify. Validated only: refining the dense "
        "step changes U within (twice) the truncation bound (against scipy expm).",
   note=TB + "All C08 theorems closed under the global context. Tie: EvolutionSuperOperator.calculate / calculate_next (save on and off) / "
        "apply / at on integer generators with dyadic dense steps: data at every grid time, the jit tensor after every call and "
        "apply(t_i, rho) compared (1e-10 relative) inside Coq with the model in exact rational arithmetic; float monitors (Lindblad, with "
        "and without Lorentzian dephasing): identity, semigroup, trace/Hermiticity, apply vs propagate. Gaussian dephasing and "
        "time-dependent tensors (recomputed per interval; the semigroup clause is stated for time-independent generators) are not part "
        "of this check; apply(time='all') raises AttributeError in the package (noted, outside the property). Glue tie: per run and fail-closed; the attribute-level effect analysis is sound only absent aliasing and does not cover the state of referenced objects (ham, relt); the Gaussian and time-dependent branches are matched verbatim only.",
   design="7/C08", technique="Coq proof (tensor algebra under tensordot, relational induction transferring the Taylor loop from states to tensors) + in-Coq differential correspondence in exact rational arithmetic + statement-level translator (elemental step, dense contraction loop and remaining-steps loop regenerated from the source, equivalence lemmas re-proved every run) + static tie of the glue around the kernels (initialisation, dispatch and decision trees, index bookkeeping, RWA and dephasing factors, sub-axis logic, constructors, fields read and written): the code's own expressions instantiate skeleton combinators (Proofs/C02gen.v, C07gen.v, C08objgen.v, C17gen.v) proved equal to Model/C02glue.v, C07glue.v, C08obj.v and C17axis.v"),
 "C12": dict(
   text="Proved in Coq over any commutative ring and for every line-shape function: the orientational prefactor F4e.M4.F4n is "
        "invariant under a common orthogonal transformation of all four dipoles or of all four polarisations (improper ones "
        "included), quartic in a common dipole factor, symmetric between fields and dipoles, and characterised as the isotropic "
        "average: every single orientation contracted over an orthonormal frame gives (d0.d1)(d2.d3), 30x the formula satisfies the "
        "three contraction identities, and any form F4(e).M.F4(d) satisfying them has 30M = [[4,-1,-1],[-1,4,-1],[-1,-1,4]] "
        "(uniqueness); generated pathway lists are literally unchanged by a common dipole rotation and the response scales as s^4; "
        "calculate_one on the C19 storage model gives total = rephasing + non-rephasing; for dimers and trimers of uncoupled "
        "two-level molecules (the property's quantifier) the response with excited-state absorption equals the sum of the molecular "
        "responses, symbolically in energies, dipoles, widths, t2 factors and selection flags (Gaussian widths; Lorentzian with equal "
        "dephasings); refutation witness for Lorentzian lines with unequal dephasings (known finding, not repaired). Two fix: commits "
        "(numpy.int in the pathway constructor; transposed eigenvector matrix in Aggregate.diagonalize). Cited, not mechanised: that "
        "the SO(3) average of the quartic form is isotropic (hence of the form F4.M.F4) - monitored against the 60-element "
        "icosahedral-group average and an exact-for-degree-4 Euler quadrature (1e-10). Validated only: relabelling symmetry, "
        "rotation of polarisations at response level.",
   note=TB + "All C12 theorems closed under the global context. Tie: the real liouville_pathways_3T generators on diagonalised "
        "aggregates (N<=3, integer parameters, coupled and uncoupled, synthetic evolution superoperators, dark molecules, degenerate "
        "energies) compared pathway by pathway inside Coq (order, name, type, transitions, sign exactly; frequencies, widths, dephasings, "
        "evolution factor, prefactor within 1e-11) with the model fed the observed exciton-basis data (eigh an oracle); real "
        "liouville_pathway/LabSetup prefactors; real MockTwoDResponseCalculator monitors (R+NR, rotations, scaling, relabelling, "
        "additivity). Line shapes (cvoigt/erfcx, lorentzian) are oracles. Cancellation is proved for N = 2, 3 only; the selection "
        "threshold sqrt(D2_max)*dtol is inhomogeneous in the dipole scale (the scaling theorem states 'same selection'). Static tie: generate_R1g .. generate_R2f, liouville_pathways_3T's dispatch, liouville_pathway.__init__ / add_transition / add_transfer / set_evolution_factor / build / orientational_averaging, LabSetup's M4 / F4e / F4eM4, and calculate_pathway / calculate_one are regenerated from the source and proved equal to Model/C12.v and C12x.v for all inputs; glue statements (thresholds, evolution superoperator in the eigenbasis) are matched verbatim; the translator harness/translate_c12.py joins the trusted base; exception handlers are shown dead only for systems whose sole ground state is state 0.",
   design="7/C12", technique="Coq proof over an arbitrary commutative ring (orientational algebra, pathway lists, N=2,3 cancellation, the pathway object as a state machine proved equal to the closed form) + static tie: on every run a fail-closed translation of the current source into Gallina with machine-checked equality to the model (recursive statement translator for the six generators generate_R1g..R2f and the dispatch of liouville_pathways_3T; statement templates with holes for the liouville_pathway methods, LabSetup M4/F4e/F4eM4 and the mock calculator; composite lemma g_code_is_gen6) + in-Coq differential correspondence in exact rational arithmetic (pathway lists, real pathway objects under random call programs, the calculator's selection), numerical SO(3) quadrature monitors"),
 "C13": dict(
   text="Proved in Coq with no size bound: list-rotation laws of fftshift/ifftshift (ifftshift o fftshift = id for every length; "
        "fftshift o fftshift = id for even lengths, = rotation by one and != id for every odd length >= 3); over any field of "
        "characteristic 0 with 2 pi abstract the conjugate-axis maps of TimeAxis/FrequencyAxis are mutually inverse in both "
        "directions for both axis types and every length the code accepts (start, length, step, type, conjugate start; odd upper-half "
        "frequency axes are refused), dt (dw/2pi) L = 1; over an abstract ring with a root of unity zeta (zeta^L = 1) the repaired "
        "DFunction transforms on complete axes equal the direct Fourier sum d sum_n f_n zeta^((n-L/2)(j-L/2)) at every returned point, "
        "the upper-half transform equals the Fourier sum with the Hermitian extension f(-t) = conj f(t), and FT o iFT / iFT o FT return "
        "the original values for every complex data vector; the pinned code computes the same for even lengths and is refuted at odd "
        "complete lengths (L = 3 witness over Q(omega); repaired by a fix: commit). Validated only: numpy.fft.fft/ifft compute the "
        "defining sums (oracle hypotheses, monitored against direct summation on every recorded call). The orthogonality of the powers of zeta that the round-trip theorems assume is itself proved (c13_orthogonality_from_primitive_root) for every ring without zero divisors in which zeta is a primitive L-th root of unity, with the Gaussian integers and zeta = i as a checked instance: the round trips hold in every integral domain (c13_roundtrip_complete_in_domain, c13_roundtrip_upper_in_domain).",
   note=TB + "All C13 theorems closed under the global context. The round trips assume orthogonality of the powers of zeta (stated "
        "hypothesis; true of e^(2 pi i/L), not machine checked). Tie: axis cases (lengths 1..60, negative steps, both directions, "
        "refusals) compared inside Coq over Q; transform cases for every length 1..40, both types, three chains, Gaussian-integer data, "
        "with the run's own fft/ifft calls recorded and replayed as the model's oracle so that shifts, Hermitian fill, cut and scale are "
        "reproduced through exact rationals (1e-12), for both model variants; for lengths 1, 2, 4 the whole model runs with its own "
        "defining sums. Not covered: the window argument; one-point complete axes (the code raises); iFT o FT on upper-half time axes "
        "(a factor 2 in get_inverse_Fourier_transform; the property claims FT o iFT only). Static tie: trusts harness/translate_c13.py to read the ast, and assumes the stated meanings of numpy.fft.fftfreq/fftshift, Python slicing and energy_units('int'); the window product and len(data) = axis.length stay with the differential part.",
   design="7/C13", technique="Coq proof (list rotations, sums over an abstract ring with a root of unity, field arithmetic for the axes) + static tie: the two axis-conversion methods translated whole (typed interpreter) and both DFunction transform methods matched against statement templates, the generated definitions proved equal to Model/C13 through skeleton lemmas (Proofs/C13gen.v) + in-Coq correspondence with recorded oracle calls (units-context dimension included)"),
 "C11": dict(
   text="Proved in Coq: for every Nt >= 3 position p of one_transition_spectrum holds dd dt (half-sided trapezoid Fourier sum of a(t) + "
        "c.c.) at integer frequency p + Nt//2 - Nt + 2 of hfft's own 2Nt-2 point grid (index arithmetic of hfft, fftshift, flipud, cut); "
        "the aggregate spectrum is point by point the sum of the transition lines; the pinned returned axis is MISALIGNED with the data "
        "at every position (data frequency = rwa + (axis - rwa) Nt/(Nt-1) + 2 grid steps) - recorded as a known finding, not repaired - "
        "and an axis re-created on the transform grid carries every data frequency; dipole strengths scale with c^2, are invariant "
        "under every orthogonal 3x3 rotation and under relabelling, and sum to sum_n |d_n|^2 for an orthogonal eigenvector matrix; the "
        "sum over all hfft points is n 2 Re a(0) independent of couplings and line shapes; S (S^-1 X S) S^-1 = X (inputs handed back "
        "unchanged in exact arithmetic). Validated only: hfft computes its defining sum (oracle, 1e-10); g(t) from the code's own c2g and "
        "eigenvectors from eigh; the sum rule restricted to the returned window (2e-3); scaling of a molecule's spectrum (2e-4).",
   note=TB + "All C11 theorems closed under the global context. Tie: molecules, dimers, trimers built with mult 1 and 2 (Nt 100..301 even and odd, dt 1-2 fs, "
        "couplings explicit or from geometry, a quarter with a supplied Redfield tensor), each re-run scaled, rotated and relabelled; the "
        "model fed the recorded hfft outputs, eigenvectors and dipoles reproduces .data within 1e-10 and the returned axis is compared "
        "with the pinned and repaired axis models (1e-12); independent Fourier integrals on both grids. from_dynamics and the mock "
        "calculator are not modelled; with a supplied tensor only purity, symmetry and axis clauses are checked. The calculator also sets "
        "system._has_system_bath_coupling (an attribute, not H, D or R; noted). Static tie: describes the code as it is (known finding returned_axis_displaced included); the time-domain responses (exp(-g-iwt), _c2g), the omega prefactor and the rate-matrix branch are outside it; the translator plus the stated meanings of flipud/fftshift/slices/.data += are trusted.",
   design="7/C11", technique="Coq proof (index model over an abstract ring with a root of unity, field-level grid comparison; dipole-strength and exciton-correlation-function symmetries) + static tie of the faithful (Pinned-axis) model: the transform tails, the sum over transitions, _excitonic_coft, bootstrap's axis, the axis re-created by the three calculators and the basis-changing calls of _calculate_aggregate on the Hamiltonian, dipole operator and supplied tensor (gen_transforms = purity_prog, c11_calculation_restores_operators) are translated on every run and proved equal to Model/C11 (Proofs/C11gen.v, translate_c11.py + translate_c13.py) + in-Coq correspondence with recorded hfft outputs"),
 "C14": dict(
   text="Proved in Coq (closed) over Q with numpy.exp as an oracle assumed only to satisfy ex 0 = 1, 0 <= ex x and monotonicity (it MAY "
        "underflow to 0): with the shift by the minimum the partition sum is >= 1 and _thermal_population returns populations in [0,1] "
        "summing to 1 for every T >= 0 (zero included), every energy scale, block start and subtract list; no weight exceeds 1; "
        "populations are proportional to the Boltzmann factors and, with a multiplicative exponential, p_a = ex(-(E_a-E_b)/kT) p_b; the "
        "shift changes no value the unshifted code could compute; T = 0 and the underflow limit put all population on a lowest state; "
        "over any *-ring with a non-negativity predicate a diagonal matrix of non-negative reals and the impulsive X rho X are "
        "Hermitian positive semidefinite (v^+ X rho X^+ v = (X^+ v)^+ rho (X^+ v)); the repaired weak-coupling request denotes W D W^-1 and "
        "the repaired strong-coupling request recovers site energies for any invertible S: the same physical state in any basis "
        "context. Refutation witnesses for the pinned tree: 0/0 underflow, T = 0 index, weak outside / strong inside a context - five "
        "fix: commits. Validated only: float rounding of the pipeline against the exact model (1e-12 / 1e-10), the exp and eigh/inv "
        "oracle contracts (monitored on every recorded call).",
   note=TB + "All C14 theorems closed under the global context (no Reals). Tie: direct calls of _thermal_population and "
        "OpenSystem.get_thermal_ReducedDensityMatrix (blocks of 1-8 states, energies up to +-60000 1/cm, spreads 1-5000 1/cm, exact "
        "degeneracies, T = 0 and 1e-6..1e4 K) with numpy.exp recorded into an oracle table, populations compared inside Coq (1e-12); "
        "get_DensityMatrix end to end (2-4 molecules, optional mode and two-exciton band; thermal/weak/strong/impulsive; contexts none, H, "
        "X, XH, HX) with the model fed the run's S, U, energies and exp table (1e-10; in-context cases above n = 5 are monitored only - a "
        "cost limit of exact rational arithmetic). Units contexts are not in the property's quantifier (a thermal request inside "
        "energy_units('1/cm') divides 1/cm energies by kT in internal units: noted, C05-type, not judged here). Static tie: trusted are harness/translate_c14.py and the reading of numpy.sum / argmin / amin / diag; exp, eigh and inv remain monitored oracles; the reorganisation-energy loop and the temperature defaults are matched verbatim, not modelled.",
   design="7/C14", technique="Coq proof (lra/nra/field over Q with an oracle-parameterised model; abstract *-ring for the matrix part) + static tie: _thermal_population, the selection logic of get_DensityMatrix, _impulsive_population and get_thermal_ReducedDensityMatrix are re-translated from the current source on every run (statement templates with holes instantiated into the skeletons of Proofs/C14gen.v) and proved equal to thermal_population / opensystem_population / strong_energies / strong_data / impulsive / basis_product + in-Coq correspondence in exact rational arithmetic with recorded oracle tables"),
 "C06": dict(
   text="Proved in Coq (closed) over any commutative *-ring, every Na and number of bath components, with the float comparisons of the "
        "code as abstract boolean tests: ssRedfieldRateMatrix has column sums equal to the initial diagonal (zero from the caller) for "
        "ALL inputs whether or not the clamp of small negatives fired; non-negative off-diagonals (clamp inactive) for cc >= 0 and "
        "symmetric K_k; no transfer to or from the ground state; detailed balance transfers from the bath values to the rates "
        "(cc(a,b) = beta cc(b,a) for every bath => K[a,b] = beta K[b,a]) and is built into _set_rates (uphill = downhill x Boltzmann "
        "factor, cut-off test even in omega); golden-rule form sum_k cc_k c_ka^2 c_kb^2 for site projectors and orthogonal S; Foerster "
        "zero column sums and off-diagonal |H_ab|^2 F; tensor population element R[a,a,b,b] = sum_m (lambda_m + conj lambda_m) K_ab^2; "
        "the three analytic spectral densities are odd (field over Q); (1 + coth) J obeys C(-w) = e^(-w/kT) C(w), with e = exp(-w/kT) "
        "abstract and tanh(w/2kT) = (1-e)/(1+e) a hypothesis monitored on numpy (1e-13). Validated only (tolerance computed per case): "
        "that the spline-through-FFT half-Fourier transform cw_k.at(w) and the tensor's spline quadrature equal (1 + coth) J(w); Foerster "
        "detailed balance with respect to E_n - lambda_n (T >= 200 K, dt = 0.5 fs, resolved Matsubara terms: 8e-2 + 5e-3 peak overlap; "
        "the truncated bath model itself breaks the KMS symmetry by a few per cent with the default 10 Matsubara terms).",
   note=TB + "All C06 theorems closed under the global context (no Reals). Tie: ssRedfieldRateMatrix (Python implementation and the "
        "dispatching wrapper) on integer KI/cc incl. negatives so that the clamp path runs, several rtol, non-zero initial RR: matrix and "
        "werror flags compared with = inside Coq; Foerster _reference_implementation with an integer _fintegral table compared with =; "
        "RedfieldRateMatrix end to end (N = 2-4, 77-400 K) with the run's eigenvalues, S, KK, spline values and Boltzmann factors as "
        "data (1e-11). Time-dependent Redfield rates and vibronic aggregates are not exercised. Static tie: for the translated kernels the theorems hold for what the source says now, for all inputs; trusted are the template reader harness/translate_c06.py and the untranslated @implementation dispatch; splines, FFT and quadrature remain oracles, so the golden-rule and Foerster detailed-balance clauses stay validated, not proved.",
   design="7/C06", technique="Coq proof (ring algebra over an abstract *-ring with boolean comparison oracles; field over Q) + static tie: ssRedfieldRateMatrix, RedfieldRateMatrix._set_rates, the Foerster reference implementation with the exponent of _fintegral, the three analytic spectral densities and get_FTCorrelationFunction are re-translated from the current source on every run (statement templates with holes instantiated into the skeleton combinators of Proofs/C06gen.v - imperative loops with in-place mutation proved equal to the closed-form model) and proved equal to Model/C06.v + in-Coq correspondence (exact on integers, 1e-11 end to end; units-context cases), analytic-reference monitors"),
}
NOT_YET = {}
# input dimensions added to the differential side after the seed waves of session 3 (DESIGN section 15); appended to the level notes
ADDED = {
 "C02": "complex Hermitian Hamiltonians (closed, Lindblad, RWA-vs-laboratory cases); exact pure-dephasing decay for every refinement",
 "C03": "integer-typed positions; calculate_resonance_coupling without params after another aggregate was given a permittivity; the coupling matrix supplied before the molecules are added",
 "C04": "objects created inside a context from a managed container (at() of evolutions and of the evolution superoperator); real tensors acting on states inside real and complex contexts",
 "C05": "integer / shared-array inputs; generators consumed under units contexts; state energies and the electronic Hamiltonian in the transparency registry",
 "C07": "apply() on density-matrix objects holding non-Hermitian data; site-basis diagonality of the operator form for uncoupled sites",
 "C08": "operator-form Lindblad tensors; complex Hermitian Hamiltonians; the rotating-wave frame (RWA switched on before / after construction)",
 "C09": "components with identical parameters (no bookkeeping label) through rebuilds",
 "C10": "8-14 modes; shifts closer than 1e-3 and a very small shift; ground-state settings made before the mode is attached",
 "C11": "Hamiltonians with a remainder coupling; integer-typed positions; non-zero ground-state energies; diagonalize() before the calculation (call-order monitor)",
 "C12": "integer-typed pulse polarisations with a non-integer detection vector; dipole factors down to 2^-13 in the exact scaling clause; LabSetup re-use",
 "C14": "one-exciton blocks of unequal size; two-component baths with the declared reorganisation energies as oracle; requests inside the eigenbasis of a complex Hermitian operator",
 "C16": "multi-level molecules with baths on a subset of transitions through Molecule.get_KTHierarchyPropagator; complex Hermitian Hamiltonians; hierarchy depths with two-digit entries; non-zero ground-state energy",
 "C17": "the corrections option of get_PropagationMatrix; propagate() after get_PropagationMatrix against a fresh propagator",
 "C18": "units-managed getters and the objects' own units conversion read under third units; a response stored at pathways resolution",
 "C19": "falsy tag 0; real-typed arrays among the additions; non-square stored arrays",
}
def main():
    checks = []
    for pid in sorted(CHECKS):
        c = CHECKS[pid]
        checks.append({
            "property_id": pid,
            "quick_cmd": "./check %s --tier quick" % pid,
            "thorough_cmd": "./check %s --tier thorough" % pid,
            "evidence_file": "/verif/evidence/%s.json" % pid,
            "replay_cmd_template": "./check %s --replay {path}" % pid,
            "engine": "coq-proof+correspondence",
            "level_claimed": {"category": "proof", "text": c["text"], "design_ref": c["design"]},
            "level_note": c["note"] + (" Input dimensions added after the seed waves of session 3: %s." % ADDED[pid] if pid in ADDED else ""),
            "technique": c["technique"],
        })
    allp = [json.loads(l)["id"] for l in open(os.path.join(HERE, "properties.jsonl"))]
    na = [{"property_id": p, "reason": NOT_YET.get(p, "check not built yet (work in progress; planned per DESIGN.md section 7) - not a claim that the technique cannot apply")}
          for p in allp if p not in CHECKS]
    man = {
        "version": 1,
        "setup_cmd": "cd /verif/coq && coq_makefile -f _CoqProject -o Makefile && timeout 3400 make -j16",
        "hooks": {"guard": "QUANTARHEI_VERIF", "enable": "no hooks are needed: every modelled kernel is reachable from Python; the checks export QUANTARHEI_VERIF=1 for form only",
                  "baseline_off_cmd": "cd /repo && /venv/bin/python -m pytest -ra -q -p no:cacheprovider --timeout=900 --continue-on-collection-errors",
                  "source_commits": [], "add_only": True},
        "engines": [{"name": "coq-proof+correspondence", "path": "/verif/coq, /verif/harness, /verif/check",
                     "serves_properties": sorted(CHECKS),
                     "kind_free_text": "machine-checked proofs in Coq 8.16 about hand-written executable Gallina models; each run re-checks the property's theorem file (Print Assumptions parsed), runs the implementation from /repo's working tree on generated inputs, writes inputs and implementation outputs as exact literals into cases_k.v and lets Coq (vm_compute) compare them with the model; the property is also monitored directly on the implementation's outputs to find a concrete failing input when proof or correspondence break"}],
        "checks": checks,
        "notes": "See DESIGN.md. known_findings.json lists recorded and repaired defects. fix: commits live in /repo.",
        "not_applicable": na,
    }
    json.dump(man, open(os.path.join(HERE, "MANIFEST.json"), "w"), indent=1)
if __name__ == "__main__":
    main()
