# -*- coding: utf-8 -*-
"""C13 - Fourier transforms and time/frequency axes are mutually inverse.

Proof: coq/theories/Props/C13.v (axes over any field of characteristic 0 with 2 pi abstract; transforms as list
programs over any commutative ring with a root of unity, numpy.fft.fft/ifft as oracles computing the defining sums).

Tie:
* axes: TimeAxis.get_FrequencyAxis / FrequencyAxis.get_TimeAxis on random (start, length, step, type, conjugate start)
  compared inside Coq with Model.C13.freq_axis_of / time_axis_of run over the rationals with 2 pi := the float the code
  uses (relative 1e-12), refusals (exceptions) included;
* values: every branch of DFunction.get_Fourier_transform / get_inverse_Fourier_transform on Gaussian-integer data,
  lengths 1..40 (even and odd), both axis types; the calls of numpy.fft.fft / ifft made by the code are recorded and
  replayed as the oracle of the model, so that the model reproduces the result through its own shifts, Hermitian
  fill, cut and scale factors (absolute 1e-12 * (1 + max|out|)); for transform lengths 1, 2, 4 the whole model (its own
  defining sums with zeta = 1, -1, i) is run as well;
* monitors on the real objects: oracle outputs against direct summation; transform against the direct Fourier sum on
  the returned axis; transform followed by inverse transform against the original values and axis; axis round trips.
"""
import os
import sys
import json
import cmath
import math

sys.path.insert(0, os.path.dirname(os.path.abspath(__file__)))
import common as cm

PID = "C13"
work = cm.reexec_isolated(PID)
args = cm.parse_args(sys.argv[1:])

STAGE_NAME = {0: "get_Fourier_transform[TimeAxis]", 1: "get_inverse_Fourier_transform[FrequencyAxis]",
              2: "get_inverse_Fourier_transform[TimeAxis]", 3: "get_Fourier_transform[FrequencyAxis]"}
# chain: (axis class of the starting function, first routine, second routine)
CHAINS = {"A": ("time", 0, 1), "B": ("time", 2, 3), "C": ("freq", 3, 2)}


# ------------------------------------------------------------------ generators
def gen_step(r):
    u = r.random()
    if u < 0.45:
        return r.choice([1, 2, 3, 5, 7, 9, 16]) / r.choice([1.0, 2.0, 4.0, 8.0, 16.0])
    if u < 0.9:
        return r.choice([0.1, 0.37, 1.0 / 3.0, 2.5, 0.01, 12.3, r.uniform(0.05, 20.0)])
    return -r.choice([0.5, 1.0, 0.3])


def gen_start(r):
    return r.choice([0.0, 0.0, -3.0, 1.5, 10.0, -0.75, r.uniform(-50, 50)])


def gen_axis(r, k):
    d = r.choice(["tf", "tf", "ft"])
    atype = r.choice(["complete", "upper-half"])
    if r.random() < 0.15:
        n = r.choice([1, 1, 2, 3])
    else:
        n = r.randint(1, 60)
    return {"kind": "axis", "dir": d, "atype": atype, "length": n, "start": gen_start(r), "step": gen_step(r),
            "cstart": r.choice([0.0, 0.0, 0.7, -1.25, r.uniform(-5, 5)])}


def gen_data(r, n):
    u = r.random()
    if u < 0.1:
        y = [[0, 0] for _ in range(n)]
        y[r.randrange(n)] = [r.choice([1, -2, 3]), r.choice([0, 0, 1])]
    elif u < 0.25:
        y = [[r.randint(-9, 9), 0] for _ in range(n)]
    elif u < 0.4:
        y = [[r.randint(-9, 9), r.randint(-9, 9)] for _ in range(n)]
        y[0][1] = 0                                           # Hermitian-extendable
    else:
        y = [[r.randint(-9, 9), r.randint(-9, 9)] for _ in range(n)]
    real_dtype = all(v[1] == 0 for v in y) and r.random() < 0.5
    return y, real_dtype


def gen_ft(r, k, length=None, atype=None, chain=None):
    atype = atype or r.choice(["complete", "upper-half"])
    chain = chain or r.choice(["A", "A", "A", "B", "C"])
    if length is None:
        length = r.randint(1, 40)
    cls = CHAINS[chain][0]
    if cls == "time":
        if atype == "complete" and length < 2:
            length = 2 + r.randint(0, 3)
    else:
        if length < 2:
            length = 2 + r.randint(0, 3)
        if atype == "upper-half" and length % 2:
            length += 1
    y, real_dtype = gen_data(r, length)
    return {"kind": "ft", "chain": chain, "atype": atype, "length": length, "start": gen_start(r), "step": gen_step(r),
            "cstart": r.choice([0.0, 0.0, 0.7, -1.25]), "data": y, "real": real_dtype}


# ------------------------------------------------------------------ implementation drivers
def make_axis(cls, c):
    import quantarhei as qr
    if cls == "time":
        return qr.TimeAxis(c["start"], c["length"], c["step"], atype=c["atype"], frequency_start=c["cstart"])
    return qr.FrequencyAxis(c["start"], c["length"], c["step"], atype=c["atype"], time_start=c["cstart"])


def axis_tuple(ax):
    """(start, length, step, upper?, conjugate start) of a TimeAxis / FrequencyAxis"""
    import quantarhei as qr
    conj = ax.frequency_start if isinstance(ax, qr.TimeAxis) else ax.time_start
    return (float(ax.start), int(ax.length), float(ax.step), ax.atype == "upper-half", float(conj))


def axlit(t):
    return "(%s, %d%%nat, %s, %s, %s)" % (cm.qlit(t[0]), t[1], cm.qlit(t[2]), "true" if t[3] else "false", cm.qlit(t[4]))


def oaxlit(t):
    return "None" if t is None else "(Some %s)" % axlit(t)


def same_axis(a, b, tol=1e-12):
    if a[1] != b[1] or a[3] != b[3]:
        return False
    # rounding is relative to the magnitudes involved: the extent of the axis for its start, the extent of the
    # conjugate axis (2 pi / step) for the conjugate start (both are differences of numbers of that size)
    scale = max(1.0, abs(a[0]), abs(a[2]) * a[1])
    cscale = max(1.0, abs(a[4]), abs(b[4]), 2.0 * math.pi / abs(a[2]))
    return (abs(a[0] - b[0]) <= tol * scale and abs(a[2] - b[2]) <= tol * abs(a[2])
            and abs(a[4] - b[4]) <= tol * cscale)


def impl_axis(c):
    """returns (first axis tuple, conjugate axis tuple or None, back axis tuple or None, monitor message)"""
    import numpy
    import quantarhei as qr
    first = make_axis("time" if c["dir"] == "tf" else "freq", c)
    t0 = axis_tuple(first)
    try:
        conj = first.get_FrequencyAxis() if c["dir"] == "tf" else first.get_TimeAxis()
    except Exception as e:
        return t0, None, None, None, repr(e)
    want_cls = qr.FrequencyAxis if c["dir"] == "tf" else qr.TimeAxis
    t1 = axis_tuple(conj)
    if not isinstance(conj, want_cls):
        return t0, t1, None, "conjugate axis has class %s" % type(conj).__name__, None
    try:
        back = conj.get_TimeAxis() if c["dir"] == "tf" else conj.get_FrequencyAxis()
    except Exception as e:
        return t0, t1, None, "conjugate axis cannot be mapped back: %r" % (e,), None
    t2 = axis_tuple(back)
    msg = None
    if type(back) is not type(first):
        msg = "axis mapped back has class %s" % type(back).__name__
    elif not same_axis(t0, t2):
        msg = "axis mapped back is %r, started from %r" % (t2, t0)
    elif not numpy.allclose(back.data, first.data, rtol=1e-12, atol=1e-12 * max(1.0, abs(t0[0]), abs(t0[2]) * t0[1])):
        msg = "points of the axis mapped back differ by %g" % numpy.max(numpy.abs(back.data - first.data))
    return t0, t1, t2, msg, None


class Recorder:
    """records the calls of numpy.fft.fft / ifft made while active"""

    def __init__(self):
        import numpy
        self.np = numpy
        self.calls = {"fft": [], "ifft": []}

    def __enter__(self):
        np = self.np
        self.orig = (np.fft.fft, np.fft.ifft)

        def mk(name, fn):
            def wrapped(a, *p, **kw):
                out = fn(a, *p, **kw)
                if not p and not kw:
                    self.calls[name].append((np.array(a, dtype=complex).copy(), np.array(out, dtype=complex).copy()))
                return out
            return wrapped
        np.fft.fft = mk("fft", self.orig[0])
        np.fft.ifft = mk("ifft", self.orig[1])
        return self

    def __exit__(self, *a):
        self.np.fft.fft, self.np.fft.ifft = self.orig
        return False


def run_stage(which, f):
    with Recorder() as rec:
        g = f.get_Fourier_transform() if which in (0, 3) else f.get_inverse_Fourier_transform()
    return g, rec.calls


def direct_sum(which, atype, fin, gout):
    """the property's right-hand side, evaluated independently on the returned axis; None where not claimed"""
    import numpy
    a_in, a_out = fin.axis.data, gout.axis.data
    y = numpy.asarray(fin.data, dtype=complex)
    sgn = 1.0 if which in (0, 3) else -1.0
    c = fin.axis.step if which in (0, 2) else fin.axis.step / (2.0 * numpy.pi)
    if atype == "complete":
        L = len(y)
        hh = L // 2
        ph = numpy.outer(a_out - a_out[hh], a_in - a_in[hh])
        return c * (numpy.exp(sgn * 1j * ph) @ y)
    if which == 0:                                   # Hermitian extension f(-t) = conj f(t)
        N = len(y)
        ph = numpy.outer(a_out - a_out[N], a_in - a_in[0])
        return c * (numpy.exp(1j * ph) @ y + numpy.exp(-1j * ph[:, 1:]) @ numpy.conj(y[1:]))
    if which == 1:                                   # back to the upper half of the time axis
        N = len(y) // 2
        ph = numpy.outer(a_out - a_out[0], a_in - a_in[N])
        return c * (numpy.exp(-1j * ph) @ y)
    return None


def monitor_oracle(calls):
    import numpy
    for name in ("fft", "ifft"):
        for (x, out) in calls[name]:
            L = len(x)
            k = numpy.arange(L)
            W = numpy.exp((-2j if name == "fft" else 2j) * numpy.pi * numpy.outer(k, k) / L)
            ref = W @ x
            if name == "ifft":
                ref = ref / L
            err = numpy.max(numpy.abs(ref - out)) if L else 0.0
            if err > 1e-12 * max(1.0, L * numpy.max(numpy.abs(x))):
                return name, "numpy.fft.%s differs from its defining sum by %g on an array of length %d" % (name, err, L)
    return None


def clist_g(arr):
    return cm.clist([cm.gq(z) for z in arr])


def table_lit(calls):
    return cm.clist(["(%s, %s)" % (clist_g(x), clist_g(out)) for (x, out) in calls])


def parity(n):
    return "even" if n % 2 == 0 else "odd"


def impl_ft(c, chk, stage_items, stage_meta, full_items, full_meta):
    import numpy
    import quantarhei as qr
    cls, s1, s2 = CHAINS[c["chain"]]
    ax = make_axis(cls, c)
    y = numpy.array([complex(a, b) for a, b in c["data"]])
    if c["real"]:
        y = numpy.array([float(a) for a, b in c["data"]])
    y0 = y.copy()
    f = qr.DFunction(ax, y)
    tag = "%s:%s" % (c["atype"], parity(c["length"]))
    itp = 1.0 / (2.0 * numpy.pi)
    fin = f
    outs = []
    for which in (s1, s2):
        try:
            g, calls = run_stage(which, fin)
        except Exception as e:
            chk.violation("exception:%s:%s" % (STAGE_NAME[which], tag), "%s raised %r" % (STAGE_NAME[which], e), "monitor", c)
            return False
        msg = monitor_oracle(calls)
        if msg:
            chk.violation("oracle:" + msg[0], msg[1], "monitor", c)
        ref = direct_sum(which, c["atype"], fin, g)
        gd = numpy.asarray(g.data, dtype=complex)
        if ref is not None:
            scale = max(1.0, float(numpy.max(numpy.abs(ref))))
            if gd.shape != ref.shape:
                chk.violation("fourier_sum:%s:%s" % (STAGE_NAME[which], tag), "%s returned %d values on an axis of %d points"
                              % (STAGE_NAME[which], len(gd), len(ref)), "monitor", c)
            else:
                err = float(numpy.max(numpy.abs(gd - ref)))
                if err > 1e-10 * scale:
                    j = int(numpy.argmax(numpy.abs(gd - ref)))
                    chk.violation("fourier_sum:%s:%s" % (STAGE_NAME[which], tag),
                                  "%s of %d values on a %s axis differs from the direct Fourier sum on the returned axis by %g "
                                  "(point %d: %r, sum %r)" % (STAGE_NAME[which], len(y0), c["atype"], err, j, complex(gd[j]), complex(ref[j])),
                                  "monitor", c)
        # correspondence literal of this stage
        xin = numpy.asarray(fin.data, dtype=complex)
        step = float(fin.axis.step)
        upper = c["atype"] == "upper-half"
        tol = 1e-12 * (1.0 + (float(numpy.max(numpy.abs(gd))) if len(gd) else 0.0))
        stage_items.append("(%d%%nat, %s, %s, %s, %s, %s, %s, %s, %s)" % (
            which, "true" if upper else "false", cm.qlit(step), cm.qlit(itp), clist_g(xin),
            table_lit(calls["fft"]), table_lit(calls["ifft"]), clist_g(gd), cm.qlit(tol)))
        stage_meta.append((c, which))
        Ltr = len(xin) * 2 if (upper and which in (0, 2)) else len(xin)
        if Ltr in (1, 2, 4):
            full_items.append("(%d%%nat, %d%%nat, %s, %s, %s, %s, %s, %s)" % (
                Ltr, which, "true" if upper else "false", cm.qlit(step), cm.qlit(itp), clist_g(xin), clist_g(gd), cm.qlit(tol)))
            full_meta.append((c, which))
        outs.append(g)
        fin = g
    # transform, then inverse transform: original values on the original axis
    claimed = (c["chain"] == "A") or c["atype"] == "complete"
    if claimed:
        g = outs[1]
        scale = max(1.0, float(numpy.max(numpy.abs(y0))))
        gd = numpy.asarray(g.data, dtype=complex)
        if type(g.axis) is not type(ax) or not same_axis(axis_tuple(ax), axis_tuple(g.axis)):
            chk.violation("roundtrip_axis:%s:%s" % (c["chain"], tag), "after %s and %s the axis is %r, started from %r"
                          % (STAGE_NAME[s1], STAGE_NAME[s2], axis_tuple(g.axis), axis_tuple(ax)), "monitor", c)
        elif gd.shape != y0.shape or float(numpy.max(numpy.abs(gd - y0))) > 1e-10 * scale:
            err = float(numpy.max(numpy.abs(gd - y0))) if gd.shape == y0.shape else float("inf")
            chk.violation("roundtrip:%s:%s" % (c["chain"], tag), "%s followed by %s changes the values by %g (%d points, %s axis)"
                          % (STAGE_NAME[s1], STAGE_NAME[s2], err, len(y0), c["atype"]), "monitor", c)
    if not numpy.array_equal(numpy.asarray(f.data), y0):
        chk.violation("input_changed:%s" % tag, "the transformed function's own values were changed", "monitor", c)
    return True


# ------------------------------------------------------------------ functions modified after construction
APPLY = {"times_i": lambda v: v * 1j, "conj": lambda v: v.conjugate(), "neg": lambda v: -v, "square": lambda v: v * v,
         "add_i": lambda v: v + 2j, "rotate": lambda v: v * (1 + 2j), "real": lambda v: complex(v.real, 0.0)}


def gen_mut(r, k, atype=None, dtype=None, force=None):
    atype = atype or r.choice(["upper-half", "upper-half", "complete"])
    n = r.randint(2, 24)
    dtype = dtype or r.choice(["real", "real", "int", "complex"])
    if dtype == "complex":
        data = [[r.randint(-6, 6), r.randint(-6, 6)] for _ in range(n)]
    else:
        data = [[r.randint(-6, 6), 0] for _ in range(n)]
    ops = []
    squared = False
    for _ in range(r.choice([1, 1, 2, 3])):
        u = r.random()
        if force and not ops:
            u = {"apply": 0.0, "assign": 0.5, "inplace": 0.7}[force]
        if u < 0.45:
            name = r.choice(["times_i", "conj", "neg", "add_i", "rotate", "real"] + ([] if squared else ["square"]))
            squared = squared or name == "square"
            ops.append(["apply", name])
        elif u < 0.65:
            cplx = r.random() < 0.7
            ops.append(["assign", [[r.randint(-6, 6), r.randint(-6, 6) if cplx else 0] for _ in range(n)], cplx])
        elif u < 0.85:
            ops.append(["inplace", r.choice(["mul", "add"]), r.choice([2, -1, 3])])
        else:
            ops.append(["setitem", r.randrange(n), r.randint(-5, 5)])
    window = None
    which = r.choice([0, 0, 0, 2])
    if which == 0 and r.random() < 0.35:
        wc = r.random() < 0.6
        window = [[r.randint(-3, 3), r.randint(-3, 3) if wc else 0] for _ in range(n)]
    return {"kind": "mut", "chain": "M", "atype": atype, "length": n, "start": gen_start(r), "step": gen_step(r),
            "cstart": r.choice([0.0, 0.7]), "dtype": dtype, "data": data, "ops": ops, "window": window, "which": which}


def final_values(c):
    """the values the function holds after the modifications, computed independently (exact: small Gaussian integers)"""
    vals = [complex(a, b) for a, b in c["data"]]
    for op in c["ops"]:
        if op[0] == "apply":
            vals = [APPLY[op[1]](v) for v in vals]
        elif op[0] == "assign":
            vals = [complex(a, b) for a, b in op[1]]
        elif op[0] == "inplace":
            vals = [v * op[2] if op[1] == "mul" else v + op[2] for v in vals]
        elif op[0] == "setitem":
            vals[op[1]] = complex(op[2], 0.0)
    eff = list(vals)
    if c.get("window"):
        eff = [v * complex(a, b) for v, (a, b) in zip(vals, c["window"])]
    return vals, eff


def build_mut(c):
    import numpy
    import quantarhei as qr
    ax = make_axis("time", c)
    if c["dtype"] == "complex":
        y = numpy.array([complex(a, b) for a, b in c["data"]])
    elif c["dtype"] == "int":
        y = numpy.array([int(a) for a, b in c["data"]], dtype=numpy.int64)
    else:
        y = numpy.array([float(a) for a, b in c["data"]])
    f = qr.DFunction(ax, y)
    for op in c["ops"]:
        if op[0] == "apply":
            name = op[1]
            if name == "conj":
                f.apply_to_data(numpy.conj)
            elif name == "real":
                f.apply_to_data(numpy.real)
            elif name == "times_i":
                f.apply_to_data(lambda d: d * 1j)
            elif name == "neg":
                f.apply_to_data(lambda d: -d)
            elif name == "square":
                f.apply_to_data(lambda d: d * d)
            elif name == "add_i":
                f.apply_to_data(lambda d: d + 2j)
            elif name == "rotate":
                f.apply_to_data(lambda d: d * (1 + 2j))
        elif op[0] == "assign":
            if op[2]:
                f.data = numpy.array([complex(a, b) for a, b in op[1]])
            else:
                f.data = numpy.array([float(a) for a, b in op[1]])
        elif op[0] == "inplace":
            if op[1] == "mul":
                f.data *= op[2]
            else:
                f.data += op[2]
        elif op[0] == "setitem":
            f.data[op[1]] = op[2]
    win = None
    if c.get("window"):
        wv = c["window"]
        if any(b != 0 for a, b in wv):
            win = qr.DFunction(ax, numpy.array([complex(a, b) for a, b in wv]))
        else:
            win = qr.DFunction(ax, numpy.array([float(a) for a, b in wv]))
    return ax, f, win


class _Fn:
    def __init__(self, axis, data):
        self.axis = axis
        self.data = data


def impl_mut(c, chk, stage_items, stage_meta, full_items, full_meta):
    import numpy
    import quantarhei as qr
    which = c["which"]
    tag = "%s:%s:%s" % (c["atype"], c["dtype"], "window" if c.get("window") else "plain")
    vals, eff = final_values(c)
    vals = numpy.array(vals)
    eff = numpy.array(eff)
    ax, f, win = build_mut(c)
    held = numpy.asarray(f.data, dtype=complex)
    if held.shape != vals.shape or numpy.max(numpy.abs(held - vals)) != 0.0:
        chk.violation("modified:values:" + tag, "after %r the function holds %r, expected %r" % (c["ops"], held.tolist()[:6], vals.tolist()[:6]),
                      "monitor", c)
        return False
    with Recorder() as rec:
        if which == 0:
            g = f.get_Fourier_transform(window=win) if win is not None else f.get_Fourier_transform()
        else:
            g = f.get_inverse_Fourier_transform()
    calls = rec.calls
    msg = monitor_oracle(calls)
    if msg:
        chk.violation("oracle:" + msg[0], msg[1], "monitor", c)
    gd = numpy.asarray(g.data, dtype=complex)
    scale = max(1.0, float(numpy.max(numpy.abs(gd))) if len(gd) else 1.0)
    hist = "a function built from %s values and modified by %s%s" % (c["dtype"], json.dumps([o[:2] for o in c["ops"]]),
                                                                  " with a window" if win is not None else "")
    # (1) a function constructed directly from the final values
    ax2 = make_axis("time", c)
    f2 = qr.DFunction(ax2, eff.copy())
    g2 = f2.get_Fourier_transform() if which == 0 else f2.get_inverse_Fourier_transform()
    g2d = numpy.asarray(g2.data, dtype=complex)
    if gd.shape != g2d.shape or float(numpy.max(numpy.abs(gd - g2d))) > 1e-12 * scale:
        err = float(numpy.max(numpy.abs(gd - g2d))) if gd.shape == g2d.shape else float("inf")
        chk.violation("modified:vs_direct:%s:%s" % (STAGE_NAME[which], tag), "%s of %s differs by %g from the transform of a function constructed "
                      "directly from the same final values (%d points, %s axis)" % (STAGE_NAME[which], hist, err, len(eff), c["atype"]), "monitor", c)
    # (2) the direct Fourier sum on the returned axis
    ref = direct_sum(which, c["atype"], _Fn(ax, eff), g)
    if ref is not None:
        rs = max(1.0, float(numpy.max(numpy.abs(ref))))
        if gd.shape != ref.shape or float(numpy.max(numpy.abs(gd - ref))) > 1e-10 * rs:
            err = float(numpy.max(numpy.abs(gd - ref))) if gd.shape == ref.shape else float("inf")
            chk.violation("modified:fourier_sum:%s:%s" % (STAGE_NAME[which], tag), "%s of %s differs from the direct Fourier sum of its values on "
                          "the returned axis by %g (%d points, %s axis)" % (STAGE_NAME[which], hist, err, len(eff), c["atype"]), "monitor", c)
    # (3) transform, then inverse transform: the values
    if which == 0:
        back = g.get_inverse_Fourier_transform()
        bd = numpy.asarray(back.data, dtype=complex)
        es = max(1.0, float(numpy.max(numpy.abs(eff))))
        if bd.shape != eff.shape or float(numpy.max(numpy.abs(bd - eff))) > 1e-10 * es:
            err = float(numpy.max(numpy.abs(bd - eff))) if bd.shape == eff.shape else float("inf")
            chk.violation("modified:roundtrip:" + tag, "transform and inverse transform of %s change the values by %g (%d points, %s axis)"
                          % (hist, err, len(eff), c["atype"]), "monitor", c)
    # (4) the model, exact tie on the Gaussian-integer values
    upper = c["atype"] == "upper-half"
    itp = 1.0 / (2.0 * numpy.pi)
    step = float(ax.step)
    tol = 1e-12 * (1.0 + (float(numpy.max(numpy.abs(gd))) if len(gd) else 0.0))
    stage_items.append("(%d%%nat, %s, %s, %s, %s, %s, %s, %s, %s)" % (
        which, "true" if upper else "false", cm.qlit(step), cm.qlit(itp), clist_g(eff),
        table_lit(calls["fft"]), table_lit(calls["ifft"]), clist_g(gd), cm.qlit(tol)))
    stage_meta.append((c, which))
    Ltr = len(eff) * 2 if upper else len(eff)
    if Ltr in (1, 2, 4):
        full_items.append("(%d%%nat, %d%%nat, %s, %s, %s, %s, %s, %s)" % (
            Ltr, which, "true" if upper else "false", cm.qlit(step), cm.qlit(itp), clist_g(eff), clist_g(gd), cm.qlit(tol)))
        full_meta.append((c, which))
    return True


# ------------------------------------------------------------------ transforms and axes inside energy-units contexts
UNITS = ["1/cm", "eV", "meV", "THz", "Ha", "J"]


def gen_units(r, k, cls=None, routine=None, create=None):
    cls = cls or r.choice(["freq", "freq", "time"])
    atype = r.choice(["complete", "upper-half"])
    n = r.randint(2, 16)
    if cls == "freq" and atype == "upper-half" and n % 2:
        n += 1
    data = [[r.randint(-6, 6), r.randint(-6, 6)] for _ in range(n)]
    return {"kind": "units", "chain": "U", "units": r.choice(UNITS), "cls": cls, "atype": atype, "length": n, "start": gen_start(r),
            "step": abs(gen_step(r)), "cstart": r.choice([0.0, 0.7, -1.25]), "data": data,
            "routine": routine or r.choice(["ft", "ift"]), "create": create or r.choice(["outside", "inside"])}


def impl_units(c, chk):
    """the same transform / axis round trip with no units context and inside energy_units(u); everything is compared in
    internal units (axis attributes are read outside every context)"""
    import numpy
    import quantarhei as qr
    u, cls = c["units"], c["cls"]
    tag = "%s:%s:%s:%s:%s" % (cls, c["atype"], c["routine"], c["create"], "in_units")
    y = numpy.array([complex(a, b) for a, b in c["data"]])

    def xf(f):
        return f.get_Fourier_transform() if c["routine"] == "ft" else f.get_inverse_Fourier_transform()

    def xb(g):
        return g.get_inverse_Fourier_transform() if c["routine"] == "ft" else g.get_Fourier_transform()

    def conj_axes(ax):
        a1 = ax.get_FrequencyAxis() if cls == "time" else ax.get_TimeAxis()
        a2 = a1.get_TimeAxis() if cls == "time" else a1.get_FrequencyAxis()
        return a1, a2
    # reference: no context
    ax0 = make_axis(cls, c)
    g0 = xf(qr.DFunction(ax0, y.copy()))
    a10, a20 = conj_axes(ax0)
    ref = {"data": numpy.asarray(g0.data, dtype=complex), "axis": axis_tuple(g0.axis), "a1": axis_tuple(a10), "a2": axis_tuple(a20),
           "in": axis_tuple(ax0)}
    # inside the context
    if c["create"] == "outside":
        ax = make_axis(cls, c)
    with qr.energy_units(u):
        if c["create"] == "inside":
            if cls == "freq":        # start and step of a frequency axis are given in the current units
                ax = qr.FrequencyAxis(qr.convert(c["start"], "int", u), c["length"], qr.convert(c["step"], "int", u),
                                      atype=c["atype"], time_start=c["cstart"])
            else:
                ax = make_axis(cls, c)
        f = qr.DFunction(ax, y.copy())
        g = xf(f)
        back = xb(g)
        a1, a2 = conj_axes(ax)
    got = {"data": numpy.asarray(g.data, dtype=complex), "axis": axis_tuple(g.axis), "a1": axis_tuple(a1), "a2": axis_tuple(a2),
           "in": axis_tuple(ax)}
    tol = 1e-10
    if not same_axis(ref["in"], got["in"], tol):
        chk.violation("units:axis_created:" + tag, "a %s axis created inside energy_units(%r) from converted values is %r, outside %r"
                      % (cls, u, got["in"], ref["in"]), "monitor", c)
        return False
    scale = max(1.0, float(numpy.max(numpy.abs(ref["data"]))))
    name = "get_Fourier_transform" if c["routine"] == "ft" else "get_inverse_Fourier_transform"
    if got["data"].shape != ref["data"].shape or float(numpy.max(numpy.abs(got["data"] - ref["data"]))) > tol * scale:
        err = float(numpy.max(numpy.abs(got["data"] - ref["data"]))) if got["data"].shape == ref["data"].shape else float("inf")
        chk.violation("units:values:" + tag, "%s of a function on a %s %s axis inside energy_units(%r) differs by %g (relative %g) from the "
                      "same call with no units context" % (name, c["atype"], cls, u, err, err / scale), "monitor", c)
    for key, what in (("axis", "axis of the transform"), ("a1", "conjugate axis"), ("a2", "axis mapped back")):
        if not same_axis(ref[key], got[key], tol):
            chk.violation("units:%s:%s" % (key, tag), "%s obtained inside energy_units(%r) is %r (internal units), with no context %r"
                          % (what, u, got[key], ref[key]), "monitor", c)
    claimed = c["atype"] == "complete" or (cls == "time" and c["routine"] == "ft")
    bd = numpy.asarray(back.data, dtype=complex)
    if claimed and (bd.shape != y.shape or float(numpy.max(numpy.abs(bd - y))) > 1e-10 * max(1.0, float(numpy.max(numpy.abs(y))))):
        err = float(numpy.max(numpy.abs(bd - y))) if bd.shape == y.shape else float("inf")
        chk.violation("units:roundtrip:" + tag, "inside energy_units(%r), %s followed by its inverse changes the values by %g (%d points, %s %s axis)"
                      % (u, name, err, len(y), c["atype"], cls), "monitor", c)
    return True


def units_corpus():
    out = []
    for cls in ("freq", "time"):
        for routine in ("ft", "ift"):
            for create in ("outside", "inside"):
                for atype, n in (("complete", 5), ("upper-half", 4)):
                    out.append({"kind": "units", "chain": "U", "units": "1/cm", "cls": cls, "atype": atype, "length": n, "start": 0.25, "step": 0.5,
                                "cstart": 0.7, "data": [[1, 2], [0, -1], [3, 0], [2, 2], [-1, 1]][:n], "routine": routine, "create": create})
    return out


# ------------------------------------------------------------------ run
def run(chk, cases):
    import numpy
    tp = 2.0 * numpy.pi
    ax_items = {"tf": [], "ft": []}
    ax_meta = {"tf": [], "ft": []}
    stage_items, stage_meta, full_items, full_meta = [], [], [], []
    for c in cases:
        kind = c["kind"]
        chk.count("kind:" + kind)
        try:
            if kind == "axis":
                tag = "%s:%s:%s" % (c["dir"], c["atype"], parity(c["length"]))
                chk.count("axis:" + tag)
                t0, t1, t2, msg, exc = impl_axis(c)
                # refusals the property allows: one-point complete axes (no grid step), odd upper-half frequency axes
                allowed = (c["atype"] == "complete" and c["length"] < 2) or \
                          (c["dir"] == "ft" and c["atype"] == "upper-half" and (c["length"] % 2 == 1 or c["length"] < 2))
                if exc is not None and not allowed:
                    chk.violation("axis_refused:" + tag, "conjugate axis of (start %r, length %d, step %r, %s) refused: %s"
                                  % (c["start"], c["length"], c["step"], c["atype"], exc), "monitor", c)
                if exc is None and allowed and not (c["atype"] == "complete" and c["length"] < 2):
                    chk.violation("axis_accepted:" + tag, "odd upper-half frequency axis accepted", "monitor", c)
                if msg:
                    chk.violation("axis_roundtrip:" + tag, msg, "monitor", c)
                ax_items[c["dir"]].append("(%s, %s, %s, %s)" % (cm.qlit(tp), axlit(t0), oaxlit(t1), oaxlit(t2)))
                ax_meta[c["dir"]].append(c)
                chk.case(c, c["length"] >= 2, sample={"case": c, "conjugate": t1, "back": t2} if c["length"] > 2 else None)
            elif kind == "units":
                chk.count("units:%s:%s:%s:%s:%s" % (c["units"], c["cls"], c["atype"], c["routine"], c["create"]))
                ok = impl_units(c, chk)
                chk.case(c, ok, sample={"units": c["units"], "cls": c["cls"], "atype": c["atype"], "routine": c["routine"], "create": c["create"],
                                        "length": c["length"]})
            elif kind == "mut":
                chk.count("mut:%s:%s:%s" % (c["atype"], c["dtype"], "+".join(sorted(set(o[0] for o in c["ops"])) + (["window"] if c.get("window") else []))))
                ok = impl_mut(c, chk, stage_items, stage_meta, full_items, full_meta)
                chk.case(c, ok, sample={"mut": c["ops"], "dtype": c["dtype"], "atype": c["atype"], "length": c["length"]})
            else:
                tag = "%s:%s:%s" % (c["chain"], c["atype"], parity(c["length"]))
                chk.count("ft:" + tag)
                ok = impl_ft(c, chk, stage_items, stage_meta, full_items, full_meta)
                chk.case(c, ok and any(v != [0, 0] for v in c["data"]),
                         sample={"chain": c["chain"], "atype": c["atype"], "length": c["length"], "step": c["step"]})
        except Exception as e:
            chk.violation("%s:exception" % kind, "%s case raised %r" % (kind, e), "monitor", c)
            chk.case(c, False)

    imp = "From QV Require Import Base.Alg Base.Util Base.Dft Model.C13.\n"
    tolq = "(Qmake 1 1000000000000)"
    shards, index = [], []
    CA = 150
    for d in ("tf", "ft"):
        for k in range(0, len(ax_items[d]), CA):
            shards.append(cm.HEADER + imp + "Definition cs : list case_axis := %s.\nEval vm_compute in (bad (axis_agrees_%s %s) cs).\n"
                          % (cm.clist(ax_items[d][k:k + CA]), d, tolq))
            index.append(("axis_" + d, k, CA))
    CS = 24
    for k in range(0, len(stage_items), CS):
        shards.append(cm.HEADER + imp + "Definition cs : list case_stage := %s.\n"
                      "Eval vm_compute in (bad (stage_agrees Repaired) cs).\nEval vm_compute in (bad (stage_agrees Pinned) cs).\n"
                      % cm.clist(stage_items[k:k + CS]))
        index.append(("stage", k, CS))
    CF = 60
    for k in range(0, len(full_items), CF):
        shards.append(cm.HEADER + imp + "Definition cs : list case_full := %s.\nEval vm_compute in (bad (full_agrees Repaired) cs).\n"
                      % cm.clist(full_items[k:k + CF]))
        index.append(("full", k, CF))
    results = cm.coq_eval(PID, shards)
    pinned_agree = pinned_differ = repaired_agree = repaired_differ = 0
    for (what, k, ch), (rc, out) in zip(index, results):
        if rc != 0:
            chk.violation("correspondence:coq_error", "coqc failed on %s cases: %s" % (what, out[-600:]), "correspondence",
                          {"what": what}, found_input=False)
            continue
        vals = cm.parse_evals(out)
        badl = cm.parse_natlist(vals[0])
        if what.startswith("axis_"):
            meta = ax_meta[what[5:]]
        elif what == "stage":
            meta = stage_meta
        else:
            meta = full_meta
        n = min(ch, len(meta) - k)
        chk.corr["cases"] += n
        chk.corr["disagreements"] += len(badl)
        for i in badl[:3]:
            m = meta[k + i]
            if what.startswith("axis_"):
                chk.violation("correspondence:" + what, "conjugate axes differ from Model.C13 on %s" % json.dumps(m),
                              "correspondence", m, found_input=False)
            else:
                c, which = m
                chk.violation("correspondence:%s:%s:%s:%s" % (what, STAGE_NAME[which], c["atype"], parity(c["length"])),
                              "%s differs from Model.C13 (repaired variant%s) on a %s axis of %d points"
                              % (STAGE_NAME[which], "" if what == "stage" else ", own defining sums", c["atype"], c["length"]),
                              "correspondence", c, found_input=False)
        if what == "stage":
            pb = set(cm.parse_natlist(vals[1]))
            if os.environ.get("VERIF_DEBUG"):
                for i in sorted(pb):
                    cc, wh = meta[k + i]
                    print("DEBUG pinned differs:", wh, cc["chain"], cc["atype"], cc["length"], cc["step"], cc["real"])
                for i in badl:
                    cc, wh = meta[k + i]
                    print("DEBUG repaired differs:", wh, cc["chain"], cc["atype"], cc["length"], cc["step"], cc["real"])
            pinned_differ += len(pb)
            pinned_agree += n - len(pb)
            repaired_differ += len(badl)
            repaired_agree += n - len(badl)
    # which variant of the model the code implements on this run (the two coincide on even lengths and upper-half axes)
    chk.extra["variant"] = {"stages_agreeing_with_repaired_model": repaired_agree,
                            "stages_differing_from_repaired_model": repaired_differ,
                            "stages_agreeing_with_pinned_model": pinned_agree,
                            "stages_differing_from_pinned_model": pinned_differ}


def corpus():
    """known witnesses first: odd complete lengths (the pinned defect), smallest sizes"""
    out = []
    for n, ch in ((3, "A"), (9, "A"), (5, "B"), (7, "C"), (2, "A"), (4, "A")):
        out.append({"kind": "ft", "chain": ch, "atype": "complete", "length": n, "start": 0.0, "step": 0.5, "cstart": 0.0,
                    "data": [[1, 0]] + [[0, 0]] * (n - 1), "real": False})
    out.append({"kind": "ft", "chain": "A", "atype": "upper-half", "length": 1, "start": 0.0, "step": 0.5, "cstart": 0.0,
                "data": [[2, 1]], "real": False})
    out.append({"kind": "ft", "chain": "A", "atype": "upper-half", "length": 2, "start": 1.0, "step": 0.25, "cstart": 0.7,
                "data": [[2, 1], [-3, 4]], "real": False})
    for d, a, n in (("tf", "complete", 11), ("tf", "upper-half", 11), ("ft", "complete", 11), ("ft", "upper-half", 10),
                    ("ft", "upper-half", 11), ("tf", "complete", 1), ("tf", "upper-half", 1)):
        out.append({"kind": "axis", "dir": d, "atype": a, "length": n, "start": 0.0, "step": 0.1, "cstart": 0.0})
    return out


def mut_corpus():
    base = {"kind": "mut", "chain": "M", "atype": "upper-half", "length": 4, "start": 0.0, "step": 0.5, "cstart": 0.0, "dtype": "real",
            "data": [[1, 0], [2, 0], [-1, 0], [3, 0]], "ops": [["apply", "times_i"]], "window": None, "which": 0}
    out = [base]
    out.append(dict(base, ops=[["assign", [[1, 2], [0, -1], [3, 1], [2, 2]], True]]))
    out.append(dict(base, ops=[["inplace", "mul", 2]], window=[[1, 1], [0, 2], [1, 0], [2, -1]]))
    out.append(dict(base, dtype="int", ops=[["apply", "rotate"], ["apply", "conj"]]))
    out.append(dict(base, atype="complete", ops=[["apply", "add_i"]]))
    out.append(dict(base, dtype="complex", data=[[1, 1], [2, -1], [0, 3], [1, 0]], ops=[["apply", "real"], ["apply", "times_i"]]))
    out.append(dict(base, length=2, data=[[1, 0], [2, 0]], ops=[["apply", "times_i"]]))
    return out


def main():
    chk = cm.Check(PID, args.tier)
    chk.rule = ("axis cases: random start/step/conjugate start (dyadic and arbitrary floats, a few negative steps), lengths 1..60, both "
                "types, both directions, incl. the refused ones (one-point complete axes, odd upper-half frequency axes); transform "
                "cases: lengths 1..40 (all of them in the corpus sweep), both types, three chains (A: FT then inverse FT of a time "
                "function, B: inverse FT then FT, C: the same starting on a frequency axis), Gaussian-integer data (general, real, "
                "Hermitian-extendable, single spike); functions modified after construction (built from real / integer / complex values, then "
                "apply_to_data, data assignment, in-place arithmetic, element assignment, real or complex window) on upper-half and complete "
                "axes, compared with the model, the direct Fourier sum and a function constructed directly from the final values; transforms (both routines, functions on "
                "time and on frequency axes, both types) and axis round trips inside energy_units(u), u in 1/cm eV meV THz Ha J, axis created outside the "
                "context or inside it from converted values, compared in internal units with the same calls made with no context (1e-10), plus the round "
                "trip inside the context. Non-trivial: length >= 2 (axes), data not identically zero (transforms); "
                "distinct by canonical input")
    chk.assumptions = [
        "numpy.fft.fft / numpy.fft.ifft compute the defining sums (hypotheses fft_spec / ifft_spec of the theorems): monitored on "
        "every recorded call against direct summation, 1e-12 * L * max|x|",
        "exp(2 pi i / L) satisfies zeta^L = 1 and the orthogonality relation (hypotheses of the round-trip theorems): mathematics, not checked",
        "axis arithmetic is compared with the model over Q with 2 pi := float(2*pi), relative 1e-12; values within 1e-12*(1+max|out|); "
        "monitors (direct Fourier sum, round trip) within 1e-10 * scale",
        "one-point complete axes have no grid step and are refused by the code (IndexError); modelled as refusal, not counted as a violation",
        "inverse transform followed by transform on an UPPER-HALF time axis (chain B) returns twice the values (factor 2.0 in "
        "get_inverse_Fourier_transform); the property only claims transform followed by inverse transform, so only the stage "
        "correspondence is checked there"]
    chk.assumptions.append(
        "static tie: TimeAxis.get_FrequencyAxis and FrequencyAxis.get_TimeAxis are translated whole (typed interpreter: Python ints as nat - "
        "only + * // % int(a/b) len() of lengths, no subtraction; floats as an abstract field with 2 pi abstract; numpy.fft.fftfreq / fftshift "
        "as array combinators whose every access may raise) and DFunction.get_Fourier_transform / get_inverse_Fourier_transform are matched "
        "statement by statement against templates whose holes carry the array expressions, the Hermitian completion and the cuts "
        "(harness/translate_c13.py, trusted to read the ast faithfully); numpy.fft.fftfreq(n, d)[k] = (k if k < (n-1)//2+1 else k-n)/(n d), "
        "fftshift = roll by n//2, slice assignment with fitting lengths and `with energy_units('int')` = internal units are the assumed "
        "meanings of the library calls; int(n/2) = n//2 for n < 2**53; the window product y*winfce.data and len(y) = axis.length are outside "
        "the generated definitions (the differential part feeds the model the windowed values)")
    chk.prove()
    import translate
    translate.static_tie(cm, chk, PID, cm.REPO)      # second, static tie: model regenerated from the current source
    if args.replay:
        rep = json.load(open(args.replay))
        cases = [rep["input"]] if isinstance(rep.get("input"), dict) and "kind" in rep["input"] else []
    else:
        r = cm.rng(PID)
        na, nf = (300, 150) if args.tier == "quick" else (3000, 1500)
        cases = corpus()
        # every length 1..40, both types, chain A (the property's own round trip)
        for n in range(1, 41):
            for a in ("complete", "upper-half"):
                if a == "complete" and n < 2:
                    continue
                cases.append(gen_ft(r, 0, length=n, atype=a, chain="A"))
        cases += [gen_axis(r, k) for k in range(na)] + [gen_ft(r, k) for k in range(nf)]
        r2 = cm.rng(PID + "/modified")
        cases += mut_corpus() + [gen_mut(r2, k) for k in range(120 if args.tier == "quick" else 1200)]
        r3 = cm.rng(PID + "/units")
        cases += units_corpus() + [gen_units(r3, k) for k in range(150 if args.tier == "quick" else 1500)]
    run(chk, cases)
    chk.finish()


main()
