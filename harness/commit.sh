#!/bin/sh
# usage: harness/commit.sh "<message>" <paths to stage...>
# Stages the given paths and commits them together with a coq/_CoqProject that lists only .v files present in
# the index (other builders append their work-in-progress files to the working copy of _CoqProject; a commit
# must never reference files it does not contain, or MANIFEST.setup_cmd fails on a fresh checkout).
cd /verif || exit 2
msg="$1"; shift
# record the fingerprints of the anchored sources the checks are validated against at this commit
python3 harness/fingerprints.py --update >/dev/null && git add fingerprints.json
[ $# -gt 0 ] && git add -- "$@"
tracked=$(git ls-files --cached coq/theories | sed 's#^coq/##')
tmp=$(mktemp)
while IFS= read -r line; do
  case "$line" in
    theories/*.v) echo "$tracked" | grep -qx "$line" && echo "$line" >> "$tmp" ;;
    *) echo "$line" >> "$tmp" ;;
  esac
done < coq/_CoqProject
# tracked .v files missing from _CoqProject are appended (never lose a file)
for f in $tracked; do
  case "$f" in *.v) grep -qx "$f" "$tmp" || echo "$f" >> "$tmp" ;; esac
done
blob=$(git hash-object -w "$tmp"); rm -f "$tmp"
git update-index --add --cacheinfo 100644,"$blob",coq/_CoqProject
git commit -q -m "$msg" && git log --oneline | head -1
